package props

import (
	"bytes"
	"fmt"
	"io"
	"os"
	"path/filepath"
	"runtime/debug"
	"strings"
	"sync"
	"sync/atomic"
	"testing"
	"testing/iotest"
	"time"

	"github.com/openziti/storage/boltz"
	"go.etcd.io/bbolt"
	"pgregory.net/rapid"

	"verif/kit"
)

// C17 — snapshot and restore reproduce the database exactly.

type c17Case struct {
	Kind string `json:"kind"` // sequential | concurrent
	// sequential
	H           kit.History `json:"h,omitempty"`
	Split       int         `json:"split,omitempty"`       // transactions [0,Split) run before the snapshot, the rest after it
	SnapMode    string      `json:"snapMode,omitempty"`    // file | file-in-tx | stream
	RestoreMode string      `json:"restoreMode,omitempty"` // bytes | reader
	PreTimeline bool        `json:"preTimeline,omitempty"` // the database already has a timeline id before the snapshot
	Listeners   int         `json:"listeners,omitempty"`
	// HoldListener: the slow restore listener is still busy with the first restore when the second one happens
	HoldListener bool `json:"holdListener,omitempty"`
	// SkipTimeline: no timeline request is made between the first restore and the second snapshot
	SkipTimeline bool `json:"skipTimeline,omitempty"`
	// WriteDuringSnapshotTx (snapMode file-in-tx): the first post-snapshot transaction commits while the read
	// transaction the snapshot is taken from is already open; the snapshot shows what that read transaction sees
	WriteDuringSnapshotTx bool `json:"writeDuringSnapshotTx,omitempty"`
	// concurrent
	Entities    int  `json:"entities,omitempty"`
	Readers     int  `json:"readers,omitempty"`
	GensBefore  int  `json:"gensBefore,omitempty"`  // generations committed before the snapshot
	GensBetween int  `json:"gensBetween,omitempty"` // generations committed between snapshot and start of the concurrent phase
	WriterTxs   int  `json:"writerTxs,omitempty"`   // generation bumps attempted by the concurrent writer
	Restores    int  `json:"restores,omitempty"`
	BatchWriter bool `json:"batchWriter,omitempty"` // the concurrent writer uses Db.Batch instead of Db.Update
}

func genC17(t *rapid.T) c17Case {
	if rapid.IntRange(0, 3).Draw(t, "concurrent") == 0 {
		return c17Case{Kind: "concurrent",
			Entities:    rapid.IntRange(1, 4).Draw(t, "entities"),
			Readers:     rapid.IntRange(1, 6).Draw(t, "readers"),
			GensBefore:  rapid.IntRange(1, 3).Draw(t, "gensBefore"),
			GensBetween: rapid.IntRange(0, 3).Draw(t, "gensBetween"),
			WriterTxs:   rapid.IntRange(1, 12).Draw(t, "writerTxs"),
			Restores:    rapid.IntRange(1, 2).Draw(t, "restores"),
			BatchWriter: rapid.Bool().Draw(t, "batchWriter"),
		}
	}
	c := c17Case{Kind: "sequential"}
	c.H = kit.GenHistory(t, c06Cfg, 14, 3, false, 85, c07OpGen)
	for i := range c.H.Txs {
		c.H.Txs[i].Batch = false
	}
	c.Split = rapid.IntRange(0, len(c.H.Txs)).Draw(t, "split")
	c.SnapMode = []string{"file", "file-in-tx", "stream", "file-template"}[rapid.IntRange(0, 3).Draw(t, "snapMode")]
	c.RestoreMode = []string{"bytes", "reader", "reader-data-with-eof", "reader-after-header", "os-file"}[rapid.IntRange(0, 4).Draw(t, "restoreMode")]
	c.SkipTimeline = rapid.IntRange(0, 2).Draw(t, "skipTimeline") == 0
	c.HoldListener = rapid.IntRange(0, 2).Draw(t, "holdListener") == 0
	c.WriteDuringSnapshotTx = rapid.Bool().Draw(t, "writeDuringSnapshotTx")
	c.PreTimeline = rapid.Bool().Draw(t, "preTimeline")
	c.Listeners = rapid.IntRange(0, 3).Draw(t, "listeners")
	return c
}

func stripSnapshotMarkers(lines []string) []string {
	var out []string
	for _, l := range lines {
		if l == `/"meta"/` || strings.HasPrefix(l, `/"meta"/"snapshotId" = `) || strings.HasPrefix(l, `/"meta"/"resetTimeline" = `) {
			continue
		}
		out = append(out, l)
	}
	return out
}

func takeSnapshot(w *kit.World, mode string) (data []byte, id string, err error) {
	path := filepath.Join(w.Z.Dir, "snap.bolt")
	_ = os.Remove(path)
	switch mode {
	case "file":
		var actual string
		actual, id, err = w.Z.Db.Snapshot(path)
		if err != nil {
			return nil, "", err
		}
		data, err = os.ReadFile(actual)
		return
	case "file-template":
		// the path is given as a template; the file that was written is the one the call reports
		var actual string
		actual, id, err = w.Z.Db.Snapshot("__DB_DIR__/tpl-__DATE__-__TIME__-__DB_FILE__.snap")
		if err != nil {
			return nil, "", err
		}
		if filepath.Dir(actual) != w.Z.Dir || strings.Contains(actual, "__") {
			return nil, "", fmt.Errorf("Snapshot with a path template reports the file %q (database directory %q)", actual, w.Z.Dir)
		}
		data, err = os.ReadFile(actual)
		_ = os.Remove(actual)
		return
	case "file-in-tx":
		err = w.Z.Db.View(func(tx *bbolt.Tx) error {
			var e error
			_, id, e = w.Z.Db.SnapshotInTx(tx, path)
			return e
		})
		if err != nil {
			return nil, "", err
		}
		data, err = os.ReadFile(path)
		return
	case "stream":
		buf := &bytes.Buffer{}
		err = w.Z.Db.StreamToWriter(buf)
		return buf.Bytes(), "", err
	}
	return nil, "", fmt.Errorf("unknown snapshot mode %s", mode)
}

func runC17(c c17Case) kit.Result {
	if c.Kind == "concurrent" {
		return runC17Concurrent(c)
	}
	res := kit.Result{Sub: len(c.H.Txs), Classes: []string{"kind:sequential", "snap:" + c.SnapMode, "restore:" + c.RestoreMode}}
	w, err := kit.NewWorld(c.H.Cfg)
	if err != nil {
		res.Err = err
		return res
	}
	defer w.Close()
	// grow the file (and with it bbolt's memory map) once, then free the pages again: the small transactions of the
	// history never make bbolt re-map the file, so a write transaction can commit while a read transaction is open
	if err := w.Z.Db.Update(kit.NewCtx(), func(ctx boltz.MutateContext) error {
		pad, err := ctx.Tx().CreateBucket([]byte("zz-pad"))
		if err != nil {
			return err
		}
		chunk := bytes.Repeat([]byte("p"), 2048)
		for i := 0; i < 300; i++ {
			if err := pad.Put([]byte(fmt.Sprintf("k%04d", i)), chunk); err != nil {
				return err
			}
		}
		return nil
	}); err != nil {
		res.Err = fmt.Errorf("harness: padding the file: %v", err)
		return res
	}
	if err := w.Z.Db.Update(kit.NewCtx(), func(ctx boltz.MutateContext) error { return ctx.Tx().DeleteBucket([]byte("zz-pad")) }); err != nil {
		res.Err = fmt.Errorf("harness: padding the file: %v", err)
		return res
	}
	m := kit.NewModel(c.H.Cfg)
	run := func(txs []kit.TxSpec, phase string) ([]bool, error) {
		var outcomes []bool
		for i, tx := range txs {
			out := kit.RunTx(w, m, tx)
			if out.Violation != nil {
				return nil, fmt.Errorf("%s, transaction %d: %v", phase, i, out.Violation)
			}
			outcomes = append(outcomes, out.Committed)
		}
		return outcomes, nil
	}
	if _, err := run(c.H.Txs[:c.Split], "before the snapshot"); err != nil {
		res.Err = err
		return res
	}
	if c.PreTimeline {
		if _, err := w.Z.Db.GetTimelineId(boltz.TimelineModeInitIfEmpty, func() (string, error) { return "timeline-before", nil }); err != nil {
			res.Err = fmt.Errorf("GetTimelineId before the snapshot: %v", err)
			return res
		}
	}
	var fired atomic.Int32
	release := make(chan struct{})
	for i := 0; i < c.Listeners; i++ {
		i := i
		w.Z.Db.AddRestoreListener(func() {
			if i == 0 && c.Listeners > 1 {
				// the first listener is slow: it does not return until the test lets it go. The other listeners
				// must be invoked all the same (listeners are invoked asynchronously, independently of each other)
				select {
				case <-release:
				case <-time.After(20 * time.Second):
				}
			}
			fired.Add(1)
		})
	}
	modelAtSnapshot := m.Clone()
	dumpAtSnapshot := stripSnapshotMarkers(w.Dump())
	var data []byte
	var snapID string
	var firstOutcome []bool
	rest := c.H.Txs[c.Split:]
	if c.SnapMode == "file-in-tx" && c.WriteDuringSnapshotTx && len(rest) > 0 {
		// the read transaction is opened first, then the next transaction of the history commits (from another
		// goroutine; if bbolt has to re-map the file it waits for the reader, then the write simply happens after
		// the snapshot), then the snapshot is taken from the read transaction: it must show the state before the write
		path := filepath.Join(w.Z.Dir, "snap.bolt")
		_ = os.Remove(path)
		done := make(chan kit.TxOutcome, 1)
		err = w.Z.Db.View(func(tx *bbolt.Tx) error {
			go func() { done <- kit.RunTx(w, m, rest[0]) }()
			select {
			case out := <-done:
				done <- out
				res.Classes = append(res.Classes, "write-committed-inside-the-snapshot-read-tx")
			case <-time.After(300 * time.Millisecond):
			}
			var e error
			_, snapID, e = w.Z.Db.SnapshotInTx(tx, path)
			return e
		})
		out := <-done
		if err == nil && out.Violation != nil {
			err = fmt.Errorf("transaction running beside the snapshot's read transaction: %v", out.Violation)
		}
		if err == nil {
			data, err = os.ReadFile(path)
		}
		firstOutcome, rest = []bool{out.Committed}, rest[1:]
	} else {
		data, snapID, err = takeSnapshot(w, c.SnapMode)
		if err == nil {
			if d := kit.DiffDumps(dumpAtSnapshot, stripSnapshotMarkers(w.Dump())); d != "" {
				res.Err = fmt.Errorf("taking a snapshot changed the live database:\n%s", d)
				return res
			}
		}
	}
	if err != nil {
		res.Err = fmt.Errorf("taking the snapshot (%s): %v", c.SnapMode, err)
		return res
	}
	// arbitrary further transactions
	outcomesB, err := run(rest, "after the snapshot")
	if err != nil {
		res.Err = err
		return res
	}
	outcomesB = append(firstOutcome, outcomesB...)
	changed := false
	for _, ok := range outcomesB {
		if ok {
			changed = true
		}
	}
	res.NonTrivial = changed && len(modelAtSnapshot.Ents["things"])+len(modelAtSnapshot.Ents["targets"]) > 0
	snapFile := filepath.Join(w.Z.Dir, "received.snapshot")
	// restore
	func() {
		defer func() {
			if r := recover(); r != nil {
				res.Err = fmt.Errorf("restore panicked: %v", r)
			}
		}()
		switch c.RestoreMode {
		case "bytes":
			w.Z.Db.RestoreSnapshot(data)
		case "reader":
			w.Z.Db.RestoreFromReader(bytes.NewReader(data))
		case "reader-after-header":
			// the snapshot sits behind a header in its container: the reader is positioned at the snapshot's first byte
			r := bytes.NewReader(append([]byte("HDR-0001"), data...))
			if _, err := io.ReadFull(r, make([]byte, 8)); err != nil {
				panic(err)
			}
			w.Z.Db.RestoreFromReader(r)
		case "os-file":
			// the snapshot is a file next to the database; it is opened and handed over as it is
			if err := os.WriteFile(snapFile, data, 0600); err != nil {
				panic(err)
			}
			f, err := os.Open(snapFile)
			if err != nil {
				panic(err)
			}
			w.Z.Db.RestoreFromReader(f)
			_ = f.Close()
		default:
			// a reader that hands over its last bytes together with io.EOF (as decompressors and HTTP bodies do)
			w.Z.Db.RestoreFromReader(iotest.DataErrReader(bytes.NewReader(data)))
		}
	}()
	if res.Err != nil {
		return res
	}
	if d := kit.DiffDumps(dumpAtSnapshot, stripSnapshotMarkers(w.Dump())); d != "" {
		res.Err = fmt.Errorf("database after restore differs from the state at snapshot time (snapshot %s, restore %s):\n%s\nhistory:\n%s\nsplit at %d", c.SnapMode, c.RestoreMode, d, c.H, c.Split)
		return res
	}
	if err := w.CheckAll(modelAtSnapshot); err != nil {
		res.Err = fmt.Errorf("after restore the stores do not show the state at snapshot time: %v", err)
		return res
	}
	if c.SnapMode != "stream" {
		got, err := w.Z.Db.GetSnapshotId()
		if err != nil || got == nil || *got != snapID {
			res.Err = fmt.Errorf("GetSnapshotId after restore = %v (err %v), the snapshot call returned %q", deref(got), err, snapID)
			return res
		}
	}
	// restore listeners
	if c.Listeners > 1 {
		others := time.Now().Add(10 * time.Second)
		for int(fired.Load()) < c.Listeners-1 && time.Now().Before(others) {
			time.Sleep(100 * time.Microsecond)
		}
		if n := int(fired.Load()); n < c.Listeners-1 {
			close(release)
			res.Err = fmt.Errorf("%d restore listeners registered; while the first one is still running only %d of the other %d were invoked within 10 s", c.Listeners, n, c.Listeners-1)
			return res
		}
	}
	hold := c.HoldListener && c.Listeners > 1 && c.SnapMode != "stream"
	released := false
	defer func() {
		if !released {
			close(release)
		}
	}()
	if !hold {
		close(release)
		released = true
		deadline := time.Now().Add(10 * time.Second)
		for int(fired.Load()) < c.Listeners && time.Now().Before(deadline) {
			time.Sleep(100 * time.Microsecond)
		}
		time.Sleep(200 * time.Microsecond)
		if n := int(fired.Load()); n != c.Listeners {
			res.Err = fmt.Errorf("%d restore listeners registered, %d invocations after one restore", c.Listeners, n)
			return res
		}
	}
	// timeline: the first request after restoring a marked snapshot gets a fresh id exactly once
	if c.SkipTimeline {
		// no timeline request before the next snapshot: the restored database still carries its reset marker then
		res.Classes = append(res.Classes, "no-timeline-request-between-restore-and-next-snapshot")
	} else if c.SnapMode != "stream" && c.Split%2 == 1 {
		// two overlapping timeline requests right after the restore: the id function runs once, both get its value
		var calls atomic.Int32
		idF := func() (string, error) {
			n := calls.Add(1)
			time.Sleep(3 * time.Millisecond) // keep the first request inside its transaction while the second arrives
			return fmt.Sprintf("timeline-after-%d", n), nil
		}
		var ids [2]string
		var errs [2]error
		var wg sync.WaitGroup
		for g := 0; g < 2; g++ {
			wg.Add(1)
			go func(g int) {
				defer wg.Done()
				if g == 1 {
					time.Sleep(time.Millisecond)
				}
				ids[g], errs[g] = w.Z.Db.GetTimelineId(boltz.TimelineModeDefault, idF)
			}(g)
		}
		wg.Wait()
		if errs[0] != nil || errs[1] != nil || calls.Load() != 1 || ids[0] != ids[1] || ids[0] != "timeline-after-1" {
			res.Err = fmt.Errorf("two overlapping GetTimelineId requests after restore: ids %q / %q, errors %v / %v, id function called %d times (want one fresh id, generated exactly once)", ids[0], ids[1], errs[0], errs[1], calls.Load())
			return res
		}
		res.Classes = append(res.Classes, "overlapping-timeline-requests")
	} else if c.SnapMode != "stream" {
		calls := 0
		idF := func() (string, error) { calls++; return fmt.Sprintf("timeline-after-%d", calls), nil }
		id1, err := w.Z.Db.GetTimelineId(boltz.TimelineModeDefault, idF)
		if err != nil || calls != 1 || id1 != "timeline-after-1" {
			res.Err = fmt.Errorf("first GetTimelineId after restore: id %q err %v, id function called %d times (want exactly once, returning its value)", id1, err, calls)
			return res
		}
		id2, err := w.Z.Db.GetTimelineId(boltz.TimelineModeDefault, idF)
		if err != nil || calls != 1 || id2 != id1 {
			res.Err = fmt.Errorf("second GetTimelineId after restore: id %q err %v, id function called %d times (want the same id %q without another call)", id2, err, calls, id1)
			return res
		}
	}
	// the restored database behaves like the state at snapshot time: the same transactions have the same outcomes
	*m = *modelAtSnapshot.Clone()
	outcomesB2, err := run(c.H.Txs[c.Split:], "replaying the post-snapshot transactions on the restored database")
	if err != nil {
		res.Err = err
		return res
	}
	if fmt.Sprint(outcomesB) != fmt.Sprint(outcomesB2) {
		res.Err = fmt.Errorf("post-snapshot transactions behave differently on the restored database: %v vs %v", outcomesB, outcomesB2)
		return res
	}
	if err := w.CheckAll(m); err != nil {
		res.Err = fmt.Errorf("after replaying on the restored database: %v", err)
		return res
	}
	if c.RestoreMode == "os-file" {
		// the snapshot file is still the snapshot, whatever the database did since it was restored from it
		if now, err := os.ReadFile(snapFile); err != nil || !bytes.Equal(now, data) {
			res.Err = fmt.Errorf("the snapshot file handed to RestoreFromReader no longer holds the snapshot after later transactions on the restored database (read error: %v, %d bytes then, %d now)", err, len(data), len(now))
			return res
		}
	}
	// a second snapshot / restore cycle on a database that has itself been restored; the snapshot id is
	// requested while the new snapshot is still streaming in
	if c.SnapMode == "stream" {
		return res
	}
	model2 := m.Clone()
	dump2 := stripSnapshotMarkers(w.Dump())
	data2, id2, err := takeSnapshot(w, "file")
	if err != nil {
		res.Err = fmt.Errorf("second snapshot: %v", err)
		return res
	}
	if _, err := run(c.H.Txs[c.Split:], "between the second snapshot and its restore"); err != nil {
		res.Err = err
		return res
	}
	var midID *string
	midBlocked := false
	func() {
		defer func() {
			if r := recover(); r != nil {
				res.Err = fmt.Errorf("second restore panicked: %v", r)
			}
		}()
		w.Z.Db.RestoreFromReader(&midStreamReader{data: data2, at: len(data2) / 2, hook: func() {
			// a read request made while the snapshot is still streaming in is served from the database as it is
			done := make(chan *string, 1)
			go func() {
				id, _ := w.Z.Db.GetSnapshotId()
				done <- id
			}()
			select {
			case midID = <-done:
			case <-time.After(5 * time.Second):
				midBlocked = true
			}
		}})
	}()
	if res.Err != nil {
		return res
	}
	if midBlocked {
		res.Err = fmt.Errorf("a read request (GetSnapshotId) made while a snapshot was streaming in for RestoreFromReader did not return within 5 s: the database is blocked for the whole transfer")
		return res
	}
	if got, err := w.Z.Db.GetSnapshotId(); err != nil || got == nil || *got != id2 {
		res.Err = fmt.Errorf("GetSnapshotId after the second restore = %v (err %v), the second snapshot call returned %q (a request made while the snapshot was streaming in saw %v)", deref(got), err, id2, deref(midID))
		return res
	}
	if d := kit.DiffDumps(dump2, stripSnapshotMarkers(stripTimeline(w.Dump()))); d != "" {
		res.Err = fmt.Errorf("database after the second restore differs from the state at the second snapshot:\n%s", d)
		return res
	}
	if err := w.CheckAll(model2); err != nil {
		res.Err = fmt.Errorf("after the second restore: %v", err)
	}
	res.Classes = append(res.Classes, "second-restore-cycle")
	if hold {
		// the slow listener was still busy with the first restore when the second one happened: once it is let go,
		// every listener has been invoked once per restore
		close(release)
		released = true
		deadline := time.Now().Add(10 * time.Second)
		for int(fired.Load()) < 2*c.Listeners && time.Now().Before(deadline) {
			time.Sleep(100 * time.Microsecond)
		}
		time.Sleep(300 * time.Microsecond)
		if n := int(fired.Load()); n != 2*c.Listeners {
			res.Err = fmt.Errorf("%d restore listeners registered (one of them slow), two restores: %d invocations, want %d", c.Listeners, n, 2*c.Listeners)
			return res
		}
		res.Classes = append(res.Classes, "listener-busy-across-the-second-restore")
	}
	if c.SkipTimeline {
		// the first timeline request at all after two restores: a fresh id, generated exactly once
		calls := 0
		idF := func() (string, error) { calls++; return fmt.Sprintf("timeline-late-%d", calls), nil }
		id1, err := w.Z.Db.GetTimelineId(boltz.TimelineModeDefault, idF)
		id2b, err2 := w.Z.Db.GetTimelineId(boltz.TimelineModeDefault, idF)
		if err != nil || err2 != nil || calls != 1 || id1 != "timeline-late-1" || id2b != id1 {
			res.Err = fmt.Errorf("timeline requests after the second restore: ids %q / %q, errors %v / %v, id function called %d times (want one fresh id, generated once)", id1, id2b, err, err2, calls)
		}
	}
	return res
}

// slowWriter collects a stream; after the first chunk it pauses so that other transactions commit in the meantime.
type slowWriter struct {
	buf    bytes.Buffer
	chunks int
}

func (s *slowWriter) Write(p []byte) (int, error) {
	s.chunks++
	if s.chunks == 1 {
		time.Sleep(3 * time.Millisecond)
	} else {
		time.Sleep(50 * time.Microsecond)
	}
	return s.buf.Write(p)
}

// eofSignalReader calls atEOF when it reports the end of the data.
type eofSignalReader struct {
	r     io.Reader
	atEOF func()
}

func (e *eofSignalReader) Read(p []byte) (int, error) {
	n, err := e.r.Read(p)
	if err == io.EOF {
		e.atEOF()
	}
	return n, err
}

// c17Pad grows the file (and bbolt's memory map) once and frees the pages again.
func c17Pad(w *kit.World) error {
	if err := w.Z.Db.Update(kit.NewCtx(), func(ctx boltz.MutateContext) error {
		pad, err := ctx.Tx().CreateBucket([]byte("zz-pad"))
		if err != nil {
			return err
		}
		chunk := bytes.Repeat([]byte("p"), 2048)
		for i := 0; i < 300; i++ {
			if err := pad.Put([]byte(fmt.Sprintf("k%04d", i)), chunk); err != nil {
				return err
			}
		}
		return nil
	}); err != nil {
		return fmt.Errorf("harness: padding the file: %v", err)
	}
	if err := w.Z.Db.Update(kit.NewCtx(), func(ctx boltz.MutateContext) error { return ctx.Tx().DeleteBucket([]byte("zz-pad")) }); err != nil {
		return fmt.Errorf("harness: padding the file: %v", err)
	}
	return nil
}

// midStreamReader delivers data and calls hook once when the given offset has been passed.
type midStreamReader struct {
	data []byte
	pos  int
	at   int
	hook func()
}

func (r *midStreamReader) Read(p []byte) (int, error) {
	if r.pos >= len(r.data) {
		return 0, io.EOF
	}
	n := len(p)
	if n > 4096 {
		n = 4096
	}
	if r.pos+n > len(r.data) {
		n = len(r.data) - r.pos
	}
	copy(p, r.data[r.pos:r.pos+n])
	before := r.pos
	r.pos += n
	if before < r.at && r.pos >= r.at && r.hook != nil {
		r.hook()
	}
	return n, nil
}

func stripTimeline(lines []string) []string { return lines }

// ---- concurrent part ----

var c17GenCfg = kit.WorldCfg{Stores: []kit.StoreCfg{{Name: "things", UniqueName: true, RolesIndex: true}}}

func genName(g, i int) string { return fmt.Sprintf("g%04d-e%d", g, i) }
func genRole(g int) string    { return fmt.Sprintf("gen-%04d", g) }

// writeGeneration moves every entity, its unique index value and its set index value to generation g in one transaction.
func writeGeneration(w *kit.World, n, g int, create bool) error {
	return writeGenerationVia(w, n, g, create, false)
}

func writeGenerationVia(w *kit.World, n, g int, create, batch bool) error {
	run := w.Z.Db.Update
	if batch {
		run = w.Z.Db.Batch
	}
	return run(kit.NewCtx(), func(ctx boltz.MutateContext) error {
		for i := 0; i < n; i++ {
			e := (&kit.EntSpec{Name: genName(g, i), Roles: []string{genRole(g)}, Note: fmt.Sprint(g)}).ToEnt("things", fmt.Sprintf("e%d", i))
			var err error
			if create {
				err = w.Stores["things"].Create(ctx, e)
			} else {
				err = w.Stores["things"].Update(ctx, e, nil)
			}
			if err != nil {
				return err
			}
		}
		return nil
	})
}

// readGeneration reads everything inside one read transaction and returns the single generation it shows.
func readGeneration(w *kit.World, n int) (int, error) {
	gen := -1
	err := w.Z.Db.View(func(tx *bbolt.Tx) error {
		see := func(what string, g int) error {
			if gen == -1 {
				gen = g
			}
			if g != gen {
				return fmt.Errorf("one read transaction shows generation %d and, through %s, generation %d", gen, what, g)
			}
			return nil
		}
		st := w.Stores["things"]
		for i := 0; i < n; i++ {
			id := fmt.Sprintf("e%d", i)
			e, found, err := st.FindById(tx, id)
			if err != nil || !found {
				return fmt.Errorf("entity %s not readable: found=%v err=%v", id, found, err)
			}
			var g, gi int
			if _, err := fmt.Sscanf(e.Name, "g%04d-e%d", &g, &gi); err != nil {
				return fmt.Errorf("entity %s has unexpected name %q", id, e.Name)
			}
			if err := see("entity "+id, g); err != nil {
				return err
			}
			var gn int
			_, _ = fmt.Sscanf(e.Note, "%d", &gn)
			if err := see("note of "+id, gn); err != nil {
				return err
			}
			if len(e.Roles) != 1 || e.Roles[0] != genRole(g) {
				return fmt.Errorf("entity %s of generation %d has roles %q", id, g, e.Roles)
			}
			if got := w.Unique["things.name"].Read(tx, []byte(genName(g, i))); string(got) != id {
				return fmt.Errorf("unique index has %q for %q (generation %d), expected %s", got, genName(g, i), g, id)
			}
		}
		if gen >= 0 {
			count := 0
			w.SetIdx["things.roles"].Read(tx, []byte(genRole(gen)), func([]byte) { count++ })
			if count != n {
				return fmt.Errorf("set index lists %d entities for %s, expected %d", count, genRole(gen), n)
			}
			var keys []string
			w.SetIdx["things.roles"].ReadKeys(tx, func(k []byte) { keys = append(keys, string(k)) })
			if len(keys) != 1 || keys[0] != genRole(gen) {
				return fmt.Errorf("set index keys %q while the entities are at generation %d", keys, gen)
			}
			ids, _, err := st.QueryIds(tx, fmt.Sprintf(`anyOf(roles) = "%s"`, genRole(gen)))
			if err != nil || len(ids) != n {
				return fmt.Errorf("query for generation %d returned %v (err %v)", gen, ids, err)
			}
		}
		return nil
	})
	return gen, err
}

func runC17Concurrent(c c17Case) kit.Result {
	res := kit.Result{Classes: []string{"kind:concurrent", fmt.Sprintf("readers:%d", c.Readers), fmt.Sprintf("restores:%d", c.Restores), fmt.Sprintf("batch-writer:%v", c.BatchWriter)}}
	w, err := kit.NewWorld(c17GenCfg)
	if err != nil {
		res.Err = err
		return res
	}
	abandon := false // closing waits for open transactions: a database with stuck goroutines is abandoned
	defer func() {
		if !abandon {
			w.Close()
		}
	}()
	gen := 1
	if err := writeGeneration(w, c.Entities, gen, true); err != nil {
		res.Err = fmt.Errorf("setup: %v", err)
		return res
	}
	for i := 1; i < c.GensBefore; i++ {
		gen++
		if err := writeGeneration(w, c.Entities, gen, false); err != nil {
			res.Err = fmt.Errorf("setup: %v", err)
			return res
		}
	}
	if c.Restores == 2 {
		// streaming phase: a snapshot is streamed to a slow receiver while a writer keeps committing generations; what
		// arrives is one committed generation of the whole database, not a mixture (restored and read back below)
		if err := c17Pad(w); err != nil {
			res.Err = err
			return res
		}
		genAtStart := gen
		stopBurst := make(chan struct{})
		burstDone := make(chan error, 1)
		go func() {
			g := genAtStart
			for {
				select {
				case <-stopBurst:
					burstDone <- nil
					return
				default:
				}
				g++
				if err := writeGeneration(w, c.Entities, g, false); err != nil {
					burstDone <- fmt.Errorf("writer beside the streaming snapshot: generation %d: %v", g, err)
					return
				}
				gen = g
			}
		}()
		sw := &slowWriter{}
		serr := w.Z.Db.StreamToWriter(sw)
		close(stopBurst)
		if berr := <-burstDone; berr != nil || serr != nil {
			res.Err = fmt.Errorf("streaming phase: stream error %v, writer error %v", serr, berr)
			return res
		}
		genAtEnd := gen
		func() {
			defer debug.SetPanicOnFault(debug.SetPanicOnFault(true))
			defer func() {
				if p := recover(); p != nil {
					res.Err = fmt.Errorf("restoring the streamed snapshot panicked: %v", p)
				}
			}()
			w.Z.Db.RestoreSnapshot(sw.buf.Bytes())
		}()
		if res.Err != nil {
			abandon = true
			return res
		}
		// (a stream that is not one committed state can be an unreadable file: a fault while reading it is a verdict)
		g, rerr := func() (g int, err error) {
			defer debug.SetPanicOnFault(debug.SetPanicOnFault(true))
			defer func() {
				if p := recover(); p != nil {
					g, err = -1, fmt.Errorf("reading the restored database faults: %v", p)
				}
			}()
			return readGeneration(w, c.Entities)
		}()
		if rerr != nil || g < genAtStart || g > genAtEnd {
			res.Err = fmt.Errorf("a snapshot streamed while generations %d..%d were being committed restores to generation %d, error: %v", genAtStart, genAtEnd, g, rerr)
			return res
		}
		gen = g
		res.Classes = append(res.Classes, "snapshot-streamed-beside-a-writer")
	}
	if c.Readers%2 == 1 {
		// overlapping snapshot requests: one goroutine takes file snapshots back to back; beside it a generation is
		// committed and then a snapshot requested, which must hold that generation (or a later one)
		if err := c17Pad(w); err != nil {
			res.Err = err
			return res
		}
		stopSnaps := make(chan struct{})
		snapsDone := make(chan error, 1)
		pathA, pathB := filepath.Join(w.Z.Dir, "snap-a.bolt"), filepath.Join(w.Z.Dir, "snap-b.bolt")
		go func() {
			for {
				select {
				case <-stopSnaps:
					snapsDone <- nil
					return
				default:
				}
				if _, _, err := w.Z.Db.Snapshot(pathA); err != nil {
					snapsDone <- fmt.Errorf("back-to-back snapshot: %v", err)
					return
				}
			}
		}()
		var verr error
		for k := 0; k < 4 && verr == nil; k++ {
			gen++
			if err := writeGeneration(w, c.Entities, gen, false); err != nil {
				verr = fmt.Errorf("writing generation %d beside snapshots: %v", gen, err)
				break
			}
			_ = os.Remove(pathB)
			actual, _, err := w.Z.Db.Snapshot(pathB)
			if err != nil {
				verr = fmt.Errorf("snapshot requested beside another one: %v", err)
				break
			}
			if actual != pathB {
				// (the file of the other request is being rewritten: it is not looked into)
				verr = fmt.Errorf("Snapshot(%s), requested after generation %d had been committed and while another snapshot was being taken, says it wrote %s", pathB, gen, actual)
				break
			}
			held := -1
			sdb, err := bbolt.Open(actual, 0600, &bbolt.Options{ReadOnly: true, Timeout: 5 * time.Second})
			if err != nil {
				verr = fmt.Errorf("the snapshot file %s returned by Snapshot cannot be opened: %v", actual, err)
				break
			}
			_ = sdb.View(func(tx *bbolt.Tx) error {
				if b := boltz.Path(tx, "root", "things", "e0"); b != nil {
					if name := b.GetString(kit.FName); name != nil {
						var gi int
						_, _ = fmt.Sscanf(*name, "g%04d-e%d", &held, &gi)
					}
				}
				return nil
			})
			_ = sdb.Close()
			if held < gen {
				verr = fmt.Errorf("a snapshot requested after generation %d had been committed (while another snapshot was being taken) holds generation %d", gen, held)
			}
		}
		close(stopSnaps)
		if serr := <-snapsDone; serr != nil && verr == nil {
			verr = serr
		}
		if verr != nil {
			res.Err = verr
			return res
		}
		res.Classes = append(res.Classes, "overlapping-snapshot-requests")
	} else {
		// a write transaction is in flight when a restore arrives: the restore waits for it, and afterwards the database
		// is the snapshot (whatever that transaction committed went into the database that was replaced)
		snapData, snapID, err := takeSnapshot(w, "file")
		if err != nil {
			res.Err = fmt.Errorf("snapshot: %v", err)
			return res
		}
		genSnap := gen
		gen++
		if err := writeGeneration(w, c.Entities, gen, false); err != nil {
			res.Err = fmt.Errorf("setup: %v", err)
			return res
		}
		started, eof, wdone := make(chan struct{}), make(chan struct{}), make(chan error, 1)
		go func() {
			wdone <- w.Z.Db.Update(kit.NewCtx(), func(ctx boltz.MutateContext) error {
				close(started)
				<-eof
				time.Sleep(25 * time.Millisecond)
				b := boltz.GetOrCreatePath(ctx.Tx(), "root", "late-writer")
				b.SetString("k", "v", nil)
				return b.GetError()
			})
		}()
		<-started
		func() {
			defer func() {
				if p := recover(); p != nil {
					res.Err = fmt.Errorf("restore beside a write transaction in flight panicked: %v", p)
				}
			}()
			var once sync.Once
			w.Z.Db.RestoreFromReader(&eofSignalReader{r: bytes.NewReader(snapData), atEOF: func() { once.Do(func() { close(eof) }) }})
		}()
		if res.Err != nil {
			abandon = true
			return res
		}
		if werr := <-wdone; werr != nil {
			res.Err = fmt.Errorf("the write transaction that was in flight when the restore arrived failed: %v", werr)
			return res
		}
		g, rerr := readGeneration(w, c.Entities)
		var late bool
		_ = w.Z.Db.View(func(tx *bbolt.Tx) error {
			late = boltz.Path(tx, "root", "late-writer") != nil
			return nil
		})
		gotID, _ := w.Z.Db.GetSnapshotId()
		if rerr != nil || g != genSnap || late || gotID == nil || *gotID != snapID {
			res.Err = fmt.Errorf("a snapshot of generation %d (id %s) was restored while a write transaction was in flight: afterwards the database shows generation %d (error %v), the late transaction's bucket is there: %v, snapshot id %v", genSnap, snapID, g, rerr, late, deref(gotID))
			return res
		}
		gen = genSnap
		res.Classes = append(res.Classes, "write-tx-in-flight-when-restore-arrives")
	}
	snapGen := gen
	data, _, err := takeSnapshot(w, "file")
	if err != nil {
		res.Err = fmt.Errorf("snapshot: %v", err)
		return res
	}
	for i := 0; i < c.GensBetween; i++ {
		gen++
		if err := writeGeneration(w, c.Entities, gen, false); err != nil {
			res.Err = fmt.Errorf("setup: %v", err)
			return res
		}
	}
	// restoreStarted is bumped before a restore is requested, restoreEpoch after it returned: "no restore in between"
	// means none was in flight when the window opened and none was started while it was open
	var restoreEpoch, restoreStarted atomic.Int64
	var restoresFired atomic.Int32
	w.Z.Db.AddRestoreListener(func() { restoresFired.Add(1) })
	var firstErr atomic.Value
	fail := func(err error) { firstErr.CompareAndSwap(nil, err) }
	stop := make(chan struct{})
	var wg sync.WaitGroup
	var readsBefore, readsAfter atomic.Int64
	var log sync.Mutex
	var history []string
	note := func(format string, args ...interface{}) {
		log.Lock()
		if len(history) < 200 {
			history = append(history, fmt.Sprintf(format, args...))
		}
		log.Unlock()
	}
	for r := 0; r < c.Readers; r++ {
		wg.Add(1)
		go func(r int) {
			defer wg.Done()
			defer func() {
				if p := recover(); p != nil {
					fail(fmt.Errorf("reader %d panicked: %v", r, p))
				}
			}()
			for {
				select {
				case <-stop:
					return
				default:
				}
				epoch := restoreEpoch.Load()
				g, err := readGeneration(w, c.Entities)
				if err != nil {
					fail(fmt.Errorf("reader %d: %v", r, err))
					return
				}
				if g < snapGen {
					fail(fmt.Errorf("reader %d saw generation %d, older than the snapshot's generation %d", r, g, snapGen))
					return
				}
				if epoch == 0 {
					readsBefore.Add(1)
				} else {
					readsAfter.Add(1)
				}
			}
		}(r)
	}
	// writer
	wg.Add(1)
	go func() {
		defer wg.Done()
		defer func() {
			if p := recover(); p != nil {
				fail(fmt.Errorf("writer panicked: %v", p))
			}
		}()
		for i := 0; i < c.WriterTxs; i++ {
			epoch := restoreEpoch.Load()
			startedBefore := restoreStarted.Load()
			cur, err := readGeneration(w, c.Entities)
			if err != nil {
				fail(fmt.Errorf("writer: %v", err))
				return
			}
			werr := writeGenerationVia(w, c.Entities, cur+1, false, c.BatchWriter)
			after, rerr := readGeneration(w, c.Entities)
			if rerr != nil {
				fail(fmt.Errorf("writer: %v", rerr))
				return
			}
			note("writer: %d -> %d err=%v, then sees %d (restore epoch %d -> %d)", cur, cur+1, werr, after, epoch, restoreEpoch.Load())
			if werr != nil {
				// nothing in this workload can legitimately reject the write: a transaction that overlaps a restore
				// must run against the old or the new database, not fail because the database went away under it
				fail(fmt.Errorf("writer's transaction to generation %d failed: %v (restore epoch %d -> %d)", cur+1, werr, epoch, restoreEpoch.Load()))
				return
			}
			if epoch == startedBefore && restoreStarted.Load() == startedBefore {
				// no restore in between: the update is either entirely visible or failed cleanly
				if werr == nil && after != cur+1 {
					fail(fmt.Errorf("writer committed generation %d but then read generation %d with no restore in between", cur+1, after))
					return
				}
				if werr != nil && after != cur {
					fail(fmt.Errorf("writer's update to generation %d failed (%v) but the database moved from %d to %d", cur+1, werr, cur, after))
					return
				}
			}
			time.Sleep(time.Duration(50+i*13%200) * time.Microsecond)
		}
	}()
	// restores, spread over the writer's activity
	for i := 0; i < c.Restores; i++ {
		time.Sleep(time.Duration(300+200*i) * time.Microsecond)
		func() {
			defer func() {
				if p := recover(); p != nil {
					fail(fmt.Errorf("restore panicked: %v", p))
				}
			}()
			restoreStarted.Add(1)
			w.Z.Db.RestoreSnapshot(data)
			restoreEpoch.Add(1)
			note("restore %d done", i+1)
		}()
	}
	// let the readers observe the restored database for a moment, then stop
	time.Sleep(500 * time.Microsecond)
	doneCh := make(chan struct{})
	go func() { wg.Wait(); close(doneCh) }()
	// the writer finishes on its own; readers need the stop signal
	time.Sleep(200 * time.Microsecond)
	close(stop)
	select {
	case <-doneCh:
	case <-time.After(60 * time.Second):
		abandon = true
		res.Err = fmt.Errorf("the goroutines of a millisecond-scale workload are still stuck after 60 s (deadlock)\nlog:\n%s", strings.Join(history, "\n"))
		return res
	}
	if e := firstErr.Load(); e != nil {
		res.Err = fmt.Errorf("%v\nworkload: %+v\nlog:\n%s", e, c, strings.Join(history, "\n"))
		return res
	}
	deadline := time.Now().Add(10 * time.Second)
	for int(restoresFired.Load()) < c.Restores && time.Now().Before(deadline) {
		time.Sleep(100 * time.Microsecond)
	}
	if n := int(restoresFired.Load()); n != c.Restores {
		res.Err = fmt.Errorf("%d restores, restore listener fired %d times", c.Restores, n)
		return res
	}
	if _, err := readGeneration(w, c.Entities); err != nil {
		res.Err = fmt.Errorf("final read: %v", err)
		return res
	}
	res.NonTrivial = readsBefore.Load() > 0 && readsAfter.Load() > 0
	if res.NonTrivial {
		res.Classes = append(res.Classes, "reads-on-both-sides-of-a-restore")
	}
	return res
}

func TestC17(t *testing.T) {
	kit.Execute(t, kit.Spec[c17Case]{
		ID:    "C17",
		Level: "exploration",
		Rule: "Sequential cases (3/4): a kitchen-sink history is split at a drawn point; the prefix builds state A, a snapshot is taken (Snapshot(path), SnapshotInTx, or StreamToWriter bytes), the suffix runs, the snapshot is restored (RestoreSnapshot or RestoreFromReader). The full dump after restore must equal the dump at snapshot time except the snapshot-id / timeline-reset markers, the stores must show model A, GetSnapshotId must equal the id the snapshot call returned, every restore listener fires once, the first GetTimelineId(default) calls the id function exactly once and the second returns the same id without calling it, and replaying the suffix on the restored database gives the same outcomes as the first time. " +
			"Concurrent cases (1/4, built with -race): 1-6 reader goroutines read a generation stamp from every entity, unique-index entry, set-index entry and a query inside one View while a writer bumps the generation of everything in one Update and 1-2 restores of an older snapshot happen; every read transaction must show a single generation not older than the snapshot, every update is entirely visible or failed cleanly unless a restore intervened, no panic, no race report. " +
			"Also generated: a write committing while the snapshot's read transaction is open, a reader delivering its last bytes together with EOF, a second snapshot / restore cycle with or without a timeline request in between, overlapping timeline requests, a slow restore listener. Also: a snapshot streamed to a slow receiver while a writer commits generations; a slow restore listener that is still busy when the second restore happens. " +
			"Non-trivial: the suffix committed a change to a non-empty state A; or reads completed both before and after a restore. Distinct by hash of the case JSON.",
		Assumptions: []string{"snapshots are not taken concurrently with a restore (recursive read-locking under a pending writer is a liveness question this check does not decide)",
			"schedules are sampled by the Go scheduler, not enumerated"},
		Gen: genC17, Run: runC17,
		QuickChecks: 300, ThoroughFactor: 5,
	})
}
