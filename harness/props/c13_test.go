package props

import (
	"bytes"
	"fmt"
	"math"
	"sort"
	"strings"
	"testing"
	"time"

	"github.com/openziti/storage/ast"
	"github.com/openziti/storage/boltz"
	"go.etcd.io/bbolt"
	"pgregory.net/rapid"

	"verif/kit"
)

// C13 — stored values and compound keys round-trip.

// TV is a JSON-safe tagged value ([]byte fields survive invalid UTF-8; floats are carried as bit patterns).
type TV struct {
	K    string   `json:"k"` // s i32 i64 int f64 f32 b t nil sp-nil tp-nil list map strlist bad
	B    []byte   `json:"b,omitempty"`
	I    int64    `json:"i,omitempty"`
	F    uint64   `json:"f,omitempty"`
	Bo   bool     `json:"bo,omitempty"`
	Sec  int64    `json:"sec,omitempty"`
	Nsec int64    `json:"nsec,omitempty"`
	Off  int      `json:"off,omitempty"`
	L    []TV     `json:"l,omitempty"`
	M    []KV     `json:"m,omitempty"`
	SL   [][]byte `json:"sl,omitempty"`
}

type KV struct {
	Key []byte `json:"key"`
	V   TV     `json:"v"`
}

func (v TV) time() time.Time {
	return time.Unix(v.Sec, v.Nsec).In(time.FixedZone("", v.Off))
}

// goValue converts to the Go value handed to PutMap / PutList.
func (v TV) goValue() interface{} {
	switch v.K {
	case "s":
		return string(v.B)
	case "i32":
		return int32(v.I)
	case "i64":
		return v.I
	case "int":
		return int(v.I)
	case "f64":
		return math.Float64frombits(v.F)
	case "f32":
		return math.Float32frombits(uint32(v.F))
	case "b":
		return v.Bo
	case "t":
		return v.time()
	case "nil":
		return nil
	case "list":
		out := make([]interface{}, 0, len(v.L))
		for _, e := range v.L {
			out = append(out, e.goValue())
		}
		return out
	case "map":
		out := map[string]interface{}{}
		for _, kv := range v.M {
			out[string(kv.Key)] = kv.V.goValue()
		}
		return out
	case "bad":
		switch v.I {
		case 0:
			return uint8(7)
		case 1:
			return struct{ A int }{1}
		case 2:
			return []string{"x"}
		case 3:
			return map[string]string{"a": "b"}
		case 4:
			return uint64(1)
		default:
			return complex(1, 2)
		}
	}
	panic("bad TV kind " + v.K)
}

// sameRead compares what the bucket returned with what was written (widening allowed as the property states).
func sameRead(want TV, got interface{}) string {
	switch want.K {
	case "s":
		if g, ok := got.(string); !ok || g != string(want.B) {
			return fmt.Sprintf("wrote string %q, read %#v", want.B, got)
		}
	case "i32":
		if g, ok := got.(int32); !ok || g != int32(want.I) {
			if g64, ok64 := got.(int64); !ok64 || g64 != int64(int32(want.I)) {
				return fmt.Sprintf("wrote int32 %d, read %#v", int32(want.I), got)
			}
		}
	case "i64", "int":
		if g, ok := got.(int64); !ok || g != want.I {
			return fmt.Sprintf("wrote %s %d, read %#v", want.K, want.I, got)
		}
	case "f64":
		if g, ok := got.(float64); !ok || math.Float64bits(g) != want.F {
			return fmt.Sprintf("wrote float64 bits %016x, read %#v", want.F, got)
		}
	case "f32":
		w := float64(math.Float32frombits(uint32(want.F)))
		if g, ok := got.(float64); !ok || math.Float64bits(g) != math.Float64bits(w) {
			return fmt.Sprintf("wrote float32 %v, read %#v", w, got)
		}
	case "b":
		if g, ok := got.(bool); !ok || g != want.Bo {
			return fmt.Sprintf("wrote bool %v, read %#v", want.Bo, got)
		}
	case "t":
		if g, ok := got.(time.Time); !ok || !g.Equal(want.time()) {
			return fmt.Sprintf("wrote time %v, read %#v", want.time(), got)
		}
	case "nil":
		if got != nil {
			return fmt.Sprintf("wrote nil, read %#v", got)
		}
	case "list":
		g, ok := got.([]interface{})
		if !ok || len(g) != len(want.L) {
			return fmt.Sprintf("wrote list of %d, read %#v", len(want.L), got)
		}
		for i := range g {
			if d := sameRead(want.L[i], g[i]); d != "" {
				return fmt.Sprintf("list[%d]: %s", i, d)
			}
		}
	case "map":
		g, ok := got.(map[string]interface{})
		wantM := map[string]TV{}
		for _, kv := range want.M {
			wantM[string(kv.Key)] = kv.V // later duplicates win, as in a Go map literal built in order
		}
		if !ok || len(g) != len(wantM) {
			return fmt.Sprintf("wrote map with %d keys, read %#v", len(wantM), got)
		}
		for k, w := range wantM {
			gv, present := g[k]
			if !present {
				return fmt.Sprintf("map key %q missing after read", k)
			}
			if d := sameRead(w, gv); d != "" {
				return fmt.Sprintf("map[%q]: %s", k, d)
			}
		}
	}
	return ""
}

type c13Field struct {
	Name string `json:"name"`
	V    TV     `json:"v"`
	V2   TV     `json:"v2"` // second value of the same kind (field-checker cases)
}

type c13Case struct {
	Kind   string     `json:"kind"` // values | checker | codec | unsupported
	Fields []c13Field `json:"fields,omitempty"`
	// checker
	Selected []string `json:"selected,omitempty"`
	ViaCtx   bool     `json:"viaCtx,omitempty"` // use PersistContext setters instead of TypedBucket setters
	// NilChecker: when nothing is selected the checker is the nil MapFieldChecker (a non-nil FieldChecker selecting nothing)
	NilChecker bool `json:"nilChecker,omitempty"`
	// Overrides: stored field name -> name the checker is asked about (PersistContext.WithFieldOverrides / NewMappedFieldChecker)
	Overrides map[string]string `json:"overrides,omitempty"`
	// ParentOverrides (with ViaCtx and Overrides): two levels, as for an entity of a child store. The child's context
	// sets Overrides, then hands its checker to the context of the parent part (what GetParentContext does), which
	// sets ParentOverrides; both buckets hold fields of the same names. Each level is judged with its own overrides
	// (the parent's on top of the child's), and the child's are not changed by what the parent level added
	ParentOverrides map[string]string `json:"parentOverrides,omitempty"`
	// codec
	ListA [][]byte `json:"listA,omitempty"`
	ListB [][]byte `json:"listB,omitempty"`
	// unsupported
	AllowNested bool `json:"allowNested,omitempty"`
	// base: Fields = createdAt, updatedAt (times), tags (flat map, V then V2 on update)
	Migrate bool `json:"migrate,omitempty"`
	System  bool `json:"system,omitempty"`
}

// ---- generators ----

var c13Strings = [][]byte{{}, []byte(" lead"), []byte("trail\t"), []byte(" a "), []byte("a"), []byte("\x00"), []byte("a\x00b"), {0xff, 0xfe}, []byte("héllo"), []byte("\xc3\x28"), []byte(" "), []byte(strings.Repeat("x", 300)), {5}, {7}}
var c13Ints64 = []int64{0, 1, -1, math.MaxInt64, math.MinInt64, math.MaxInt32, math.MinInt32, 1 << 32, 255, 256}
var c13Ints32 = []int64{0, 1, -1, math.MaxInt32, math.MinInt32, 255, 65536}
var c13Floats = []uint64{0, math.Float64bits(1.5), math.Float64bits(-0.0), math.Float64bits(math.MaxFloat64), math.Float64bits(-math.MaxFloat64), math.Float64bits(math.SmallestNonzeroFloat64),
	math.Float64bits(math.Inf(1)), math.Float64bits(math.Inf(-1)), 0x7ff8000000000001, 0xfff8000000000000, math.Float64bits(1e-310)}

func genBytes(t *rapid.T, l string) []byte {
	if rapid.IntRange(0, 2).Draw(t, l+"_fixed") > 0 {
		return c13Strings[rapid.IntRange(0, len(c13Strings)-1).Draw(t, l+"_pick")]
	}
	return rapid.SliceOfN(rapid.Byte(), 0, 24).Draw(t, l+"_bytes")
}

func genScalar(t *rapid.T, l string, kinds []string) TV {
	k := kinds[rapid.IntRange(0, len(kinds)-1).Draw(t, l+"_kind")]
	v := TV{K: k}
	switch k {
	case "s":
		v.B = genBytes(t, l)
	case "i32":
		if rapid.Bool().Draw(t, l+"_edge") {
			v.I = c13Ints32[rapid.IntRange(0, len(c13Ints32)-1).Draw(t, l+"_i32")]
		} else {
			v.I = int64(rapid.Int32().Draw(t, l+"_i32r"))
		}
	case "i64", "int":
		if rapid.Bool().Draw(t, l+"_edge") {
			v.I = c13Ints64[rapid.IntRange(0, len(c13Ints64)-1).Draw(t, l+"_i64")]
		} else {
			v.I = rapid.Int64().Draw(t, l+"_i64r")
		}
	case "f64":
		if rapid.Bool().Draw(t, l+"_edge") {
			v.F = c13Floats[rapid.IntRange(0, len(c13Floats)-1).Draw(t, l+"_f")]
		} else {
			v.F = rapid.Uint64().Draw(t, l+"_fr")
		}
	case "f32":
		v.F = uint64(rapid.Uint32().Draw(t, l+"_f32"))
	case "b":
		v.Bo = rapid.Bool().Draw(t, l+"_b")
	case "t":
		switch rapid.IntRange(0, 4).Draw(t, l+"_tk") {
		case 0:
			v.Sec = 0
		case 1:
			v.Sec, v.Nsec = -62135596800, 0 // year 1
		case 2:
			v.Sec, v.Nsec = 253402300799, 999999999 // end of year 9999
		case 3:
			v.Sec, v.Nsec = -1, 1 // just before the epoch, sub-second
		default:
			v.Sec = rapid.Int64Range(-1<<40, 1<<40).Draw(t, l+"_sec")
			v.Nsec = rapid.Int64Range(0, 999999999).Draw(t, l+"_nsec")
		}
		// zone offsets incl. the odd ones of local mean time (a minute or two off UTC)
		v.Off = []int{0, 3600, -5 * 3600, 5*3600 + 1800, 14 * 3600, -12 * 3600, 1, -59, -60, -61, -90, -119, -120, 60}[rapid.IntRange(0, 13).Draw(t, l+"_off")]
	}
	return v
}

var c13ScalarKinds = []string{"s", "s", "i32", "i64", "f64", "b", "t", "nil"}
var c13MapLeafKinds = []string{"s", "i32", "i64", "int", "f64", "f32", "b", "t", "nil"}

func genKey(t *rapid.T, l string) []byte {
	for {
		k := genBytes(t, l)
		if len(k) > 0 && string(k) != boltz.ListSizeKeyName {
			return k
		}
		l += "x"
	}
}

func genContainer(t *rapid.T, l string, depth int) TV {
	if depth <= 0 || rapid.IntRange(0, 2).Draw(t, l+"_leaf") == 0 {
		return genScalar(t, l, c13MapLeafKinds)
	}
	n := rapid.IntRange(0, 3).Draw(t, l+"_n")
	if rapid.Bool().Draw(t, l+"_isList") {
		v := TV{K: "list"}
		if rapid.IntRange(0, 24).Draw(t, l+"_long") == 0 {
			// a long list of distinct scalars (more than 256 elements)
			m := []int{257, 300, 600}[rapid.IntRange(0, 2).Draw(t, l+"_longn")]
			for i := 0; i < m; i++ {
				v.L = append(v.L, TV{K: "i64", I: int64(i)})
			}
			return v
		}
		for i := 0; i < n; i++ {
			v.L = append(v.L, genContainer(t, fmt.Sprintf("%s_l%d", l, i), depth-1))
		}
		return v
	}
	v := TV{K: "map"}
	seen := map[string]bool{}
	for i := 0; i < n; i++ {
		k := genKey(t, fmt.Sprintf("%s_k%d", l, i))
		if seen[string(k)] {
			continue
		}
		seen[string(k)] = true
		v.M = append(v.M, KV{Key: k, V: genContainer(t, fmt.Sprintf("%s_m%d", l, i), depth-1)})
	}
	return v
}

func genC13(t *rapid.T) c13Case {
	switch rapid.IntRange(0, 10).Draw(t, "kind") {
	case 10:
		// the base values every extended entity carries: creation and update stamps, tags, the system flag
		c := c13Case{Kind: "base", Migrate: rapid.IntRange(0, 2).Draw(t, "migrate") > 0, System: rapid.Bool().Draw(t, "system")}
		flat := func(l string) TV {
			v := TV{K: "map"}
			seen := map[string]bool{}
			for i, n := 0, rapid.IntRange(0, 3).Draw(t, l+"_n"); i < n; i++ {
				k := genKey(t, fmt.Sprintf("%s_k%d", l, i))
				if seen[string(k)] {
					continue
				}
				seen[string(k)] = true
				v.M = append(v.M, KV{Key: k, V: genScalar(t, fmt.Sprintf("%s_v%d", l, i), []string{"s", "i32", "i64", "f64", "b", "nil"})})
			}
			return v
		}
		created := genScalar(t, "created", []string{"t"})
		updated := created
		if rapid.IntRange(0, 3).Draw(t, "sameStamp") > 0 {
			updated = genScalar(t, "updated", []string{"t"})
		}
		c.Fields = []c13Field{{Name: boltz.FieldCreatedAt, V: created}, {Name: boltz.FieldUpdatedAt, V: updated}, {Name: boltz.FieldTags, V: flat("tags"), V2: flat("tags2")}}
		return c
	case 0, 1, 2, 3:
		c := c13Case{Kind: "values"}
		n := rapid.IntRange(1, 6).Draw(t, "nFields")
		for i := 0; i < n; i++ {
			l := fmt.Sprintf("f%d", i)
			f := c13Field{Name: fmt.Sprintf("field%d", i)}
			switch rapid.IntRange(0, 9).Draw(t, l+"_shape") {
			case 0:
				f.V = TV{K: "strlist"}
				m := rapid.IntRange(0, 5).Draw(t, l+"_sln")
				for j := 0; j < m; j++ {
					f.V.SL = append(f.V.SL, genBytes(t, fmt.Sprintf("%s_sl%d", l, j)))
				}
			case 1, 2:
				f.V = TV{K: "map"}
				top := genContainer(t, l+"_map", 4)
				if top.K == "map" {
					f.V = top
				} else {
					f.V.M = []KV{{Key: []byte("k"), V: top}}
				}
			case 3:
				f.V = TV{K: []string{"sp-nil", "tp-nil"}[rapid.IntRange(0, 1).Draw(t, l+"_pn")]}
			default:
				f.V = genScalar(t, l, c13ScalarKinds)
			}
			c.Fields = append(c.Fields, f)
		}
		return c
	case 4, 5, 6:
		c := c13Case{Kind: "checker", ViaCtx: rapid.Bool().Draw(t, "viaCtx")}
		n := rapid.IntRange(2, 6).Draw(t, "nFields")
		kinds := []string{"s", "i32", "i64", "b", "t", "strlist", "map", "sp"}
		if !c.ViaCtx {
			kinds = append(kinds, "f64", "strlist-gas", "list", "list")
		}
		c.NilChecker = rapid.IntRange(0, 3).Draw(t, "nilChecker") == 0
		for i := 0; i < n; i++ {
			l := fmt.Sprintf("f%d", i)
			k := kinds[rapid.IntRange(0, len(kinds)-1).Draw(t, l+"_kind")]
			f := c13Field{Name: fmt.Sprintf("field%d", i)}
			switch k {
			case "strlist":
				f.V = TV{K: "strlist", SL: [][]byte{[]byte("a"), []byte("b")}}
				f.V2 = TV{K: "strlist", SL: [][]byte{genBytes(t, l+"_sl2"), []byte("c")}}
			case "strlist-gas":
				// GetAndSetStringList over an existing list; the new value may repeat members of the stored set
				f.V = TV{K: "strlist-gas", SL: [][]byte{[]byte("a"), []byte("b"), []byte("c")}}
				pool := [][]byte{[]byte("a"), []byte("b"), []byte("c"), []byte("d")}
				var sl [][]byte
				for j, m := 0, rapid.IntRange(0, 4).Draw(t, l+"_gasn"); j < m; j++ {
					sl = append(sl, pool[rapid.IntRange(0, 3).Draw(t, fmt.Sprintf("%s_gas%d", l, j))])
				}
				f.V2 = TV{K: "strlist-gas", SL: sl}
			case "list":
				// a top-level list (PutList) overwritten by another list: elements may change between scalar, map, list and nil
				f.V = TV{K: "list", L: []TV{genContainer(t, l+"_la0", 2), genContainer(t, l+"_la1", 2), genContainer(t, l+"_la2", 1)}}
				f.V2 = TV{K: "list"}
				for j, m := 0, rapid.IntRange(0, 4).Draw(t, l+"_lbn"); j < m; j++ {
					f.V2.L = append(f.V2.L, genContainer(t, fmt.Sprintf("%s_lb%d", l, j), 2))
				}
			case "map":
				f.V = TV{K: "map", M: []KV{{Key: []byte("k"), V: TV{K: "s", B: []byte("one")}}}}
				f.V2 = TV{K: "map", M: []KV{{Key: []byte("k2"), V: genScalar(t, l+"_mv", c13MapLeafKinds)}}}
			case "sp":
				f.V = TV{K: "s", B: []byte("set")}
				f.V2 = TV{K: "sp-nil"}
			default:
				f.V = genScalar(t, l+"_a", []string{k})
				f.V2 = genScalar(t, l+"_b", []string{k})
			}
			c.Fields = append(c.Fields, f)
			if rapid.Bool().Draw(t, l+"_sel") {
				c.Selected = append(c.Selected, f.Name)
			}
		}
		if rapid.IntRange(0, 2).Draw(t, "withOverrides") == 0 {
			// some stored fields are exposed to the checker under another name, possibly the stored name of another field
			c.Overrides = map[string]string{}
			for i, f := range c.Fields {
				switch rapid.IntRange(0, 3).Draw(t, fmt.Sprintf("ov%d", i)) {
				case 0:
					c.Overrides[f.Name] = "public-" + f.Name
				case 1:
					c.Overrides[f.Name] = c.Fields[(i+1)%len(c.Fields)].Name
				}
			}
			for _, f := range c.Fields {
				if rapid.Bool().Draw(t, "selOv_"+f.Name) {
					c.Selected = append(c.Selected, "public-"+f.Name)
				}
			}
			if c.ViaCtx && rapid.Bool().Draw(t, "twoLevels") {
				c.ParentOverrides = map[string]string{}
				for i, f := range c.Fields {
					switch rapid.IntRange(0, 3).Draw(t, fmt.Sprintf("pov%d", i)) {
					case 0:
						c.ParentOverrides[f.Name] = "api-" + f.Name
					case 1:
						c.ParentOverrides[f.Name] = c.Fields[(i+1)%len(c.Fields)].Name
					}
				}
				for _, f := range c.Fields {
					if rapid.IntRange(0, 2).Draw(t, "selPov_"+f.Name) == 0 {
						c.Selected = append(c.Selected, "api-"+f.Name)
					}
				}
			}
		}
		return c
	case 7, 8:
		c := c13Case{Kind: "codec"}
		gen := func(l string) [][]byte {
			n := rapid.IntRange(0, 6).Draw(t, l+"_n")
			var out [][]byte
			for i := 0; i < n; i++ {
				switch rapid.IntRange(0, 5).Draw(t, fmt.Sprintf("%s_sz%d", l, i)) {
				case 0:
					out = append(out, []byte{})
				case 1:
					out = append(out, bytes.Repeat([]byte{byte(rapid.IntRange(0, 255).Draw(t, fmt.Sprintf("%s_fill%d", l, i)))}, []int{127, 128, 4095, 4096, 4097, 16384}[rapid.IntRange(0, 5).Draw(t, fmt.Sprintf("%s_len%d", l, i))]))
				default:
					out = append(out, rapid.SliceOfN(rapid.Byte(), 0, 12).Draw(t, fmt.Sprintf("%s_b%d", l, i)))
				}
			}
			return out
		}
		c.ListA = gen("a")
		if rapid.Bool().Draw(t, "related") {
			// a near miss of A: split / merge / shift a boundary
			c.ListB = append([][]byte{}, c.ListA...)
			if len(c.ListB) > 0 {
				i := rapid.IntRange(0, len(c.ListB)-1).Draw(t, "at")
				switch rapid.IntRange(0, 2).Draw(t, "how") {
				case 0:
					c.ListB = append(c.ListB[:i:i], append([][]byte{{}}, c.ListB[i:]...)...)
				case 1:
					e := c.ListB[i]
					if len(e) > 1 {
						c.ListB = append(c.ListB[:i:i], append([][]byte{e[:1], e[1:]}, c.ListB[i+1:]...)...)
					}
				case 2:
					if i+1 < len(c.ListB) {
						merged := append(append([]byte{}, c.ListB[i]...), c.ListB[i+1]...)
						c.ListB = append(c.ListB[:i:i], append([][]byte{merged}, c.ListB[i+2:]...)...)
					}
				}
			}
		} else {
			c.ListB = gen("b")
		}
		return c
	default:
		c := c13Case{Kind: "unsupported", AllowNested: rapid.Bool().Draw(t, "allowNested")}
		v := TV{K: "bad", I: int64(rapid.IntRange(0, 5).Draw(t, "bad"))}
		if !c.AllowNested && rapid.Bool().Draw(t, "nestedInstead") {
			v = TV{K: "map", M: []KV{{Key: []byte("in"), V: TV{K: "s", B: []byte("x")}}}}
			if rapid.Bool().Draw(t, "listInstead") {
				v = TV{K: "list", L: []TV{{K: "i64", I: 1}}}
			}
		}
		if c.AllowNested {
			// the offending value may sit below lists and maps (an error raised while storing a list element or a
			// nested map entry has to reach the caller like one raised at the top level); an entry with an empty
			// key, which bbolt refuses, serves as a second kind of unstorable value
			if rapid.IntRange(0, 3).Draw(t, "emptyKeyInstead") == 0 {
				v = TV{K: "map", M: []KV{{Key: []byte("host"), V: TV{K: "s", B: []byte("b")}}, {Key: []byte(""), V: TV{K: "i64", I: 2}}}}
			}
			for d, n := 0, rapid.IntRange(0, 3).Draw(t, "wrapDepth"); d < n; d++ {
				if rapid.Bool().Draw(t, fmt.Sprintf("wrapList%d", d)) {
					elems := []TV{{K: "i64", I: int64(d)}, v}
					if rapid.Bool().Draw(t, fmt.Sprintf("wrapFirst%d", d)) {
						elems = []TV{v, {K: "s", B: []byte("after")}}
					}
					v = TV{K: "list", L: elems}
				} else {
					v = TV{K: "map", M: []KV{{Key: []byte("in"), V: v}, {Key: []byte("z"), V: TV{K: "s", B: []byte("after")}}}}
				}
			}
		}
		c.Fields = []c13Field{{Name: "tags", V: TV{K: "map", M: []KV{{Key: []byte("good"), V: TV{K: "s", B: []byte("v")}}, {Key: []byte("k"), V: v}}}}}
		return c
	}
}

// ---- runner ----

func toStrings(bs [][]byte) []string {
	out := make([]string, 0, len(bs))
	for _, b := range bs {
		out = append(out, string(b))
	}
	return out
}

// c13GasMismatch records the first wrong answer of a get-and-set setter (old value / changed flag) of the running case.
var c13GasMismatch string

func noteGas(what, name string, selected bool, before *string, after string, old *string, changed bool) {
	wantChanged := selected && (before == nil || *before != after)
	var wantOld *string
	if selected {
		wantOld = before
	}
	if c13GasMismatch == "" && (changed != wantChanged || (old == nil) != (wantOld == nil) || old != nil && *old != *wantOld) {
		c13GasMismatch = fmt.Sprintf("%s(%s, %q) with the field holding %s (selected by the checker: %v) returned old=%s changed=%v", what, name, after, deref(before), selected, deref(old), changed)
	}
}

func writeField(b *boltz.TypedBucket, name string, v TV, checker boltz.FieldChecker) {
	switch v.K {
	case "s":
		if len(v.B)%3 == 2 {
			// the setter that also reports what was there and whether it changed
			before := b.GetString(name)
			old, changed := b.GetAndSetString(name, string(v.B), checker)
			noteGas("TypedBucket.GetAndSetString", name, checker == nil || checker.IsUpdated(name), before, string(v.B), old, changed)
			return
		}
		b.SetString(name, string(v.B), checker)
	case "i32":
		b.SetInt32(name, int32(v.I), checker)
	case "i64":
		b.SetInt64(name, v.I, checker)
	case "f64":
		b.SetFloat64(name, math.Float64frombits(v.F), checker)
	case "b":
		b.SetBool(name, v.Bo, checker)
	case "t":
		if v.Nsec%2 == 1 {
			tm := v.time()
			b.SetTimeP(name, &tm, checker) // the pointer variant of the setter
		} else {
			b.SetTime(name, v.time(), checker)
		}
	case "nil":
		if b.ProceedWithSet(name, checker) {
			b.SetNil(name)
		}
	case "sp-nil":
		b.SetStringP(name, nil, checker)
	case "tp-nil":
		b.SetTimeP(name, nil, checker)
	case "strlist":
		b.SetStringList(name, toStrings(v.SL), checker)
	case "strlist-gas":
		b.GetAndSetStringList(name, toStrings(v.SL), checker)
	case "list":
		b.PutList(name, v.goValue().([]interface{}), checker)
	case "map":
		b.PutMap(name, v.goValue().(map[string]interface{}), checker, true)
	default:
		panic("writeField: " + v.K)
	}
}

func writeFieldCtx(ctx *boltz.PersistContext, name string, v TV) {
	switch v.K {
	case "s":
		if len(v.B) > 0 && strings.TrimSpace(string(v.B)) != "" && len(v.B)%2 == 1 {
			// a required string is stored exactly as given (only its emptiness is checked)
			ctx.SetRequiredString(name, string(v.B))
		} else if len(v.B)%4 == 0 {
			before := ctx.Bucket.GetString(name)
			old, changed := ctx.GetAndSetString(name, string(v.B))
			noteGas("PersistContext.GetAndSetString", name, ctx.ProceedWithSet(name), before, string(v.B), old, changed)
		} else {
			ctx.SetString(name, string(v.B))
		}
	case "i32":
		ctx.SetInt32(name, int32(v.I))
	case "i64":
		ctx.SetInt64(name, v.I)
	case "b":
		ctx.SetBool(name, v.Bo)
	case "t":
		tm := v.time()
		ctx.SetTimeP(name, &tm)
	case "sp-nil":
		ctx.SetStringP(name, nil)
	case "strlist":
		if len(v.SL)%2 == 0 {
			ctx.GetAndSetStringList(name, toStrings(v.SL))
		} else {
			ctx.SetStringList(name, toStrings(v.SL))
		}
	case "map":
		ctx.SetMap(name, v.goValue().(map[string]interface{}))
	default:
		panic("writeFieldCtx: " + v.K)
	}
}

func checkField(b *boltz.TypedBucket, name string, v TV) string {
	switch v.K {
	case "s":
		g := b.GetString(name)
		if g == nil || *g != string(v.B) {
			return fmt.Sprintf("%s: wrote string %q, GetString = %v", name, v.B, deref(g))
		}
		if d, e := b.GetStringWithDefault(name, "dflt"), b.GetStringOrError(name); d != string(v.B) || e != string(v.B) {
			return fmt.Sprintf("%s: wrote string %q, GetStringWithDefault = %q GetStringOrError = %q", name, v.B, d, e)
		}
	case "i32":
		g32, g64 := b.GetInt32(name), b.GetInt64(name)
		if g32 == nil || *g32 != int32(v.I) || g64 == nil || *g64 != int64(int32(v.I)) {
			return fmt.Sprintf("%s: wrote int32 %d, GetInt32 = %v GetInt64 = %v", name, int32(v.I), g32, g64)
		}
		if d := b.GetInt32WithDefault(name, -7); d != int32(v.I) {
			return fmt.Sprintf("%s: wrote int32 %d, GetInt32WithDefault = %d", name, int32(v.I), d)
		}
	case "i64":
		g := b.GetInt64(name)
		if g == nil || *g != v.I {
			return fmt.Sprintf("%s: wrote int64 %d, GetInt64 = %v", name, v.I, g)
		}
	case "f64":
		g := b.GetFloat64(name)
		if g == nil || math.Float64bits(*g) != v.F {
			return fmt.Sprintf("%s: wrote float64 bits %016x, GetFloat64 = %v", name, v.F, g)
		}
	case "b":
		g := b.GetBool(name)
		if g == nil || *g != v.Bo {
			return fmt.Sprintf("%s: wrote bool %v, GetBool = %v", name, v.Bo, g)
		}
	case "t":
		g := b.GetTime(name)
		if g == nil || !g.Equal(v.time()) {
			return fmt.Sprintf("%s: wrote time %v, GetTime = %v", name, v.time(), g)
		}
		if d := b.GetTimeOrDefault(name, time.Unix(7, 7)); !d.Equal(v.time()) {
			return fmt.Sprintf("%s: wrote time %v, GetTimeOrDefault = %v", name, v.time(), d)
		}
	case "nil", "sp-nil", "tp-nil":
		if g := b.GetString(name); g != nil {
			return fmt.Sprintf("%s: wrote null, GetString = %q (null must stay distinguishable from the empty string)", name, *g)
		}
		if b.GetInt64(name) != nil || b.GetBool(name) != nil || b.GetTime(name) != nil || b.GetFloat64(name) != nil || b.GetInt32(name) != nil {
			return fmt.Sprintf("%s: wrote null, a typed getter returned a value", name)
		}
		if b.GetStringWithDefault(name, "dflt") != "dflt" || b.GetInt32WithDefault(name, -7) != -7 || !b.GetTimeOrDefault(name, time.Unix(7, 7)).Equal(time.Unix(7, 7)) {
			return fmt.Sprintf("%s: wrote null, a getter with a default did not return its default", name)
		}
	case "list":
		if d := sameRead(v, b.GetList(name)); d != "" {
			return fmt.Sprintf("%s: %s", name, d)
		}
	case "strlist", "strlist-gas":
		want := kit.SortedSet(toStrings(v.SL))
		got := b.GetStringList(name)
		if fmt.Sprintf("%q", got) != fmt.Sprintf("%q", want) && !(len(got) == 0 && len(want) == 0) {
			return fmt.Sprintf("%s: wrote string list %q, GetStringList = %q (want the sorted duplicate-free set %q)", name, toStrings(v.SL), got, want)
		}
		if b.IsStringListEmpty(name) != (len(want) == 0) {
			return fmt.Sprintf("%s: IsStringListEmpty = %v for %q", name, !(len(want) == 0), want)
		}
	case "map":
		if d := sameRead(v, b.GetMap(name)); d != "" {
			return fmt.Sprintf("%s: %s", name, d)
		}
	}
	return ""
}

func deref(s *string) string {
	if s == nil {
		return "<nil>"
	}
	return fmt.Sprintf("%q", *s)
}

func tvInteresting(v TV) bool {
	switch v.K {
	case "nil", "sp-nil", "tp-nil", "map", "list":
		return true
	case "s":
		return len(v.B) == 0 || bytes.ContainsAny(v.B, "\x00\xff\xc3")
	case "i32", "i64":
		for _, e := range append(append([]int64{}, c13Ints64...), c13Ints32...) {
			if v.I == e {
				return true
			}
		}
	case "f64":
		for _, e := range c13Floats {
			if v.F == e {
				return true
			}
		}
	case "strlist":
		return len(v.SL) == 0 || len(kit.SortedSet(toStrings(v.SL))) != len(v.SL)
	case "t":
		return v.Off != 0 || v.Sec < 0
	}
	return false
}

func runC13(c c13Case) kit.Result {
	c13GasMismatch = ""
	res := runC13Inner(c)
	if res.Err == nil && c13GasMismatch != "" {
		res.Err = fmt.Errorf("get-and-set setter: %s", c13GasMismatch)
	}
	return res
}

func runC13Inner(c c13Case) kit.Result {
	res := kit.Result{Classes: []string{"kind:" + c.Kind}}
	switch c.Kind {
	case "codec":
		return runC13Codec(c, res)
	}
	db := kit.NewRawDB()
	defer db.Close()
	for _, f := range c.Fields {
		res.Classes = append(res.Classes, "type:"+f.V.K)
		if tvInteresting(f.V) {
			res.NonTrivial = true
		}
	}
	switch c.Kind {
	case "values":
		var sameTx string
		err := db.DB.Update(func(tx *bbolt.Tx) error {
			b := boltz.GetOrCreatePath(tx, "root", "ent")
			// the fields are looked at before they exist (an application reads the old value first), written, and read
			// back through the same bucket object inside the same transaction
			for _, f := range c.Fields {
				_ = b.GetString(f.Name)
				_ = b.GetStringList(f.Name)
				_ = b.GetMap(f.Name)
				_ = b.IsStringListEmpty(f.Name)
			}
			for _, f := range c.Fields {
				writeField(b, f.Name, f.V, nil)
			}
			if b.HasError() {
				return b.GetError()
			}
			for _, f := range c.Fields {
				if d := checkField(b, f.Name, f.V); d != "" {
					sameTx = d
					break
				}
			}
			// a copy of the bucket taken inside the writing transaction holds the same values
			if sameTx == "" {
				dst := boltz.GetOrCreatePath(tx, "root", "copy-in-tx")
				if err := dst.Copy(b, func([]string) bool { return true }); err != nil {
					return fmt.Errorf("TypedBucket.Copy inside the writing transaction: %v", err)
				}
				for _, f := range c.Fields {
					if d := checkField(dst, f.Name, f.V); d != "" {
						sameTx = "copy taken inside the writing transaction: " + d
						break
					}
				}
			}
			return b.GetError()
		})
		if err != nil {
			res.Err = fmt.Errorf("writing supported values failed: %v", err)
			return res
		}
		if sameTx != "" {
			res.Err = fmt.Errorf("read back inside the writing transaction, through the same bucket object: %s", sameTx)
			return res
		}
		_ = db.DB.View(func(tx *bbolt.Tx) error {
			for _, where := range []string{"ent", "copy-in-tx"} {
				b := boltz.Path(tx, "root", where)
				for _, f := range c.Fields {
					if d := checkField(b, f.Name, f.V); d != "" {
						res.Err = fmt.Errorf("bucket %s: %s", where, d)
						return nil
					}
				}
			}
			return nil
		})
	case "checker":
		var sel boltz.MapFieldChecker // nil: selects nothing, like the empty map
		if !(c.NilChecker && len(c.Selected) == 0) {
			sel = boltz.MapFieldChecker{}
		} else {
			res.Classes = append(res.Classes, "nil-map-field-checker")
		}
		for _, s := range c.Selected {
			sel[s] = struct{}{}
		}
		if len(c.Selected) > 0 && len(c.Selected) < len(c.Fields) {
			res.NonTrivial = true
			res.Classes = append(res.Classes, "strict-subset")
		}
		res.Classes = append(res.Classes, fmt.Sprintf("viaCtx:%v", c.ViaCtx))
		err := db.DB.Update(func(tx *bbolt.Tx) error {
			b := boltz.GetOrCreatePath(tx, "root", "ent")
			for _, f := range c.Fields {
				writeField(b, f.Name, f.V, nil)
			}
			return b.GetError()
		})
		if err == nil && c.ViaCtx && c.ParentOverrides != nil {
			res.Classes = append(res.Classes, "overrides-at-two-levels")
			return runC13TwoLevels(c, sel, db, res)
		}
		if err == nil {
			err = db.DB.Update(func(tx *bbolt.Tx) error {
				b := boltz.GetOrCreatePath(tx, "root", "ent")
				if c.ViaCtx {
					ctx := &boltz.PersistContext{Bucket: b, FieldChecker: sel}
					if len(c.Overrides) > 0 {
						ctx.WithFieldOverrides(c.Overrides)
					}
					for _, f := range c.Fields {
						writeFieldCtx(ctx, f.Name, f.V2)
					}
				} else {
					var checker boltz.FieldChecker = sel
					if len(c.Overrides) > 0 {
						checker = boltz.NewMappedFieldChecker(sel, c.Overrides)
					}
					for _, f := range c.Fields {
						writeField(b, f.Name, f.V2, checker)
					}
				}
				return b.GetError()
			})
		}
		if err != nil {
			res.Err = fmt.Errorf("writing failed: %v", err)
			return res
		}
		_ = db.DB.View(func(tx *bbolt.Tx) error {
			b := boltz.Path(tx, "root", "ent")
			for _, f := range c.Fields {
				// a field is written iff the checker selects the name it is exposed under
				asked := f.Name
				if o, ok := c.Overrides[f.Name]; ok {
					asked = o
				}
				_, on := sel[asked]
				want := f.V
				if on {
					want = f.V2
				}
				if d := checkField(b, f.Name, want); d != "" {
					res.Err = fmt.Errorf("field checker selecting %v, overrides %v (field %s is asked about as %q, selected: %v): %s", c.Selected, c.Overrides, f.Name, asked, on, d)
					return nil
				}
			}
			if len(c.Overrides) > 0 {
				res.Classes = append(res.Classes, "mapped-field-checker")
			}
			return nil
		})
	case "base":
		res.Classes = append(res.Classes, fmt.Sprintf("migrate:%v", c.Migrate))
		created, updated, tags, tags2 := c.Fields[0].V, c.Fields[1].V, c.Fields[2].V, c.Fields[2].V2
		res.NonTrivial = c.Migrate && !created.time().Equal(updated.time())
		ent := &boltz.BaseExtEntity{Id: "e", CreatedAt: created.time(), UpdatedAt: updated.time(), Tags: tags.goValue().(map[string]interface{}), IsSystem: c.System, Migrate: c.Migrate}
		check := func(when string, b *boltz.TypedBucket, wantTags TV, updatedKept bool) string {
			got := &boltz.BaseExtEntity{}
			got.LoadBaseValues(b)
			if b.HasError() {
				return fmt.Sprintf("%s: LoadBaseValues: %v", when, b.GetError())
			}
			if c.Migrate {
				if !got.CreatedAt.Equal(created.time()) {
					return fmt.Sprintf("%s: migrated entity: createdAt written %v, read %v", when, created.time(), got.CreatedAt)
				}
				if updatedKept && !got.UpdatedAt.Equal(updated.time()) {
					return fmt.Sprintf("%s: migrated entity: updatedAt written %v, read %v", when, updated.time(), got.UpdatedAt)
				}
			} else if updatedKept && !got.CreatedAt.Equal(got.UpdatedAt) {
				return fmt.Sprintf("%s: created entity: createdAt %v and updatedAt %v differ", when, got.CreatedAt, got.UpdatedAt)
			}
			if got.IsSystem != c.System {
				return fmt.Sprintf("%s: system flag written %v, read %v", when, c.System, got.IsSystem)
			}
			if d := sameRead(wantTags, got.Tags); d != "" && !(len(wantTags.M) == 0 && len(got.Tags) == 0) {
				return fmt.Sprintf("%s: tags: %s", when, d)
			}
			return ""
		}
		var diff string
		var createdRead time.Time
		err := db.DB.Update(func(tx *bbolt.Tx) error {
			b := boltz.GetOrCreatePath(tx, "root", "ent")
			ent.SetBaseValues(&boltz.PersistContext{Bucket: b, IsCreate: true})
			if b.HasError() {
				return b.GetError()
			}
			diff = check("inside the creating transaction", b, tags, true)
			return nil
		})
		if err == nil && diff == "" {
			_ = db.DB.View(func(tx *bbolt.Tx) error {
				b := boltz.Path(tx, "root", "ent")
				diff = check("after the creating transaction", b, tags, true)
				createdRead = b.GetTimeOrError(boltz.FieldCreatedAt)
				return nil
			})
		}
		if err == nil && diff == "" {
			// an update replaces the tags and leaves the creation stamp alone; an entity updated with no tags at all
			// (nil, not an empty map) has none afterwards
			ent.Tags = tags2.goValue().(map[string]interface{})
			if len(tags2.M) == 0 && c.System {
				ent.Tags = nil
				res.Classes = append(res.Classes, "update-with-nil-tags")
			}
			err = db.DB.Update(func(tx *bbolt.Tx) error {
				b := boltz.GetOrCreatePath(tx, "root", "ent")
				ent.SetBaseValues(&boltz.PersistContext{Bucket: b, IsCreate: false})
				return b.GetError()
			})
			if err == nil {
				_ = db.DB.View(func(tx *bbolt.Tx) error {
					b := boltz.Path(tx, "root", "ent")
					diff = check("after an update", b, tags2, false)
					if after := b.GetTimeOrError(boltz.FieldCreatedAt); diff == "" && !after.Equal(createdRead) {
						diff = fmt.Sprintf("after an update: createdAt changed from %v to %v", createdRead, after)
					}
					return nil
				})
			}
		}
		if err != nil {
			res.Err = fmt.Errorf("writing base values failed: %v", err)
		} else if diff != "" {
			res.Err = fmt.Errorf("base values (migrate=%v): %s", c.Migrate, diff)
		}
	case "unsupported":
		var werr error
		perr := func() (p interface{}) {
			defer func() { p = recover() }()
			werr = db.DB.Update(func(tx *bbolt.Tx) error {
				b := boltz.GetOrCreatePath(tx, "root", "ent")
				b.PutMap("tags", c.Fields[0].V.goValue().(map[string]interface{}), nil, c.AllowNested)
				return b.GetError()
			})
			return nil
		}()
		if perr != nil {
			res.Err = fmt.Errorf("PutMap with an unsupported value panicked: %v", perr)
		} else if werr == nil {
			res.Err = fmt.Errorf("PutMap(allowNested=%v) accepted an unsupported value %#v", c.AllowNested, c.Fields[0].V.goValue())
		}
		res.NonTrivial = true
	}
	return res
}

// runC13TwoLevels: see c13Case.ParentOverrides. The parent part lives in root/ent, the child part in root/ent/ext; both
// were (parent) or are now (child) initialised with every field's first value.
func runC13TwoLevels(c c13Case, sel boltz.MapFieldChecker, db *kit.RawDB, res kit.Result) kit.Result {
	childMap, parentMap := map[string]string{}, map[string]string{}
	for k, v := range c.Overrides {
		childMap[k] = v
	}
	for k, v := range c.ParentOverrides {
		parentMap[k] = v
	}
	err := db.DB.Update(func(tx *bbolt.Tx) error {
		pb := boltz.GetOrCreatePath(tx, "root", "ent")
		cb := pb.GetOrCreatePath("ext")
		for _, f := range c.Fields {
			writeField(cb, f.Name, f.V, nil)
		}
		if cb.HasError() {
			return cb.GetError()
		}
		ctx := &boltz.PersistContext{Bucket: cb, FieldChecker: sel}
		ctx.WithFieldOverrides(childMap)
		pctx := &boltz.PersistContext{Bucket: pb, FieldChecker: ctx.FieldChecker} // as GetParentContext does
		pctx.WithFieldOverrides(parentMap)
		for _, f := range c.Fields {
			writeFieldCtx(pctx, f.Name, f.V2)
		}
		for _, f := range c.Fields {
			writeFieldCtx(ctx, f.Name, f.V2)
		}
		if pb.HasError() {
			return pb.GetError()
		}
		return cb.GetError()
	})
	if err != nil {
		res.Err = fmt.Errorf("writing failed: %v", err)
		return res
	}
	through := func(m map[string]string, name string) string {
		if o, ok := m[name]; ok {
			return o
		}
		return name
	}
	_ = db.DB.View(func(tx *bbolt.Tx) error {
		pb := boltz.Path(tx, "root", "ent")
		cb := boltz.Path(tx, "root", "ent", "ext")
		for _, f := range c.Fields {
			_, childOn := sel[through(c.Overrides, f.Name)]
			_, parentOn := sel[through(c.Overrides, through(c.ParentOverrides, f.Name))]
			for _, lv := range []struct {
				what string
				b    *boltz.TypedBucket
				on   bool
			}{{"parent part", pb, parentOn}, {"child part", cb, childOn}} {
				want := f.V
				if lv.on {
					want = f.V2
				}
				if d := checkField(lv.b, f.Name, want); d != "" {
					res.Err = fmt.Errorf("field checker selecting %v; the child's context set the overrides %v, the parent's context (given the child's checker) then set %v. %s, field %s (selected there: %v): %s", c.Selected, c.Overrides, c.ParentOverrides, lv.what, f.Name, lv.on, d)
					return nil
				}
			}
		}
		// the maps handed to WithFieldOverrides are the caller's: they are what they were
		if fmt.Sprint(childMap) != fmt.Sprint(c.Overrides) || fmt.Sprint(parentMap) != fmt.Sprint(c.ParentOverrides) {
			res.Err = fmt.Errorf("WithFieldOverrides changed a map it was handed: child %v -> %v, parent %v -> %v", c.Overrides, childMap, c.ParentOverrides, parentMap)
		}
		return nil
	})
	return res
}

func runC13Codec(c c13Case, res kit.Result) kit.Result {
	a, b := toStrings(c.ListA), toStrings(c.ListB)
	tooLong := func(xs []string) bool {
		for _, x := range xs {
			if len(x) > boltz.MaxLinkedSetKeySize {
				return true
			}
		}
		return false
	}
	encA, errA := boltz.EncodeStringSlice(a)
	if tooLong(a) {
		res.Classes = append(res.Classes, "over-long-component")
		res.NonTrivial = true
		if errA == nil {
			res.Err = fmt.Errorf("EncodeStringSlice accepted a component longer than %d bytes", boltz.MaxLinkedSetKeySize)
		}
		return res
	}
	if errA != nil {
		res.Err = fmt.Errorf("EncodeStringSlice(%q): %v", a, errA)
		return res
	}
	dec, err := boltz.DecodeStringSlice(encA)
	if err != nil || fmt.Sprintf("%q", dec) != fmt.Sprintf("%q", a) && !(len(dec) == 0 && len(a) == 0) {
		res.Err = fmt.Errorf("DecodeStringSlice(EncodeStringSlice(%q)) = %q, %v", a, dec, err)
		return res
	}
	if len(a) >= 2 || len(a) == 1 && len(a[0]) == 0 {
		res.NonTrivial = true
	}
	for _, x := range a {
		if len(x) >= 127 {
			res.Classes = append(res.Classes, "multi-byte-length-prefix")
		}
	}
	if !tooLong(b) {
		encB, errB := boltz.EncodeStringSlice(b)
		if errB == nil && fmt.Sprintf("%q", a) != fmt.Sprintf("%q", b) && bytes.Equal(encA, encB) {
			res.Err = fmt.Errorf("distinct lists share an encoding: %q and %q -> %x", a, b, encA)
		}
		res.Classes = append(res.Classes, "injectivity-pair")
		if errB == nil && len(encA) < 30000 && len(encB) < 30000 {
			// the compound keys as entries of a link set (LinkedSetSymbol.AddCompoundLink / RemoveCompoundLink): the two
			// lists are two entries (one if they are equal) that decode to the lists; removing one leaves the other
			if err := c13CompoundLinks(a, b); err != nil {
				res.Err = err
			}
			res.Classes = append(res.Classes, "compound-link-entries")
		}
	}
	return res
}

func c13CompoundLinks(a, b []string) error {
	db := kit.NewRawDB()
	defer db.Close()
	store := boltz.NewBaseStore(boltz.StoreDefinition[boltz.Entity]{EntityType: "as", BasePath: []string{"root"}})
	store.AddIdSymbol("id", ast.NodeTypeString)
	groups := &boltz.LinkedSetSymbol{EntitySymbol: store.AddSetSymbol("groups", ast.NodeTypeString)}
	same := fmt.Sprintf("%q", a) == fmt.Sprintf("%q", b)
	read := func() (out []string, err error) {
		err = db.DB.View(func(tx *bbolt.Tx) error {
			bkt := boltz.Path(tx, "root", "as", "e1", "groups")
			if bkt == nil {
				return nil
			}
			for cur := bkt.IterateStringList(); cur.IsValid(); cur.Next() {
				dec, derr := boltz.DecodeStringSlice(cur.Current())
				if derr != nil {
					return fmt.Errorf("link entry %x does not decode: %v", cur.Current(), derr)
				}
				out = append(out, fmt.Sprintf("%q", dec))
			}
			return nil
		})
		sort.Strings(out)
		return
	}
	norm := func(lists ...[]string) []string {
		set := map[string]bool{}
		for _, l := range lists {
			if len(l) == 0 {
				set[fmt.Sprintf("%q", []string(nil))] = true
			} else {
				set[fmt.Sprintf("%q", l)] = true
			}
		}
		var out []string
		for k := range set {
			out = append(out, k)
		}
		sort.Strings(out)
		return out
	}
	if err := db.DB.Update(func(tx *bbolt.Tx) error {
		if eb := boltz.GetOrCreatePath(tx, "root", "as", "e1"); eb.HasError() {
			return eb.GetError()
		}
		if err := groups.AddCompoundLink(tx, "e1", a); err != nil {
			return err
		}
		return groups.AddCompoundLink(tx, "e1", b)
	}); err != nil {
		return fmt.Errorf("AddCompoundLink of %q and %q: %v", a, b, err)
	}
	got, err := read()
	if err != nil || fmt.Sprint(got) != fmt.Sprint(norm(a, b)) {
		return fmt.Errorf("after AddCompoundLink of %q and %q the link set decodes to %v (error %v)", a, b, got, err)
	}
	if err := db.DB.Update(func(tx *bbolt.Tx) error { return groups.RemoveCompoundLink(tx, "e1", a) }); err != nil {
		return fmt.Errorf("RemoveCompoundLink of %q: %v", a, err)
	}
	want := norm(b)
	if same {
		want = nil
	}
	got, err = read()
	if err != nil || fmt.Sprint(got) != fmt.Sprint(want) {
		return fmt.Errorf("after AddCompoundLink of %q and %q and RemoveCompoundLink of the first the link set decodes to %v (error %v), expected %v", a, b, got, err, want)
	}
	return nil
}

var _ = sort.Strings

func TestC13(t *testing.T) {
	kit.Execute(t, kit.Spec[c13Case]{
		ID:    "C13",
		Level: "exploration",
		Rule: "Four case kinds (class kind:*). values: 1-6 fields, each a string (arbitrary bytes incl. empty, NUL, invalid UTF-8), int32 / int64 boundary or random, float64 by bit pattern (incl. -0, subnormal, +-max, +-Inf, NaN payloads), bool, time (year 1..9999, pre-epoch, nanoseconds, seven zone offsets), null via SetNil / SetStringP(nil) / SetTimeP(nil), string list with duplicates and empties, or a map nested <= 4 deep with lists, nil leaves, int and float32; written in one Update and read in a later View through the typed getters. " +
			"checker: a baseline write of 2-6 fields, then a second write of different values under a MapFieldChecker selecting a drawn subset, through TypedBucket setters or PersistContext setters; exactly the selected fields may change. codec: EncodeStringSlice/DecodeStringSlice round trip on lists of 0-6 components (sizes around 127/128 and 4095/4096/4097) and injectivity on a second list that is random or a split/merge/insert-empty near miss; over-long components must be refused. unsupported: PutMap with an unsupported value kind (or nesting when not allowed) must return an error, not panic. " +
			"Also generated: overwrites of top-level lists, GetAndSetStringList, nil MapFieldChecker, unstorable values nested below lists and maps. Also: fields are looked at before they are written and read back inside the writing transaction through the same bucket object; SetRequiredString with blanks at either end. " +
			"Non-trivial: a boundary / empty / null value, a nested container, a strict non-empty checker subset, a multi-component or over-long key. Distinct by hash of the case JSON.",
		Assumptions: []string{"map keys are non-empty and differ from the reserved list-size marker", "NaN is compared by bit pattern"},
		Gen:         genC13, Run: runC13,
		QuickChecks: 40000, ThoroughFactor: 8,
	})
}

// FuzzC13Codec: native fuzz target for the compound-key codec (thorough tier).
func FuzzC13Codec(f *testing.F) {
	f.Add([]byte("a"), []byte("b"), []byte(""), uint8(3))
	f.Add(bytes.Repeat([]byte{1}, 200), []byte{}, []byte{0x80}, uint8(2))
	f.Fuzz(func(t *testing.T, a, b, c []byte, n uint8) {
		parts := [][]byte{a, b, c}[:int(n)%4%3+1]
		list := toStrings(parts)
		enc, err := boltz.EncodeStringSlice(list)
		long := false
		for _, p := range list {
			if len(p) > boltz.MaxLinkedSetKeySize {
				long = true
			}
		}
		if long {
			if err == nil {
				t.Fatalf("over-long component accepted")
			}
			return
		}
		if err != nil {
			t.Fatalf("encode: %v", err)
		}
		dec, err := boltz.DecodeStringSlice(enc)
		if err != nil || fmt.Sprintf("%q", dec) != fmt.Sprintf("%q", list) {
			t.Fatalf("round trip of %q gave %q, %v", list, dec, err)
		}
		// arbitrary bytes must decode cleanly or be refused, never panic; and a successful decode re-encodes to the input
		if got, err := boltz.DecodeStringSlice(a); err == nil {
			re, err2 := boltz.EncodeStringSlice(got)
			if err2 == nil && !bytes.Equal(re, a) && len(a) > 0 {
				// non-canonical varints decode to the same list: not injective in the decode direction, which the property does not require
				_ = re
			}
		}
	})
}
