package props

import (
	"errors"
	"fmt"
	"sort"
	"strings"
	"testing"

	"github.com/openziti/storage/boltz"
	"go.etcd.io/bbolt"
	"pgregory.net/rapid"

	"verif/kit"
)

// C09 — integrity check: sound, complete, read-only in check mode, convergent in fix mode.

func c09CfgFor(extendedKids bool) kit.WorldCfg {
	cfg := c09Cfg
	// a child store over things with an index of its own (nullable unique index over its child-only field)
	cfg.Children = []kit.ChildCfg{{Name: "kids", Parent: "things", UniqueExtra: true, Extended: extendedKids}}
	// a link collection between the child store and targets; the targets-side symbol is declared against the parent store
	cfg.Links = append(append([]kit.LinkCfg(nil), c09Cfg.Links...), kit.LinkCfg{A: "kids", FieldA: "klinks", B: "targets", FieldB: "kback", BackToParent: true},
		// a symmetric relation: one symbol of one store is both ends of the collection (it is its own inverse)
		kit.LinkCfg{A: "targets", FieldA: "peers", B: "targets", FieldB: "peers"})
	// a store in which no entity was ever created has no entities bucket (its indexes can be corrupted all the same)
	cfg.LazyBuckets = true
	return cfg
}

var c09Cfg = kit.WorldCfg{
	Stores: []kit.StoreCfg{
		{Name: "things", UniqueName: true, UniqueAlias: true, RolesIndex: true, RefTo: "targets", RefWiring: kit.WireFkIndexNullable},
		{Name: "targets", UniqueName: true, RolesIndex: true},
		{Name: "owned", RefTo: "targets", RefWiring: kit.WireFkIndex},
		{Name: "deps", RefTo: "things", RefWiring: kit.WireConstraintNone},
		{Name: "cowned", RefTo: "targets", RefWiring: kit.WireFkIndexCascade}, // non-nullable as well; deleted with their target
	},
	Links: []kit.LinkCfg{{A: "things", FieldA: "tlinks", B: "targets", FieldB: "plinks"}},
}

var c09IDs = map[string][]string{
	// some ids are proper prefixes of others: lookups must match ids exactly
	"things":  {"id-th1", "id-th10", "id-th2", "id-th"},
	"targets": {"id-tg1", "id-tg10", "id-tg"},
	"owned":   {"id-ow1", "id-ow2", "id-ow3"},
	"deps":    {"id-dp1", "id-dp2"},
	"cowned":  {"id-co1", "id-co2"},
}

// Corruption is one raw edit of the database file made behind the API's back.
type Corruption struct {
	Kind  string `json:"kind"`
	Store string `json:"store,omitempty"`
	ID    string `json:"id,omitempty"`
	Value string `json:"value,omitempty"`
	Other string `json:"other,omitempty"`
	Field string `json:"field,omitempty"`
}

func (c Corruption) String() string {
	return fmt.Sprintf("%s(store=%s id=%s value=%s other=%s field=%s)", c.Kind, c.Store, c.ID, c.Value, c.Other, c.Field)
}

type c09Case struct {
	H           kit.History  `json:"h"`
	Corruptions []Corruption `json:"corruptions"`
}

func c09OpGen(t *rapid.T, l string, m *kit.Model) kit.Op {
	x := rapid.IntRange(0, 99).Draw(t, l+"_what")
	if x < 22 && len(m.Ents["things"]) > 0 && len(m.Ents["targets"]) > 0 {
		op := kit.Op{Store: "things", Field: "tlinks", Kind: []string{"addlinks", "addlinks", "removelinks", "setlinks"}[rapid.IntRange(0, 3).Draw(t, l+"_lk")]}
		op.ID = c09IDs["things"][rapid.IntRange(0, 3).Draw(t, l+"_lid")]
		op.Keys = []string{c09IDs["targets"][rapid.IntRange(0, 2).Draw(t, l+"_key")]}
		if rapid.Bool().Draw(t, l+"_two") {
			op.Keys = append(op.Keys, c09IDs["targets"][rapid.IntRange(0, 2).Draw(t, l+"_key2")])
		}
		return op
	}
	stores := []string{"things", "things", "things", "targets", "targets", "owned", "owned", "deps", "kids", "kids", "cowned", "cowned"}
	store := stores[rapid.IntRange(0, len(stores)-1).Draw(t, l+"_store")]
	refsTo := func(s string) []*string {
		out := []*string{}
		for _, id := range c09IDs[s] {
			out = append(out, kit.Sp(id))
		}
		return out
	}
	if store == "kids" {
		// through the child store: the same ids as things, plus the child-only indexed field
		u := kit.EntUniverse{IDs: c09IDs["things"], Names: []string{"name-1", "name-2", "name-3", "name-4", "name-5", "name-6", "name-7"},
			Aliases: []*string{nil, kit.Sp("alias-1"), kit.Sp("alias-2"), kit.Sp("alias-3"), kit.Sp("")}, Roles: []string{"role-a", "role-b", "role-c"},
			Refs: append(refsTo("targets"), nil), Extras: []string{"", "extra-1", "extra-2", "extra-3", "extra-4"},
			Fields: []string{kit.FName, kit.FAlias, kit.FRoles, kit.FRef, kit.FExtra}}
		return kit.GenEntOpM(t, l, store, u, m)
	}
	u := kit.EntUniverse{IDs: c09IDs[store], Names: []string{"name-1", "name-2", "name-3", "name-4", "name-5", "name-6", "name-7"}, Fields: []string{kit.FName, kit.FAlias, kit.FRoles, kit.FRef}}
	switch store {
	case "things":
		u.Aliases = []*string{nil, kit.Sp("alias-1"), kit.Sp("alias-2"), kit.Sp("alias-3"), kit.Sp("")} // "" is stored but, like null, never indexed
		u.Roles = []string{"role-a", "role-b", "role-c"}
		u.Refs = append(refsTo("targets"), nil, kit.Sp("")) // an empty reference is stored but, like null, names nothing
	case "targets":
		u.Roles = []string{"role-a", "role-b", "role-c"}
	case "owned", "cowned":
		u.Refs = refsTo("targets")
	case "deps":
		u.Refs = append(refsTo("things"), nil, kit.Sp(""))
	}
	return kit.GenEntOpM(t, l, store, u, m)
}

var c09Kinds = []string{"unique-missing", "unique-extra-existing", "unique-extra-missing-id", "unique-wrong-target",
	"set-missing-id", "set-missing-key", "set-extra-id", "set-extra-missing-id", "set-empty-key",
	"fk-missing-backref", "fk-extra-backref", "fk-extra-backref-missing-id", "fk-dangling-nullable",
	"link-one-sided", "link-dangling", "link-dangling-pair", "fk-missing-backref-bucket", "link-dangling-plain-parent", "fk-missing-backref-non-nullable",
	"unfixable-fk-null-in-non-nullable", "unfixable-fk-dangling-non-nullable",
	"unfixable-duplicate-unique", "unfixable-null-in-non-nullable"}

func sortedIDs(m map[string]*kit.MEnt) []string {
	var out []string
	for id := range m {
		out = append(out, id)
	}
	sort.Strings(out)
	return out
}

// genCorruption picks targets for a corruption kind from the model state; ok=false when the state offers none.
func genCorruption(t *rapid.T, l string, kind string, m *kit.Model, used map[string]bool) (Corruption, bool) {
	pickFrom := func(xs []string) (string, bool) {
		var free []string
		for _, x := range xs {
			if !used[x] {
				free = append(free, x)
			}
		}
		if len(free) == 0 {
			return "", false
		}
		return free[rapid.IntRange(0, len(free)-1).Draw(t, l+"_pick")], true
	}
	storeU := []string{"things", "targets"}[rapid.IntRange(0, 1).Draw(t, l+"_store")]
	ids := sortedIDs(m.Ents[storeU])
	c := Corruption{Kind: kind}
	// the nullable unique index on things.alias gets the same treatment as the non-nullable one on name
	onAlias := storeU == "things" && strings.HasPrefix(kind, "unique-") && kind != "unique-wrong-target" && rapid.Bool().Draw(t, l+"_alias")
	onKids := !onAlias && storeU == "things" && (kind == "unique-missing" || kind == "unique-extra-existing" || kind == "unique-extra-missing-id") && rapid.IntRange(0, 2).Draw(t, l+"_kids") == 0
	if onKids {
		// the child store's own unique index (its bucket lives under the parent's entity type)
		switch kind {
		case "unique-missing":
			var with []string
			for _, id := range ids {
				if x, has := m.Ents["things"][id].Kid["kids"]; has && x != "" {
					with = append(with, id)
				}
			}
			id, ok := pickFrom(with)
			if !ok {
				return c, false
			}
			c.Store, c.ID, c.Field, c.Value = "kids", id, kit.FExtra, m.Ents["things"][id].Kid["kids"]
		case "unique-extra-existing":
			// the id may be a plain parent or a child entity whose field differs: stale either way
			id, ok := pickFrom(ids)
			if !ok {
				return c, false
			}
			c.Store, c.ID, c.Field, c.Value = "kids", id, kit.FExtra, "ghost-val-"+l
		case "unique-extra-missing-id":
			c.Store, c.ID, c.Field, c.Value = "kids", "ghost-id-"+l, kit.FExtra, "ghost-val-"+l
		}
		return c, true
	}
	switch kind {
	case "unique-missing":
		if onAlias {
			var with []string
			for _, id := range ids {
				if a := m.Ents[storeU][id].Alias; a != nil && *a != "" {
					with = append(with, id)
				}
			}
			id, ok := pickFrom(with)
			if !ok {
				return c, false
			}
			c.Store, c.ID, c.Field, c.Value = storeU, id, kit.FAlias, *m.Ents[storeU][id].Alias
			return c, true
		}
		id, ok := pickFrom(ids)
		if !ok {
			return c, false
		}
		c.Store, c.ID, c.Field, c.Value = storeU, id, kit.FName, m.Ents[storeU][id].Name
	case "unique-extra-existing":
		id, ok := pickFrom(ids)
		if !ok {
			return c, false
		}
		c.Store, c.ID, c.Field, c.Value = storeU, id, kit.FName, "ghost-val-"+l
		if onAlias {
			// the entity may well have a null alias: the extra entry is stale all the same
			c.Field = kit.FAlias
		}
	case "unique-extra-missing-id":
		c.Store, c.ID, c.Field, c.Value = storeU, "ghost-id-"+l, kit.FName, "ghost-val-"+l
		if onAlias {
			c.Field = kit.FAlias
		}
	case "unique-wrong-target":
		if len(ids) < 2 {
			return c, false
		}
		id, ok := pickFrom(ids)
		if !ok {
			return c, false
		}
		other, ok2 := pickFrom(without(ids, id))
		if !ok2 {
			return c, false
		}
		c.Store, c.ID, c.Other, c.Field, c.Value = storeU, id, other, kit.FName, m.Ents[storeU][id].Name
	case "set-missing-id", "set-missing-key":
		var withRoles []string
		for _, id := range ids {
			if len(m.Ents[storeU][id].Roles) > 0 {
				withRoles = append(withRoles, id)
			}
		}
		id, ok := pickFrom(withRoles)
		if !ok {
			return c, false
		}
		roles := m.Ents[storeU][id].Roles
		c.Store, c.ID, c.Value = storeU, id, roles[rapid.IntRange(0, len(roles)-1).Draw(t, l+"_role")]
		if used["role:"+storeU+c.Value] {
			return c, false
		}
	case "set-extra-id":
		id, ok := pickFrom(ids)
		if !ok {
			return c, false
		}
		for _, r := range []string{"role-a", "role-b", "role-c"} {
			has := false
			for _, x := range m.Ents[storeU][id].Roles {
				if x == r {
					has = true
				}
			}
			// the value must exist as an index key held by somebody else, otherwise this is the "empty key" class
			holders := 0
			for _, e := range m.Ents[storeU] {
				for _, x := range e.Roles {
					if x == r {
						holders++
					}
				}
			}
			if !has && holders > 0 && !used["role:"+storeU+r] {
				c.Store, c.ID, c.Value = storeU, id, r
				return c, true
			}
		}
		return c, false
	case "set-extra-missing-id":
		for _, r := range []string{"role-a", "role-b", "role-c"} {
			holders := 0
			for _, e := range m.Ents[storeU] {
				for _, x := range e.Roles {
					if x == r {
						holders++
					}
				}
			}
			if holders > 0 && !used["role:"+storeU+r] {
				c.Store, c.ID, c.Value = storeU, "ghost-id-"+l, r
				return c, true
			}
		}
		return c, false
	case "set-empty-key":
		c.Store, c.Value = storeU, "ghost-role-"+l
	case "fk-missing-backref":
		var refs []string
		for _, id := range sortedIDs(m.Ents["things"]) {
			if r := m.Ents["things"][id].Ref; r != nil && *r != "" {
				refs = append(refs, id)
			}
		}
		id, ok := pickFrom(refs)
		if !ok {
			return c, false
		}
		c.Store, c.ID, c.Other = "things", id, *m.Ents["things"][id].Ref
	case "fk-extra-backref":
		tids := sortedIDs(m.Ents["targets"])
		tid, ok := pickFrom(tids)
		if !ok {
			return c, false
		}
		for _, id := range sortedIDs(m.Ents["things"]) {
			e := m.Ents["things"][id]
			if (e.Ref == nil || *e.Ref != tid) && !used[id] {
				c.Store, c.ID, c.Other = "things", id, tid
				return c, true
			}
		}
		return c, false
	case "fk-extra-backref-missing-id":
		tid, ok := pickFrom(sortedIDs(m.Ents["targets"]))
		if !ok {
			return c, false
		}
		c.Store, c.ID, c.Other = "things", "ghost-id-"+l, tid
	case "fk-dangling-nullable":
		id, ok := pickFrom(sortedIDs(m.Ents["things"]))
		if !ok {
			return c, false
		}
		c.Store, c.ID, c.Other = "things", id, "ghost-id-"+l
	case "fk-missing-backref-non-nullable":
		// the back-reference of a record whose store declares the reference non-nullable
		store := []string{"owned", "cowned"}[rapid.IntRange(0, 1).Draw(t, l+"_fkStore")]
		ids := sortedIDs(m.Ents[store])
		for i := len(ids) - 1; i >= 0; i-- { // the last one in id order: others are visited before it
			id := ids[i]
			e := m.Ents[store][id]
			if e.Ref != nil && *e.Ref != "" && !used[id] && !used[*e.Ref] {
				c.Store, c.ID, c.Other = store, id, *e.Ref
				return c, true
			}
		}
		return c, false
	case "link-dangling-plain-parent":
		// a target's link set into the child store names a thing that exists but has no child data (plain child store only)
		for _, cc := range m.Cfg.Children {
			if cc.Extended {
				return c, false
			}
		}
		tid, ok := pickFrom(sortedIDs(m.Ents["targets"]))
		if !ok {
			return c, false
		}
		var plain []string
		for _, id := range sortedIDs(m.Ents["things"]) {
			if len(m.Ents["things"][id].Kid) == 0 && id != tid {
				plain = append(plain, id)
			}
		}
		id, ok2 := pickFrom(plain)
		if !ok2 {
			return c, false
		}
		c.Store, c.ID, c.Other = "targets", tid, id
	case "link-dangling-pair":
		// two dangling links that are neighbours in key order inside one entity's link set
		id, ok := pickFrom(sortedIDs(m.Ents["things"]))
		if !ok {
			return c, false
		}
		c.Store, c.ID, c.Other, c.Value = "things", id, "ghost-id-"+l+"-a", "ghost-id-"+l+"-b"
	case "fk-missing-backref-bucket":
		// every back-reference of one target is lost at once (the whole set is gone)
		for _, tid := range sortedIDs(m.Ents["targets"]) {
			refs := m.Referrers("targets", tid)["things"]
			if len(refs) == 0 || used[tid] {
				continue
			}
			free := true
			for _, r := range refs {
				if used[r] {
					free = false
				}
			}
			if free {
				c.Store, c.ID, c.Other = "things", refs[0], tid
				c.Field = strings.Join(refs, ",")
				return c, true
			}
		}
		return c, false
	case "link-one-sided", "link-dangling":
		var linked []string
		for _, id := range sortedIDs(m.Ents["things"]) {
			if len(m.LinkedFrom("things.tlinks", false, id)) > 0 {
				linked = append(linked, id)
			}
		}
		if kind == "link-dangling" {
			id, ok := pickFrom(sortedIDs(m.Ents["things"]))
			if !ok {
				return c, false
			}
			c.Store, c.ID, c.Other = "things", id, "ghost-id-"+l
			return c, true
		}
		id, ok := pickFrom(linked)
		if !ok {
			return c, false
		}
		others := m.LinkedFrom("things.tlinks", false, id)
		c.Store, c.ID, c.Other = "things", id, others[rapid.IntRange(0, len(others)-1).Draw(t, l+"_other")]
		// which side loses its entry
		c.Field = []string{"tlinks", "plinks"}[rapid.IntRange(0, 1).Draw(t, l+"_side")]
		if used[c.Other] {
			return c, false
		}
	case "unfixable-duplicate-unique":
		if len(ids) < 2 {
			return c, false
		}
		id, ok := pickFrom(ids)
		if !ok {
			return c, false
		}
		other, ok2 := pickFrom(without(ids, id))
		if !ok2 {
			return c, false
		}
		c.Store, c.ID, c.Other, c.Value = storeU, id, other, m.Ents[storeU][other].Name
	case "unfixable-null-in-non-nullable":
		id, ok := pickFrom(ids)
		if !ok {
			return c, false
		}
		c.Store, c.ID, c.Value = storeU, id, m.Ents[storeU][id].Name
	case "unfixable-fk-null-in-non-nullable", "unfixable-fk-dangling-non-nullable":
		// the reference of a record whose store declares it non-nullable (plain fk index, or the cascading one)
		store := []string{"owned", "cowned"}[rapid.IntRange(0, 1).Draw(t, l+"_fkStore")]
		id, ok := pickFrom(sortedIDs(m.Ents[store]))
		if !ok {
			return c, false
		}
		c.Store, c.ID = store, id
		if kind == "unfixable-fk-dangling-non-nullable" {
			c.Other = "ghost-id-" + l
		}
	}
	return c, true
}

func without(xs []string, x string) []string {
	var out []string
	for _, y := range xs {
		if y != x {
			out = append(out, y)
		}
	}
	return out
}

// tokens a report about this corruption has to mention (all of one alternative)
func (c Corruption) mustMention() [][]string {
	switch c.Kind {
	case "unique-missing", "unique-extra-existing", "unique-extra-missing-id":
		return [][]string{{c.ID, c.Value}}
	case "unique-wrong-target":
		return [][]string{{c.Value, c.Other}, {c.Value, c.ID}}
	case "set-missing-id", "set-missing-key", "set-extra-id", "set-extra-missing-id":
		return [][]string{{c.ID, c.Value}}
	case "set-empty-key":
		return [][]string{{c.Value}}
	case "fk-missing-backref", "fk-extra-backref", "fk-extra-backref-missing-id", "fk-dangling-nullable", "link-one-sided", "link-dangling", "link-dangling-pair", "fk-missing-backref-bucket", "link-dangling-plain-parent", "fk-missing-backref-non-nullable":
		return [][]string{{c.ID, c.Other}}
	case "unfixable-duplicate-unique":
		return [][]string{{c.ID, c.Other, c.Value}}
	case "unfixable-null-in-non-nullable", "unfixable-fk-null-in-non-nullable":
		return [][]string{{c.ID}}
	case "unfixable-fk-dangling-non-nullable":
		return [][]string{{c.ID, c.Other}}
	}
	return nil
}

func (c Corruption) tokens() []string {
	var out []string
	for _, s := range []string{c.ID, c.Value, c.Other} {
		if s != "" {
			out = append(out, s)
		}
	}
	if c.Kind == "fk-missing-backref-bucket" {
		out = append(out, strings.Split(c.Field, ",")...)
	}
	return out
}

// alsoMustMention lists further reports a compound corruption requires (each entry: tokens of one required report)
func (c Corruption) alsoMustMention() [][]string {
	switch c.Kind {
	case "link-dangling-pair":
		return [][]string{{c.ID, c.Value}}
	case "fk-missing-backref-bucket":
		var out [][]string
		for _, rid := range strings.Split(c.Field, ",") {
			out = append(out, []string{rid, c.Other})
		}
		return out
	}
	return nil
}

func (c Corruption) unfixable() bool { return strings.HasPrefix(c.Kind, "unfixable") }

// hasToken reports whether tok occurs in text as a whole token (not as a prefix of a longer id such as id-th1 in id-th10)
func hasToken(text, tok string) bool {
	for i := 0; ; {
		j := strings.Index(text[i:], tok)
		if j < 0 {
			return false
		}
		end := i + j + len(tok)
		if end >= len(text) || !isIDChar(text[end]) {
			return true
		}
		i = i + j + 1
	}
}

func isIDChar(b byte) bool {
	return b >= '0' && b <= '9' || b >= 'a' && b <= 'z' || b >= 'A' && b <= 'Z' || b == '-'
}

func typed(id string) []byte { return boltz.PrependFieldType(boltz.TypeString, []byte(id)) }

func mustBucket(tx *bbolt.Tx, create bool, path ...string) *bbolt.Bucket {
	b := tx.Bucket([]byte(path[0]))
	for _, p := range path[1:] {
		if b == nil {
			return nil
		}
		nb := b.Bucket([]byte(p))
		if nb == nil && create {
			nb, _ = b.CreateBucket([]byte(p))
		}
		b = nb
	}
	return b
}

// apply performs the raw edit; m is updated where the edit changes what the entities themselves say (entity fields are the truth).
func (c Corruption) apply(tx *bbolt.Tx, m *kit.Model) error {
	idx := func(store, field string) *bbolt.Bucket {
		if store == "kids" {
			store = "things" // a child store's indexes are kept under the parent's entity type
		}
		return mustBucket(tx, true, "root", boltz.IndexesBucket, store, field)
	}
	switch c.Kind {
	case "unique-missing":
		return idx(c.Store, c.Field).Delete([]byte(c.Value))
	case "unique-extra-existing", "unique-extra-missing-id":
		return idx(c.Store, c.Field).Put([]byte(c.Value), []byte(c.ID))
	case "unique-wrong-target":
		return idx(c.Store, c.Field).Put([]byte(c.Value), []byte(c.Other))
	case "set-missing-id":
		b := idx(c.Store, kit.FRoles).Bucket([]byte(c.Value))
		if b == nil {
			return fmt.Errorf("no index bucket for %s", c.Value)
		}
		return b.Delete(typed(c.ID))
	case "set-missing-key":
		return idx(c.Store, kit.FRoles).DeleteBucket([]byte(c.Value))
	case "set-extra-id", "set-extra-missing-id":
		b, err := idx(c.Store, kit.FRoles).CreateBucketIfNotExists([]byte(c.Value))
		if err != nil {
			return err
		}
		return b.Put(typed(c.ID), nil)
	case "set-empty-key":
		_, err := idx(c.Store, kit.FRoles).CreateBucketIfNotExists([]byte(c.Value))
		return err
	case "fk-missing-backref":
		b := mustBucket(tx, false, "root", "targets", c.Other, "refs_things")
		if b == nil {
			return fmt.Errorf("no back-reference bucket on %s", c.Other)
		}
		return b.Delete(typed(c.ID))
	case "fk-extra-backref", "fk-extra-backref-missing-id":
		b := mustBucket(tx, true, "root", "targets", c.Other, "refs_things")
		return b.Put(typed(c.ID), nil)
	case "fk-dangling-nullable":
		// the entity's own field now names a target that does not exist; its old back-reference becomes stale
		e := m.Ents["things"][c.ID]
		b := mustBucket(tx, false, "root", "things", c.ID)
		if err := b.Put([]byte(kit.FRef), typed(c.Other)); err != nil {
			return err
		}
		if e.Ref != nil && *e.Ref != "" {
			if bb := mustBucket(tx, false, "root", "targets", *e.Ref, "refs_things"); bb != nil {
				_ = bb.Delete(typed(c.ID))
			}
		}
		e.Ref = nil // what a repaired database will say
		return nil
	case "link-one-sided":
		if c.Field == "tlinks" {
			return mustBucket(tx, false, "root", "things", c.ID, "tlinks").Delete(typed(c.Other))
		}
		return mustBucket(tx, false, "root", "targets", c.Other, "plinks").Delete(typed(c.ID))
	case "link-dangling":
		return mustBucket(tx, true, "root", "things", c.ID, "tlinks").Put(typed(c.Other), nil)
	case "link-dangling-plain-parent":
		return mustBucket(tx, true, "root", "targets", c.ID, "kback").Put(typed(c.Other), nil)
	case "fk-missing-backref-non-nullable":
		b := mustBucket(tx, false, "root", "targets", c.Other, "refs_"+c.Store)
		if b == nil {
			return fmt.Errorf("no back-reference bucket on %s", c.Other)
		}
		return b.Delete(typed(c.ID))
	case "link-dangling-pair":
		b := mustBucket(tx, true, "root", "things", c.ID, "tlinks")
		if err := b.Put(typed(c.Other), nil); err != nil {
			return err
		}
		return b.Put(typed(c.Value), nil)
	case "fk-missing-backref-bucket":
		b := mustBucket(tx, false, "root", "targets", c.Other)
		if b == nil || b.Bucket([]byte("refs_things")) == nil {
			return fmt.Errorf("no back-reference bucket on %s", c.Other)
		}
		return b.DeleteBucket([]byte("refs_things"))
	case "unfixable-duplicate-unique":
		// two entities now hold the same unique value
		return mustBucket(tx, false, "root", c.Store, c.ID).Put([]byte(kit.FName), typed(c.Value))
	case "unfixable-null-in-non-nullable":
		return mustBucket(tx, false, "root", c.Store, c.ID).Put([]byte(kit.FName), []byte{byte(boltz.TypeNil)})
	case "unfixable-fk-null-in-non-nullable", "unfixable-fk-dangling-non-nullable":
		// the record's reference becomes null / names a target that does not exist; its old back-reference goes too
		e := m.Ents[c.Store][c.ID]
		val := []byte{byte(boltz.TypeNil)}
		if c.Other != "" {
			val = typed(c.Other)
		}
		if err := mustBucket(tx, false, "root", c.Store, c.ID).Put([]byte(kit.FRef), val); err != nil {
			return err
		}
		if e.Ref != nil && *e.Ref != "" {
			if bb := mustBucket(tx, false, "root", "targets", *e.Ref, "refs_"+c.Store); bb != nil {
				_ = bb.Delete(typed(c.ID))
			}
		}
		return nil
	}
	return fmt.Errorf("unknown corruption %s", c.Kind)
}

func genC09(t *rapid.T) c09Case {
	h := kit.GenHistory(t, c09CfgFor(rapid.IntRange(0, 2).Draw(t, "extendedKids") == 0), 20, 3, false, 95, c09OpGen)
	for i := range h.Txs {
		h.Txs[i].Fail = false
	}
	for i := range h.Txs {
		h.Txs[i].Batch = false
	}
	c := c09Case{H: h}
	m := replayModel(h)
	n := rapid.IntRange(1, 5).Draw(t, "nCorruptions")
	if rapid.IntRange(0, 19).Draw(t, "clean") == 0 {
		n = 0
	}
	used := map[string]bool{}
	for i := 0; i < n; i++ {
		l := fmt.Sprintf("c%d", i)
		var cor Corruption
		ok := false
		for try := 0; try < 4 && !ok; try++ {
			lt := fmt.Sprintf("%s_%d", l, try)
			kind := c09Kinds[rapid.IntRange(0, len(c09Kinds)-1).Draw(t, lt+"_kind")]
			if strings.HasPrefix(kind, "unfixable") && rapid.IntRange(0, 2).Draw(t, lt+"_keepUnfixable") > 0 {
				kind = c09Kinds[rapid.IntRange(0, len(c09Kinds)-5).Draw(t, lt+"_kind2")]
			}
			cor, ok = genCorruption(t, lt, kind, m, used)
		}
		if !ok {
			continue
		}
		// each corruption works on its own entities / values so that every report can be attributed
		for _, tok := range cor.tokens() {
			used[tok] = true
		}
		if strings.HasPrefix(cor.Kind, "set-") {
			used["role:"+cor.Store+cor.Value] = true
		}
		c.Corruptions = append(c.Corruptions, cor)
		if cor.Kind == "fk-missing-backref-non-nullable" && rapid.Bool().Draw(t, l+"_danglingBefore") {
			// in the same store an entity that sorts before it has a reference that cannot be repaired: the checker
			// meets that one first and still has to repair the missing back-reference afterwards
			for _, id := range sortedIDs(m.Ents[cor.Store]) {
				if id < cor.ID && !used[id] {
					d := Corruption{Kind: "unfixable-fk-dangling-non-nullable", Store: cor.Store, ID: id, Other: "ghost-id-" + l + "-before"}
					for _, tok := range d.tokens() {
						used[tok] = true
					}
					c.Corruptions = append(c.Corruptions, d)
					break
				}
			}
		}
	}
	return c
}

var errInTxSkip = errors.New("in-transaction re-run not applicable")

type report struct {
	text  string
	fixed bool
}

func runIntegrity(w *kit.World, fix bool) ([]report, error) {
	var reps []report
	err := w.Z.Db.Update(kit.NewCtx(), func(ctx boltz.MutateContext) error {
		names := make([]string, 0, len(w.Stores))
		for n := range w.Stores {
			names = append(names, n)
		}
		sort.Strings(names)
		for _, n := range names {
			if err := w.Stores[n].CheckIntegrity(ctx, fix, func(err error, fixed bool) {
				reps = append(reps, report{err.Error(), fixed})
			}); err != nil {
				return fmt.Errorf("CheckIntegrity(%s, fix=%v): %v", n, fix, err)
			}
		}
		for _, n := range sortedKeys(w.Kids) {
			if err := w.Kids[n].CheckIntegrity(ctx, fix, func(err error, fixed bool) {
				reps = append(reps, report{err.Error(), fixed})
			}); err != nil {
				return fmt.Errorf("CheckIntegrity(child store %s, fix=%v): %v", n, fix, err)
			}
		}
		return nil
	})
	return reps, err
}

func sortedKeys[V any](m map[string]V) []string {
	out := make([]string, 0, len(m))
	for k := range m {
		out = append(out, k)
	}
	sort.Strings(out)
	return out
}

func renderReports(reps []report) string {
	var out []string
	for _, r := range reps {
		out = append(out, fmt.Sprintf("    [fixed=%v] %s", r.fixed, r.text))
	}
	if len(out) == 0 {
		return "    (none)"
	}
	return strings.Join(out, "\n")
}

func runC09(c c09Case) kit.Result {
	res := kit.Result{Sub: 1}
	w, err := kit.NewWorld(c.H.Cfg)
	if err != nil {
		res.Err = err
		return res
	}
	defer w.Close()
	m := kit.NewModel(c.H.Cfg)
	for i, tx := range c.H.Txs {
		if out := kit.RunTx(w, m, tx); out.Violation != nil {
			res.Err = fmt.Errorf("building the consistent database, transaction %d: %v", i, out.Violation)
			return res
		}
	}
	describe := func() string {
		var parts []string
		for _, co := range c.Corruptions {
			parts = append(parts, "    "+co.String())
		}
		return "corruptions:\n" + strings.Join(parts, "\n") + "\nhistory:\n" + c.H.String()
	}
	// a consistent database is consistent at every point of a transaction as well: the last transaction of the
	// history is executed once more inside a transaction that then runs the check before committing (entries
	// written in this very transaction are looked at through the transaction's dirty pages)
	if n := len(c.H.Txs); n > 0 {
		var inTx []report
		trial := m.Clone()
		err := w.Z.Db.Update(kit.NewCtx(), func(ctx boltz.MutateContext) error {
			for _, op := range c.H.Txs[n-1].Ops {
				if causes := trial.Apply(op, false); len(causes) > 0 {
					return errInTxSkip // the re-run is not applicable (e.g. create of an id that exists now)
				}
				if _, err := w.Exec(ctx, op); err != nil {
					return fmt.Errorf("re-running %s, accepted by the model: %v", op, err)
				}
			}
			for _, name := range sortedKeys(w.Stores) {
				if err := w.Stores[name].CheckIntegrity(ctx, false, func(err error, fixed bool) { inTx = append(inTx, report{err.Error(), fixed}) }); err != nil {
					return err
				}
			}
			return nil
		})
		switch {
		case errors.Is(err, errInTxSkip):
		case err != nil:
			res.Err = fmt.Errorf("check inside the writing transaction: %v\nhistory:\n%s", err, c.H)
			return res
		default:
			*m = *trial
			res.Classes = append(res.Classes, "checked-inside-the-writing-transaction")
			if len(inTx) > 0 {
				res.Err = fmt.Errorf("consistent database, check-only run inside the transaction that wrote the last changes reported:\n%s\nhistory:\n%s", renderReports(inTx), c.H)
				return res
			}
		}
	}
	// a consistent database: nothing to report, nothing changed, in either mode
	clean := kit.DropEmptyEntityBuckets(w.Dump())
	for _, fix := range []bool{false, true} {
		reps, err := runIntegrity(w, fix)
		if err != nil {
			res.Err = err
			return res
		}
		if len(reps) > 0 {
			res.Err = fmt.Errorf("consistent database, CheckIntegrity(fix=%v) reported:\n%s\nhistory:\n%s", fix, renderReports(reps), c.H)
			return res
		}
		if d := kit.DiffDumps(clean, kit.DropEmptyEntityBuckets(w.Dump())); d != "" {
			res.Err = fmt.Errorf("consistent database, CheckIntegrity(fix=%v) changed the database:\n%s\nhistory:\n%s", fix, d, c.H)
			return res
		}
	}
	res.Classes = append(res.Classes, fmt.Sprintf("corruptions:%d", len(c.Corruptions)))
	if len(c.Corruptions) == 0 {
		return res
	}
	// inject
	err = w.Z.Db.Update(kit.NewCtx(), func(ctx boltz.MutateContext) error {
		for _, co := range c.Corruptions {
			if err := co.apply(ctx.Tx(), m); err != nil {
				return fmt.Errorf("harness: applying %s: %v", co, err)
			}
		}
		return nil
	})
	if err != nil {
		res.Err = fmt.Errorf("%v\n%s", err, describe())
		return res
	}
	hasUnfixable, hasFixable := false, false
	allTokens := map[string]bool{}
	for _, co := range c.Corruptions {
		res.Classes = append(res.Classes, "kind:"+co.Kind)
		if co.unfixable() {
			hasUnfixable = true
		} else {
			hasFixable = true
		}
		for _, tok := range co.tokens() {
			allTokens[tok] = true
		}
	}
	res.NonTrivial = len(c.Corruptions) >= 2 || hasUnfixable && hasFixable
	corrupted := kit.DropEmptyEntityBuckets(w.Dump())

	// check-only mode: complete, sound, read-only
	reps, err := runIntegrity(w, false)
	if err != nil {
		res.Err = fmt.Errorf("%v\n%s", err, describe())
		return res
	}
	if d := kit.DiffDumps(corrupted, kit.DropEmptyEntityBuckets(w.Dump())); d != "" {
		res.Err = fmt.Errorf("check-only run changed the database:\n%s\n%s", d, describe())
		return res
	}
	mentions := func(r report, toks []string) bool {
		for _, tk := range toks {
			if !hasToken(r.text, tk) {
				return false
			}
		}
		return true
	}
	for _, co := range c.Corruptions {
		found := false
		for _, alt := range co.mustMention() {
			for _, r := range reps {
				if mentions(r, alt) {
					found = true
				}
			}
		}
		if !found {
			res.Err = fmt.Errorf("check-only run did not report %s; reports:\n%s\n%s", co, renderReports(reps), describe())
			return res
		}
		for _, req := range co.alsoMustMention() {
			ok := false
			for _, r := range reps {
				if mentions(r, req) {
					ok = true
				}
			}
			if !ok {
				res.Err = fmt.Errorf("check-only run did not report the part %v of %s; reports:\n%s\n%s", req, co, renderReports(reps), describe())
				return res
			}
		}
	}
	for _, r := range reps {
		if r.fixed {
			res.Err = fmt.Errorf("check-only run claims to have fixed something: %s\n%s", r.text, describe())
			return res
		}
		ok := false
		for tok := range allTokens {
			if hasToken(r.text, tok) {
				ok = true
			}
		}
		if !ok {
			res.Err = fmt.Errorf("report about an entity no corruption touched: %s\n%s", r.text, describe())
			return res
		}
	}
	// one fix run, then an immediate re-check
	if _, err := runIntegrity(w, true); err != nil {
		res.Err = fmt.Errorf("%v\n%s", err, describe())
		return res
	}
	afterFix := kit.DropEmptyEntityBuckets(w.Dump())
	reps2, err := runIntegrity(w, false)
	if err != nil {
		res.Err = fmt.Errorf("%v\n%s", err, describe())
		return res
	}
	if d := kit.DiffDumps(afterFix, kit.DropEmptyEntityBuckets(w.Dump())); d != "" {
		res.Err = fmt.Errorf("re-check after the fix run changed the database:\n%s\n%s", d, describe())
		return res
	}
	var unfixableTokens []string
	for _, co := range c.Corruptions {
		if co.unfixable() {
			unfixableTokens = append(unfixableTokens, co.ID)
			if co.Other != "" {
				unfixableTokens = append(unfixableTokens, co.Other)
			}
		}
	}
	for _, r := range reps2 {
		ok := false
		for _, tok := range unfixableTokens {
			if hasToken(r.text, tok) {
				ok = true
			}
		}
		if !ok {
			res.Err = fmt.Errorf("after one fix run the re-check still reports a repairable inconsistency: %s\nall re-check reports:\n%s\n%s", r.text, renderReports(reps2), describe())
			return res
		}
	}
	for _, co := range c.Corruptions {
		if !co.unfixable() {
			continue
		}
		found := false
		for _, r := range reps2 {
			if !r.fixed && hasToken(r.text, co.ID) {
				found = true
			}
		}
		if !found {
			res.Err = fmt.Errorf("genuine data conflict %s is no longer reported after the fix run; re-check reports:\n%s\n%s", co, renderReports(reps2), describe())
			return res
		}
	}
	if !hasUnfixable {
		// indexes, back-references and links mirror the entities again
		if err := w.CheckAll(m); err != nil {
			res.Err = fmt.Errorf("after the fix run: %v\n%s", err, describe())
			return res
		}
		// the same store objects keep being used: an id that dangled a moment ago is now created and linked through
		// the API; the next check has nothing to report (each run looks at the database as it is now)
		for _, co := range c.Corruptions {
			if co.Kind != "link-dangling" {
				continue
			}
			tx := kit.TxSpec{Ops: []kit.Op{
				{Kind: "create", Store: "targets", ID: co.Other, Spec: &kit.EntSpec{Name: "late-" + co.Other}},
				{Kind: "addlinks", Store: "things", Field: "tlinks", ID: co.ID, Keys: []string{co.Other}}}}
			if out := kit.RunTx(w, m, tx); out.Violation != nil || !out.Committed {
				res.Err = fmt.Errorf("after the fix run, creating and linking the formerly dangling id %q: committed=%v %v\n%s", co.Other, out.Committed, out.Violation, describe())
				return res
			}
			reps3, err := runIntegrity(w, false)
			if err != nil || len(reps3) > 0 {
				res.Err = fmt.Errorf("after the formerly dangling id %q was created and linked through the API, a check-only run reports (err %v):\n%s\n%s", co.Other, err, renderReports(reps3), describe())
				return res
			}
			res.Classes = append(res.Classes, "formerly-dangling-id-created-later")
			break
		}
	}
	return res
}

func TestC09(t *testing.T) {
	kit.Execute(t, kit.Spec[c09Case]{
		ID:    "C09",
		Level: "exploration",
		Rule: "rapid draws a consistent database through the API (history of 1-14 transactions over stores with unique, nullable-unique and set indexes, nullable and non-null fk indexes, an fk constraint and a link collection) and 0-5 raw corruptions applied with bbolt behind the API's back, each on its own entities/values: unique index missing / extra (existing or missing id) / wrong target; set index missing id / missing key / extra id (existing or missing) / empty key; fk missing / extra (existing or missing id) back-reference, dangling nullable reference; link one-sided (either side) / dangling; plus the unfixable conflicts duplicate unique value and null in a non-nullable field. " +
			"Oracle: on the clean database both modes report nothing and change nothing; with corruptions the check-only run reports every one (token match on ids and values), reports nothing about untouched entities, and leaves the dump identical; one fix run followed by a re-check reports only the unfixable conflicts (still, as unfixed) and all indexes / back-references / links equal the model again. " +
			"Also generated: a plain or extended child store with its own unique index (checked and corrupted too), empty alias / reference values, a check-only run inside the transaction that wrote the last changes, and a formerly dangling id created and linked through the API after the fix run. Also: entity buckets are created lazily (a store that never held an entity has none). " +
			"Non-trivial: >= 2 simultaneous corruptions, or an unfixable conflict combined with a fixable one. Distinct by hash of the case JSON.",
		Assumptions: []string{"reports are attributed by the ids / values they mention, so a report that names the right tokens for a wrong reason passes",
			"dangling references in non-nullable fields and plain (non-bucket) keys inside a set index are not injected"},
		Gen: genC09, Run: runC09,
		QuickChecks: 5000, ThoroughFactor: 10,
	})
}
