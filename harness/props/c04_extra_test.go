package props

import (
	"fmt"
	"sort"

	"github.com/openziti/foundation/v2/errorz"
	"github.com/openziti/storage/ast"
	"github.com/openziti/storage/boltz"
	"go.etcd.io/bbolt"

	"verif/kit"
)

// ---- sibling child stores that each carry a reference of the same name to the same target store ----

type c04Doc struct {
	Id    string
	Title string
	Type  string
}

func (d *c04Doc) GetId() string         { return d.Id }
func (d *c04Doc) SetId(id string)       { d.Id = id }
func (d *c04Doc) GetEntityType() string { return d.Type }

// c04Paper is the entity of both child types (memos and notes): a doc plus the owner it refers to
type c04Paper struct {
	c04Doc
	Owner *string
}

type c04DocStrategy struct{ typ string }

func (s c04DocStrategy) NewEntity() *c04Doc { return &c04Doc{Type: s.typ} }
func (c04DocStrategy) FillEntity(d *c04Doc, b *boltz.TypedBucket) {
	d.Title = b.GetStringWithDefault("title", "")
}
func (c04DocStrategy) PersistEntity(d *c04Doc, ctx *boltz.PersistContext) {
	ctx.SetString("title", d.Title)
}

type c04PaperStrategy struct {
	parent *boltz.BaseStore[*c04Doc]
}

func (s *c04PaperStrategy) NewEntity() *c04Paper { return &c04Paper{c04Doc: c04Doc{Type: "docs"}} }
func (s *c04PaperStrategy) FillEntity(p *c04Paper, b *boltz.TypedBucket) {
	_, err := s.parent.LoadEntity(b.Tx(), p.Id, &p.c04Doc)
	b.SetError(err)
	p.Owner = b.GetString("owner")
}
func (s *c04PaperStrategy) PersistEntity(p *c04Paper, ctx *boltz.PersistContext) {
	s.parent.GetEntityStrategy().PersistEntity(&p.c04Doc, ctx.GetParentContext())
	ctx.SetStringP("owner", p.Owner)
}

// c04Siblings: two child stores over one parent store each declare the reference "owner" to the owners store, wired
// alike (cascading delete, or restrict). Entities of both child types refer to the same owners; deleting an owner
// removes (or is refused because of) the referrers of both types.
func c04Siblings(ownerIDs []string, cascade bool) error {
	z := kit.NewZDB()
	defer z.Close()
	owners := boltz.NewBaseStore(boltz.StoreDefinition[*c04Doc]{EntityType: "owners", EntityStrategy: c04DocStrategy{typ: "owners"}, BasePath: []string{"root"}})
	owners.InitImpl(owners)
	owners.AddIdSymbol("id", ast.NodeTypeString)
	docs := boltz.NewBaseStore(boltz.StoreDefinition[*c04Doc]{EntityType: "docs", EntityStrategy: c04DocStrategy{typ: "docs"}, BasePath: []string{"root"}})
	docs.InitImpl(docs)
	docs.AddIdSymbol("id", ast.NodeTypeString)
	docs.AddSymbol("title", ast.NodeTypeString)
	kids := map[string]*boltz.BaseStore[*c04Paper]{}
	for _, name := range []string{"memos", "notes"} {
		ks := boltz.NewBaseStore(boltz.StoreDefinition[*c04Paper]{
			EntityStrategy: &c04PaperStrategy{parent: docs},
			BasePath:       []string{"ext_" + name},
			Parent:         docs,
			ParentMapper: func(e boltz.Entity) boltz.Entity {
				if p, ok := e.(*c04Paper); ok {
					return &p.c04Doc
				}
				return e
			},
		})
		ks.InitImpl(ks)
		docs.GrantSymbols(ks)
		sym := ks.AddFkSymbol("owner", owners)
		if cascade {
			ks.AddFkConstraint(sym, true, boltz.CascadeDelete)
		} else {
			ks.AddFkConstraint(sym, true, boltz.CascadeNone)
		}
		kids[name] = ks
	}
	for _, name := range []string{"memos", "notes"} {
		ks := kids[name]
		docs.RegisterChildStoreStrategy(&boltz.ChildStoreUpdateHandler[*c04Doc, *c04Paper]{
			Store: ks,
			Mapper: func(ctx boltz.MutateContext, d *c04Doc) (*c04Paper, bool) {
				if !ks.IsEntityPresent(ctx.Tx(), d.Id) {
					return nil, false
				}
				p, found, err := ks.FindById(ctx.Tx(), d.Id)
				if err != nil || !found {
					return nil, false
				}
				p.c04Doc = *d
				return p, true
			},
		})
	}
	update := func(f func(ctx boltz.MutateContext) error) error { return z.Db.Update(kit.NewCtx(), f) }
	if err := update(func(ctx boltz.MutateContext) error {
		holder := &errorz.ErrorHolderImpl{}
		owners.InitializeIndexes(ctx.Tx(), holder)
		docs.InitializeIndexes(ctx.Tx(), holder)
		kids["memos"].InitializeIndexes(ctx.Tx(), holder)
		kids["notes"].InitializeIndexes(ctx.Tx(), holder)
		return holder.GetError()
	}); err != nil {
		return fmt.Errorf("sibling child stores: initialising indexes: %v", err)
	}
	// owner i is referred to by the memo m<i> and the note n<i>
	if err := update(func(ctx boltz.MutateContext) error {
		for i, oid := range ownerIDs {
			oid := oid
			if err := owners.Create(ctx, &c04Doc{Id: oid, Title: "owner", Type: "owners"}); err != nil {
				return fmt.Errorf("creating owner %q: %v", oid, err)
			}
			if err := kids["memos"].Create(ctx, &c04Paper{c04Doc: c04Doc{Id: fmt.Sprintf("m%d", i), Title: "memo", Type: "docs"}, Owner: &oid}); err != nil {
				return fmt.Errorf("creating memo of owner %q: %v", oid, err)
			}
			if err := kids["notes"].Create(ctx, &c04Paper{c04Doc: c04Doc{Id: fmt.Sprintf("n%d", i), Title: "note", Type: "docs"}, Owner: &oid}); err != nil {
				return fmt.Errorf("creating note of owner %q: %v", oid, err)
			}
		}
		return nil
	}); err != nil {
		return fmt.Errorf("sibling child stores: setup: %v", err)
	}
	docIDs := func() (out []string) {
		_ = z.Db.View(func(tx *bbolt.Tx) error {
			out, _, _ = docs.QueryIds(tx, "true limit none")
			return nil
		})
		sort.Strings(out)
		return
	}
	var want []string
	for i := range ownerIDs {
		want = append(want, fmt.Sprintf("m%d", i), fmt.Sprintf("n%d", i))
	}
	sort.Strings(want)
	for i, oid := range ownerIDs {
		err := update(func(ctx boltz.MutateContext) error { return owners.DeleteById(ctx, oid) })
		if cascade {
			if err != nil {
				return fmt.Errorf("sibling child stores (cascading references): deleting owner %q failed: %v", oid, err)
			}
			var rest []string
			for _, id := range want {
				if id != fmt.Sprintf("m%d", i) && id != fmt.Sprintf("n%d", i) {
					rest = append(rest, id)
				}
			}
			want = rest
		} else if err == nil || !boltz.IsReferenceExistsError(err) {
			return fmt.Errorf("sibling child stores (restricting references): deleting owner %q, which a memo and a note refer to, returned %v", oid, err)
		}
		if got := docIDs(); fmt.Sprint(got) != fmt.Sprint(want) && !(len(got) == 0 && len(want) == 0) {
			return fmt.Errorf("sibling child stores (cascade=%v): after deleting owner %q (referred to by memo m%d and note n%d) the documents are %q, expected %q", cascade, oid, i, i, got, want)
		}
		if !cascade {
			// drop the memo: the note still refers to the owner
			if err := update(func(ctx boltz.MutateContext) error { return kids["memos"].DeleteById(ctx, fmt.Sprintf("m%d", i)) }); err != nil {
				return fmt.Errorf("sibling child stores: deleting memo m%d: %v", i, err)
			}
			if err := update(func(ctx boltz.MutateContext) error { return owners.DeleteById(ctx, oid) }); err == nil || !boltz.IsReferenceExistsError(err) {
				return fmt.Errorf("sibling child stores (restricting references): deleting owner %q, which the note n%d still refers to, returned %v", oid, i, err)
			}
			if err := update(func(ctx boltz.MutateContext) error { return kids["notes"].DeleteById(ctx, fmt.Sprintf("n%d", i)) }); err != nil {
				return fmt.Errorf("sibling child stores: deleting note n%d: %v", i, err)
			}
			if err := update(func(ctx boltz.MutateContext) error { return owners.DeleteById(ctx, oid) }); err != nil {
				return fmt.Errorf("sibling child stores (restricting references): deleting owner %q, which nothing refers to any more, failed: %v", oid, err)
			}
			var rest []string
			for _, id := range want {
				if id != fmt.Sprintf("m%d", i) && id != fmt.Sprintf("n%d", i) {
					rest = append(rest, id)
				}
			}
			want = rest
		}
	}
	return nil
}

// ---- ids that are arbitrary bytes ----

// c04BinaryHistory builds, for ids that need not be valid UTF-8, one target per id referred to from every kind of
// wiring, and then deletes the targets (refused by the restricting wirings first, cascading afterwards).
func c04BinaryHistory(cfg kit.WorldCfg, ids []string) kit.History {
	h := kit.History{Cfg: cfg}
	for i, id := range ids {
		tx := kit.TxSpec{Ops: []kit.Op{{Kind: "create", Store: "targets", ID: id, Spec: &kit.EntSpec{Name: "n"}}}}
		for _, store := range []string{"an", "bn", "cn", "cd", "ec"} {
			tx.Ops = append(tx.Ops, kit.Op{Kind: "create", Store: store, ID: fmt.Sprintf("r%d", i), Spec: &kit.EntSpec{Name: "n", Ref: kit.Sp(id)}})
		}
		h.Txs = append(h.Txs, tx)
		// refused: an / bn / cn restrict
		h.Txs = append(h.Txs, kit.TxSpec{Ops: []kit.Op{{Kind: "delete", Store: "targets", ID: id}}})
		// the restricting referrers let go (the nullable ones are re-pointed to null, the others deleted)
		h.Txs = append(h.Txs, kit.TxSpec{Ops: []kit.Op{
			{Kind: "patch", Store: "an", ID: fmt.Sprintf("r%d", i), Fields: []string{kit.FRef}, Spec: &kit.EntSpec{Name: "n"}},
			{Kind: "delete", Store: "bn", ID: fmt.Sprintf("r%d", i)},
			{Kind: "delete", Store: "cn", ID: fmt.Sprintf("r%d", i)}}})
		// now the delete goes through and takes the cascading referrers (cd, ec) with it
		h.Txs = append(h.Txs, kit.TxSpec{Ops: []kit.Op{{Kind: "delete", Store: "targets", ID: id}}})
	}
	return h
}

// ---- a reference kept in a nested bucket of the entity (fk symbol registered with a bucket path prefix) ----

type c04GadgetStrategy struct{}

func (c04GadgetStrategy) NewEntity() *c04Paper { return &c04Paper{c04Doc: c04Doc{Type: "gadgets"}} }
func (c04GadgetStrategy) FillEntity(p *c04Paper, b *boltz.TypedBucket) {
	p.Title = b.GetStringWithDefault("title", "")
	if d := b.GetBucket("details"); d != nil {
		p.Owner = d.GetString("owner")
	}
}
func (c04GadgetStrategy) PersistEntity(p *c04Paper, ctx *boltz.PersistContext) {
	ctx.SetString("title", p.Title)
	ctx.Bucket.GetOrCreatePath("details").SetStringP("owner", p.Owner, ctx.FieldChecker)
}

// c04PrefixedReference: gadgets keep their (nullable, restricting) reference to an owner under details/owner.
func c04PrefixedReference(ownerIDs []string) error {
	z := kit.NewZDB()
	defer z.Close()
	owners := boltz.NewBaseStore(boltz.StoreDefinition[*c04Doc]{EntityType: "owners", EntityStrategy: c04DocStrategy{typ: "owners"}, BasePath: []string{"root"}})
	owners.InitImpl(owners)
	owners.AddIdSymbol("id", ast.NodeTypeString)
	gadgets := boltz.NewBaseStore(boltz.StoreDefinition[*c04Paper]{EntityType: "gadgets", EntityStrategy: c04GadgetStrategy{}, BasePath: []string{"root"}})
	gadgets.InitImpl(gadgets)
	gadgets.AddIdSymbol("id", ast.NodeTypeString)
	ownerSym := gadgets.AddFkSymbol("owner", owners, "details")
	gadgets.AddNullableFkIndex(ownerSym, owners.AddFkSetSymbol("gadgets", gadgets))
	update := func(f func(ctx boltz.MutateContext) error) error { return z.Db.Update(kit.NewCtx(), f) }
	if err := update(func(ctx boltz.MutateContext) error {
		holder := &errorz.ErrorHolderImpl{}
		owners.InitializeIndexes(ctx.Tx(), holder)
		gadgets.InitializeIndexes(ctx.Tx(), holder)
		return holder.GetError()
	}); err != nil {
		return fmt.Errorf("prefixed reference: initialising indexes: %v", err)
	}
	missing := "no-such-owner"
	if err := update(func(ctx boltz.MutateContext) error {
		return gadgets.Create(ctx, &c04Paper{c04Doc: c04Doc{Id: "g-missing", Title: "t", Type: "gadgets"}, Owner: &missing})
	}); err == nil || !boltz.IsErrNotFoundErr(err) {
		return fmt.Errorf("prefixed reference: creating a gadget whose owner (kept under details/owner) does not exist returned %v", err)
	}
	for i, oid := range ownerIDs {
		oid := oid
		gid := fmt.Sprintf("g%d", i)
		if err := update(func(ctx boltz.MutateContext) error {
			if err := owners.Create(ctx, &c04Doc{Id: oid, Title: "owner", Type: "owners"}); err != nil {
				return err
			}
			return gadgets.Create(ctx, &c04Paper{c04Doc: c04Doc{Id: gid, Title: "t", Type: "gadgets"}, Owner: &oid})
		}); err != nil {
			return fmt.Errorf("prefixed reference: creating owner %q and its gadget: %v", oid, err)
		}
		var back []string
		_ = z.Db.View(func(tx *bbolt.Tx) error {
			back = owners.GetRelatedEntitiesIdList(tx, oid, "gadgets")
			return nil
		})
		if fmt.Sprint(back) != fmt.Sprint([]string{gid}) {
			return fmt.Errorf("prefixed reference: back-references of owner %q are %q, its gadget is %q", oid, back, gid)
		}
		if err := update(func(ctx boltz.MutateContext) error { return owners.DeleteById(ctx, oid) }); err == nil || !boltz.IsReferenceExistsError(err) {
			return fmt.Errorf("prefixed reference: deleting owner %q, which gadget %s refers to (under details/owner), returned %v", oid, gid, err)
		}
		if err := update(func(ctx boltz.MutateContext) error {
			return gadgets.Update(ctx, &c04Paper{c04Doc: c04Doc{Id: gid, Title: "t", Type: "gadgets"}, Owner: &missing}, nil)
		}); err == nil || !boltz.IsErrNotFoundErr(err) {
			return fmt.Errorf("prefixed reference: re-pointing gadget %s to an owner that does not exist returned %v", gid, err)
		}
		if err := update(func(ctx boltz.MutateContext) error { return gadgets.DeleteById(ctx, gid) }); err != nil {
			return fmt.Errorf("prefixed reference: deleting gadget %s: %v", gid, err)
		}
		if err := update(func(ctx boltz.MutateContext) error { return owners.DeleteById(ctx, oid) }); err != nil {
			return fmt.Errorf("prefixed reference: deleting owner %q, which nothing refers to any more: %v", oid, err)
		}
	}
	return nil
}
