package props

import (
	"fmt"
	"strings"
	"testing"

	"github.com/openziti/storage/boltz"
	"go.etcd.io/bbolt"
	"pgregory.net/rapid"

	"verif/kit"
)

// C06 — a committed delete leaves no trace of the entity's id.

var c06Cfg = kit.WorldCfg{
	Stores: []kit.StoreCfg{
		{Name: "things", UniqueName: true, UniqueAlias: true, RolesIndex: true, RefTo: "targets", RefWiring: kit.WireFkIndexNullable},
		{Name: "targets", UniqueName: true, RolesIndex: true},
		{Name: "deps", RefTo: "things", RefWiring: kit.WireConstraintDel},      // deleted together with the thing they reference
		{Name: "holders", RefTo: "things", RefWiring: kit.WireFkIndexNullable}, // restrict
		{Name: "owned", RefTo: "targets", RefWiring: kit.WireFkIndexCascade},   // deleted together with their target
		// declared against the child store kids, its back-reference set kept by the parent store things (restrict)
		{Name: "kholders", RefTo: "kids", RefWiring: kit.WireFkIndexNullable, BackRefOnParent: true},
		// a self-referencing store whose reference restricts (used by C07: a root naming itself, with children)
		{Name: "grp", RefTo: "grp", RefWiring: kit.WireConstraintNone},
	},
	// two child types over things: "kids0" is registered first; "kids" has a unique index and a link collection of its own
	Children: []kit.ChildCfg{{Name: "kids0", Parent: "things"}, {Name: "kids", Parent: "things", UniqueExtra: true}},
	Links: []kit.LinkCfg{
		{A: "things", FieldA: "tlinks", B: "targets", FieldB: "plinks"},
		{A: "things", FieldA: "rct", B: "targets", FieldB: "rcp", RefCounted: true},
		{A: "kids", FieldA: "klinks", B: "targets", FieldB: "kback"},                // a link collection declared on the child store
		{A: "owned", FieldA: "orc", B: "targets", FieldB: "orcb", RefCounted: true}, // owned has ref-counted links only
	},
}

func c06Long(tag string) string {
	return "id-" + tag + "-64-" + strings.Repeat("z", 64-len("id-"+tag+"-64-"))
}

var c06IDs = map[string][]string{
	// some ids are proper prefixes of others (id-th1 / id-th10): lookups have to match whole ids
	// ... and one id per store is exactly 64 bytes long
	"things":  {"id-th1", "id-th10", "id-th3", c06Long("th")},
	"kids":    {"id-th1", "id-th10", "id-th3", c06Long("th")},
	"kids0":   {"id-th1", "id-th10", "id-th3", c06Long("th")},
	"targets": {"id-tg1", "id-tg10", "id-tg3", c06Long("tg")},
	// ... and the referring stores have ids that also occur in the store they refer to (a record that re-uses the id
	// of its owner): id-th3 in deps and holders, id-tg1 in owned
	"deps":     {"id-dp1", "id-dp2", "id-dp3", "id-dp4", "id-th3"},
	"holders":  {"id-ho1", "id-ho2", "id-th3"},
	"kholders": {"id-kh1", "id-kh2"},
	"owned":    {"id-ow1", "id-ow2", "id-ow3", "id-ow4", "id-tg1"},
}

// c06NameMax is a name of exactly bbolt.MaxKeySize bytes: the longest value a unique index can hold
var c06NameMax = "n-max-" + strings.Repeat("m", 32768-len("n-max-"))

// c06CfgFor returns the configuration, optionally with every symbol persisted under a key that differs from its name.
func c06CfgFor(keyed bool) kit.WorldCfg {
	cfg := c06Cfg
	cfg.Stores = append([]kit.StoreCfg(nil), c06Cfg.Stores...)
	for i := range cfg.Stores {
		cfg.Stores[i].Keyed = keyed
	}
	return cfg
}

type c06Case struct {
	H           kit.History `json:"h"`
	DeleteTx    int         `json:"deleteTx"` // index of the transaction that deletes the victim
	VictimStore string      `json:"victimStore"`
	Victim      string      `json:"victim"`
	Kinds       []string    `json:"kinds"` // attachment kinds the victim had when deleted (from the model)
}

func replayModel(h kit.History) *kit.Model {
	m := kit.NewModel(h.Cfg)
	for _, tx := range h.Txs {
		trial := m.Clone()
		ok := true
		for _, op := range tx.Ops {
			pre := trial.Clone()
			c := trial.Apply(op, tx.System)
			if len(c) > 0 {
				if len(c) == 1 && c[0] == kit.Unspecified {
					*trial = *pre
					continue
				}
				ok = false
				break
			}
		}
		if ok && !tx.Fail {
			m = trial
		}
	}
	return m
}

func genC06(t *rapid.T) c06Case {
	refsTo := func(store string) []*string {
		out := []*string{nil}
		for _, id := range c06IDs[store] {
			out = append(out, kit.Sp(id), kit.Sp(id))
		}
		return out
	}
	cfg := c06CfgFor(rapid.IntRange(0, 2).Draw(t, "keyed") == 0)
	h := kit.GenHistory(t, cfg, 18, 3, true, 75, func(t *rapid.T, l string, m *kit.Model) kit.Op {
		x := rapid.IntRange(0, 99).Draw(t, l+"_what")
		if x < 30 && len(m.Ents["things"]) > 0 && len(m.Ents["targets"]) > 0 {
			// link operation
			rc := rapid.Bool().Draw(t, l+"_rc")
			fromThing := rapid.Bool().Draw(t, l+"_side")
			op := kit.Op{}
			self, other := c06IDs["things"], c06IDs["targets"]
			if rapid.IntRange(0, 3).Draw(t, l+"_ownedLink") == 0 && len(m.Ents["owned"]) > 0 {
				// the ref-counted collection of the store that has no plain collection
				op := kit.Op{Store: "owned", Field: "orc"}
				self, other := c06IDs["owned"], c06IDs["targets"]
				if !fromThing {
					op.Store, op.Field = "targets", "orcb"
					self, other = other, self
				}
				// mostly between entities that exist
				existing := func(store string, ids []string) []string {
					var out []string
					for _, id := range ids {
						if _, ok := m.Ents[store][id]; ok {
							out = append(out, id)
						}
					}
					if len(out) == 0 || rapid.IntRange(0, 9).Draw(t, l+"_oany_"+store) == 0 {
						return ids
					}
					return out
				}
				selfStore, otherStore := "owned", "targets"
				if !fromThing {
					selfStore, otherStore = otherStore, selfStore
				}
				self, other = existing(selfStore, self), existing(otherStore, other)
				op.ID = self[rapid.IntRange(0, len(self)-1).Draw(t, l+"_olid")]
				op.Keys = []string{other[rapid.IntRange(0, len(other)-1).Draw(t, l+"_okey")]}
				op.Kind = []string{"rcinc", "rcinc", "rcdec", "rcset"}[rapid.IntRange(0, 3).Draw(t, l+"_orck")]
				op.Count = rapid.IntRange(0, 2).Draw(t, l+"_ocnt")
				return op
			}
			if rapid.IntRange(0, 3).Draw(t, l+"_childLink") == 0 {
				// the collection that lives on the child store
				rc = false
				if fromThing {
					op.Store, op.Field = "kids", "klinks"
				} else {
					op.Store, op.Field = "targets", "kback"
					self, other = other, self
				}
			} else if fromThing {
				op.Store, op.Field = "things", map[bool]string{false: "tlinks", true: "rct"}[rc]
			} else {
				op.Store, op.Field = "targets", map[bool]string{false: "plinks", true: "rcp"}[rc]
				self, other = other, self
			}
			op.ID = self[rapid.IntRange(0, len(self)-1).Draw(t, l+"_lid")]
			op.Keys = []string{other[rapid.IntRange(0, len(other)-1).Draw(t, l+"_key")]}
			if rc {
				op.Kind = []string{"rcinc", "rcinc", "rcdec", "rcset"}[rapid.IntRange(0, 3).Draw(t, l+"_rck")]
				op.Count = rapid.IntRange(0, 2).Draw(t, l+"_cnt")
			} else {
				op.Kind = []string{"addlinks", "addlinks", "removelinks", "setlinks", "addlink", "addlink", "removelink"}[rapid.IntRange(0, 6).Draw(t, l+"_lk")]
				if op.Kind != "addlink" && op.Kind != "removelink" && rapid.Bool().Draw(t, l+"_two") {
					op.Keys = append(op.Keys, other[rapid.IntRange(0, len(other)-1).Draw(t, l+"_key2")])
				}
			}
			return op
		}
		stores := []string{"things", "things", "kids", "kids", "kids0", "targets", "targets", "deps", "holders", "owned", "kholders"}
		store := stores[rapid.IntRange(0, len(stores)-1).Draw(t, l+"_store")]
		u := kit.EntUniverse{IDs: c06IDs[store], Names: []string{"na", "nb", "nc", "nd", "ne", "nf"}, Notes: []string{"", "note"},
			Fields: []string{kit.FName, kit.FAlias, kit.FRoles, kit.FRef, kit.FExtra}}
		switch store {
		case "things", "kids", "kids0":
			u.Aliases = []*string{nil, kit.Sp("al1"), kit.Sp("al2"), kit.Sp("al3")}
			u.Roles = []string{"r1", "r2", "R1"} // two of them differ only in letter case
			u.Refs = refsTo("targets")
			u.Extras = []string{"", "ex1", "ex2", "ex3"}
		case "targets":
			u.Roles = []string{"r1", "r2", "R1"}
		case "deps", "holders", "kholders":
			u.Refs = refsTo("things")
		case "owned":
			u.Refs = refsTo("targets")
		}
		op := kit.GenEntOpM(t, l, store, u, m)
		if op.Spec != nil && (store == "things" || store == "targets") && rapid.IntRange(0, 11).Draw(t, l+"_maxName") == 0 {
			op.Spec.Name = c06NameMax
		}
		if op.Spec != nil && (store == "deps" || store == "holders" || store == "owned") && rapid.IntRange(0, 5).Draw(t, l+"_sameIdRef") == 0 {
			// the record refers to the entity whose id it shares
			for _, shared := range []string{"id-th3", "id-tg1"} {
				if op.ID == shared {
					op.Spec.Ref = kit.Sp(shared)
				}
			}
		}
		return op
	})
	if rapid.IntRange(0, 2).Draw(t, "deleteRcOnlyEntity") == 0 {
		// delete an entity of the store that has ref-counted links only, while it is linked
		m0 := replayModel(h)
		for _, id := range c06IDs["owned"] {
			if _, ok := m0.Ents["owned"][id]; ok && len(m0.LinkedFrom("owned.orc", false, id)) > 0 {
				h.Txs = append(h.Txs, kit.TxSpec{Ops: []kit.Op{{Kind: "delete", Store: "owned", ID: id}}})
				break
			}
		}
	}
	if rapid.IntRange(0, 3).Draw(t, "deleteRecreateBulkDelete") == 0 {
		// one transaction: an entity is deleted, created again under the same id and then matched by a bulk delete
		m0 := replayModel(h)
		for _, s := range []string{"targets", "things"} {
			done := false
			for _, id := range c06IDs[s] {
				if _, ok := m0.Ents[s][id]; !ok || len(m0.Referrers(s, id)) > 0 {
					continue
				}
				h.Txs = append(h.Txs, kit.TxSpec{Ops: []kit.Op{
					{Kind: "delete", Store: s, ID: id},
					{Kind: "create", Store: s, ID: id, Spec: &kit.EntSpec{Name: "n-again", Roles: []string{"r2"}}},
					{Kind: "deletewhere", Store: s, Spec: &kit.EntSpec{Name: "n-again"}}}})
				done = true
				break
			}
			if done {
				break
			}
		}
	}
	if rapid.IntRange(0, 2).Draw(t, "sameIdRecord") == 0 {
		// a record that shares the id of the entity it refers to is created (if need be, with the entity) and deleted again
		pair := [][3]string{{"holders", "things", "id-th3"}, {"deps", "things", "id-th3"}, {"owned", "targets", "id-tg1"}}[rapid.IntRange(0, 2).Draw(t, "sameIdPair")]
		m0 := replayModel(h)
		if _, ok := m0.Ents[pair[1]][pair[2]]; !ok {
			h.Txs = append(h.Txs, kit.TxSpec{Ops: []kit.Op{{Kind: "create", Store: pair[1], ID: pair[2], Spec: &kit.EntSpec{Name: "n-shared-id"}}}})
		}
		if _, ok := m0.Ents[pair[0]][pair[2]]; !ok {
			h.Txs = append(h.Txs, kit.TxSpec{Ops: []kit.Op{{Kind: "create", Store: pair[0], ID: pair[2], Spec: &kit.EntSpec{Name: "n-record", Ref: kit.Sp(pair[2])}}}})
		} else {
			h.Txs = append(h.Txs, kit.TxSpec{Ops: []kit.Op{{Kind: "update", Store: pair[0], ID: pair[2], Spec: &kit.EntSpec{Name: "n-record", Ref: kit.Sp(pair[2])}}}})
		}
		h.Txs = append(h.Txs, kit.TxSpec{Ops: []kit.Op{{Kind: "delete", Store: pair[0], ID: pair[2]}}})
	}
	if rapid.IntRange(0, 2).Draw(t, "systemDeleteOfReferenced") == 0 {
		// a delete of an entity that is still referenced through a restrict wiring, issued from a system context:
		// elevated contexts lift the system-entity protection, not referential integrity
		m0 := replayModel(h)
	search:
		for _, s := range []string{"things", "targets"} {
			for _, id := range c06IDs[s] {
				if _, ok := m0.Ents[s][id]; !ok {
					continue
				}
				refs := m0.Referrers(s, id)
				if len(refs["holders"]) > 0 || len(refs["things"]) > 0 {
					h.Txs = append(h.Txs, kit.TxSpec{System: true, Ops: []kit.Op{{Kind: "delete", Store: s, ID: id}}})
					break search
				}
			}
		}
	}
	m := replayModel(h)
	c := c06Case{H: h}
	// choose a victim among existing things / targets (fall back to creating one)
	var cands [][2]string
	for _, s := range []string{"things", "targets"} {
		for _, id := range c06IDs[s] {
			// (not the two ids that records of other stores share: the walk over the file could not tell the victim's
			// id from theirs; deletes of those entities and of the records are judged by the model invariants)
			if _, ok := m.Ents[s][id]; ok && id != "id-th3" && id != "id-tg1" {
				cands = append(cands, [2]string{s, id})
			}
		}
	}
	if len(cands) == 0 {
		c.H.Txs = append(c.H.Txs, kit.TxSpec{Ops: []kit.Op{{Kind: "create", Store: "things", ID: "id-th1", Spec: &kit.EntSpec{Name: "nz", Roles: []string{"r1"}}}}})
		m = replayModel(c.H)
		cands = [][2]string{{"things", "id-th1"}}
	}
	v := cands[rapid.IntRange(0, len(cands)-1).Draw(t, "victim")]
	c.VictimStore, c.Victim = v[0], v[1]
	// make the victim deletable: detach restrict-wired referrers (update their ref to null)
	referrers := m.Referrers(c.VictimStore, c.Victim)
	for _, store := range sortedKeys(referrers) { // sorted: the generator must not depend on map order
		ids := referrers[store]
		sc := ""
		for _, s := range c06Cfg.Stores {
			if s.Name == store {
				sc = s.RefWiring
			}
		}
		if sc == kit.WireFkIndexNullable {
			for _, rid := range ids {
				c.H.Txs = append(c.H.Txs, kit.TxSpec{Ops: []kit.Op{{Kind: "patch", Store: store, ID: rid, Fields: []string{kit.FRef}, Spec: &kit.EntSpec{Name: "x"}}}})
			}
		}
	}
	m = replayModel(c.H)
	// attachment kinds at deletion time
	e := m.Ents[c.VictimStore][c.Victim]
	kinds := map[string]bool{}
	if e.Name != "" {
		kinds["unique-index"] = true
	}
	if e.Alias != nil && *e.Alias != "" {
		kinds["nullable-unique-index"] = true
	}
	if len(e.Roles) > 0 {
		kinds["set-index"] = true
	}
	if e.Ref != nil && *e.Ref != "" {
		kinds["own-fk-reference"] = true
	}
	if len(e.Kid) > 0 {
		kinds["child-data"] = true
	}
	for store := range m.Referrers(c.VictimStore, c.Victim) {
		kinds["referenced-by-"+store] = true
	}
	for _, lc := range c06Cfg.Links {
		coll := lc.A + "." + lc.FieldA
		if len(m.LinkedFrom(coll, c.VictimStore == lc.B, c.Victim)) > 0 && (m.BaseStore(lc.A) == c.VictimStore || lc.B == c.VictimStore) {
			switch {
			case lc.RefCounted:
				kinds["ref-counted-link"] = true
			case lc.A == "kids":
				kinds["child-store-link"] = true
			default:
				kinds["link"] = true
			}
		}
	}
	for k := range kinds {
		c.Kinds = append(c.Kinds, k)
	}
	c.DeleteTx = len(c.H.Txs)
	via := c.VictimStore
	if _, isKid := e.Kid["kids"]; isKid && rapid.Bool().Draw(t, "viaKid") {
		via = "kids"
	}
	delTx := kit.TxSpec{}
	if rapid.IntRange(0, 2).Draw(t, "cascadeBurst") == 0 {
		// the deleting transaction first (re)points several cascade-wired referrers at the victim: the cascade
		// then has to remove a run of adjacent rows from a bucket this transaction has already written to
		refStore := map[string]string{"things": "deps", "targets": "owned"}[c.VictimStore]
		k := rapid.IntRange(2, 4).Draw(t, "burstSize")
		for _, rid := range c06IDs[refStore][:k] {
			kind := "create"
			if _, exists := m.Ents[refStore][rid]; exists {
				kind = "update"
			}
			delTx.Ops = append(delTx.Ops, kit.Op{Kind: kind, Store: refStore, ID: rid, Spec: &kit.EntSpec{Name: "burst", Ref: kit.Sp(c.Victim)}})
		}
		c.Kinds = append(c.Kinds, "cascade-burst-in-deleting-tx")
	}
	if rapid.IntRange(0, 2).Draw(t, "linkInDeletingTx") == 0 {
		// a link created in the very transaction that deletes the entity must disappear with it
		if c.VictimStore == "things" && len(m.Ents["targets"]) > 0 {
			tid := c06IDs["targets"][0]
			for _, id := range c06IDs["targets"] {
				if _, ok := m.Ents["targets"][id]; ok {
					tid = id
				}
			}
			if _, ok := m.Ents["targets"][tid]; ok {
				delTx.Ops = append(delTx.Ops, kit.Op{Kind: "addlinks", Store: "things", Field: "tlinks", ID: c.Victim, Keys: []string{tid}})
				c.Kinds = append(c.Kinds, "link-added-in-deleting-tx")
			}
		} else if c.VictimStore == "targets" && len(m.Ents["things"]) > 0 {
			for _, id := range c06IDs["things"] {
				if _, ok := m.Ents["things"][id]; ok {
					delTx.Ops = append(delTx.Ops, kit.Op{Kind: "addlinks", Store: "targets", Field: "plinks", ID: c.Victim, Keys: []string{id}})
					c.Kinds = append(c.Kinds, "link-added-in-deleting-tx")
					break
				}
			}
		}
	}
	delTx.Ops = append(delTx.Ops, kit.Op{Kind: "delete", Store: via, ID: c.Victim})
	c.H.Txs = append(c.H.Txs, delTx)
	// re-create the same id with fresh values
	spec := &kit.EntSpec{Name: "fresh", Roles: []string{"r2"}, Note: "fresh"}
	c.H.Txs = append(c.H.Txs, kit.TxSpec{Ops: []kit.Op{{Kind: "create", Store: c.VictimStore, ID: c.Victim, Spec: spec}}})
	return c
}

func runC06(c c06Case) kit.Result {
	res := kit.Result{Sub: len(c.H.Txs)}
	for _, k := range c.Kinds {
		res.Classes = append(res.Classes, "victim-had:"+k)
	}
	res.Classes = append(res.Classes, "victim-store:"+c.VictimStore)
	res.NonTrivial = len(c.Kinds) >= 2
	_, err := kit.RunHistory(c.H, func(w *kit.World, m *kit.Model, i int, tx kit.TxSpec, out kit.TxOutcome) error {
		if i == c.DeleteTx {
			if !out.Committed {
				return fmt.Errorf("the delete of the (detached) victim %s/%s did not commit: %v", c.VictimStore, c.Victim, out.Err)
			}
			// ids removed by this transaction: the victim and everything the model says went with it
			return w.Z.Db.View(func(btx *bbolt.Tx) error {
				if hits := kit.FindBytesInTx(btx, []byte(c.Victim)); len(hits) > 0 {
					return fmt.Errorf("id %q still occurs after its committed delete: %v", c.Victim, hits)
				}
				if err := boltz.ValidateDeleted(btx, c.Victim); err != nil {
					return fmt.Errorf("boltz.ValidateDeleted(%q): %v", c.Victim, err)
				}
				return nil
			})
		}
		if i == c.DeleteTx+1 && !out.Committed {
			return fmt.Errorf("re-creating the deleted id %s/%s failed: %v", c.VictimStore, c.Victim, out.Err)
		}
		return nil
	})
	res.Err = err
	return res
}

func TestC06(t *testing.T) {
	kit.Execute(t, kit.Spec[c06Case]{
		ID:    "C06",
		Level: "exploration",
		Rule: "rapid draws a history (1-18 transactions, 1-3 operations) over a kitchen-sink schema: things (unique name, nullable unique alias, set index on roles, nullable fk index to targets, child store kids, plain and ref-counted links to targets), targets, deps (fk constraint + cascade delete to things), holders (restrict), owned (cascade-delete fk index to targets); ids are disjoint from all field values. " +
			"The generator then picks an existing thing or target as victim, detaches restrict-wired referrers, deletes the victim (through the child store half of the time when it has child data) and re-creates the same id with fresh values. " +
			"After the delete commits the whole file is walked (harness walker and boltz.ValidateDeleted, no ignore paths): the id may not occur as bucket name, key, typed key, value or typed value; after re-creation every model invariant (entities, indexes, links, back-references, child data) must hold for the fresh entity. " +
			"Also generated: a sibling child store registered first, a unique index and a link collection on the later child store, prefix ids, AddLink / RemoveLink, links added in the deleting transaction, a system-context delete of a referenced entity. Also: a store with ref-counted links only (and deletes of its linked entities), one 64-byte id per store. " +
			"Non-trivial: the victim had >= 2 kinds of attachment (class victim-had:*) when deleted. Distinct by hash of the case JSON.",
		Assumptions: []string{"ids are disjoint from all field values (otherwise an occurrence of the id bytes would be ambiguous)",
			"set indexes are over string sets; an entity has child data in at most one child store of its parent"},
		Gen: genC06, Run: runC06,
		QuickChecks: 800, ThoroughFactor: 10,
	})
}
