package props

import (
	"bytes"
	"fmt"
	"sort"
	"strings"
	"testing"
	"time"

	"github.com/openziti/storage/ast"
	"github.com/openziti/storage/boltz"
	"go.etcd.io/bbolt"
	"pgregory.net/rapid"

	"verif/kit"
)

// C14 — every set cursor enumerates its set exactly, in order, and seeks correctly.

type c14Step struct {
	Seek bool   `json:"seek,omitempty"` // false: Next
	V    []byte `json:"v,omitempty"`
}

type c14Case struct {
	Kind    string              `json:"kind"`
	Elems   [][]byte            `json:"elems,omitempty"`
	Elems2  [][]byte            `json:"elems2,omitempty"` // union: second set; filtered: elements the filter rejects
	Reverse bool                `json:"reverse,omitempty"`
	Steps   []c14Step           `json:"steps"`
	Roles   map[string][]string `json:"roles,omitempty"`   // matching-*: id -> roles
	Values  []string            `json:"values,omitempty"`  // matching-*: requested roles
	WriteTx bool                `json:"writeTx,omitempty"` // the cursors are opened inside a writing transaction
}

// kinds whose elements are bbolt keys / bucket names (non-empty by bbolt's own precondition)
var c14PlainKinds = map[string]bool{"bolt": true, "open-seekable": true, "open-cursor": true, "setindex-keys": true, "iterate-ids": true, "iterate-valid-ids": true, "link-setlinks": true, "link-add-remove-in-tx": true}

var c14Kinds = []string{"bolt", "open-seekable", "open-cursor", "iterate-string-list", "iterate-string-list-dir", "open-typed-cursor", "related-entities",
	"link-iterate", "rc-link-iterate", "setindex-value", "setindex-keys", "set-symbol-runtime", "iterate-ids", "iterate-valid-ids", "empty", "filtered",
	"treeset", "union", "matching-allof", "matching-anyof", "link-setlinks", "link-add-remove-in-tx"}

// kinds that only go forward
var c14ForwardOnly = map[string]bool{"open-seekable": true, "iterate-string-list": true, "link-iterate": true, "link-setlinks": true, "link-add-remove-in-tx": true, "set-symbol-runtime": true, "iterate-ids": true, "iterate-valid-ids": true, "filtered": true, "empty": true}

var c14Universe = [][]byte{{}, []byte("a"), []byte("a\x00"), []byte("ab"), []byte("b"), {0xff}, {0xff, 0xff}, []byte("a\xff"), {0x05}, {0x07, 'x'}, []byte("B"),
	// long elements that differ only after a common prefix of 63 / 64 / 130 bytes
	[]byte(strings.Repeat("L", 63) + "1"), []byte(strings.Repeat("L", 63) + "2"), []byte(strings.Repeat("L", 64)), []byte(strings.Repeat("L", 130) + "a"), []byte(strings.Repeat("L", 130) + "b")}

func genElems(t *rapid.T, l string, allowEmpty bool) [][]byte {
	n := rapid.IntRange(0, 8).Draw(t, l+"_n")
	if rapid.IntRange(0, 9).Draw(t, l+"_emptyset") == 0 {
		n = 0
	}
	var out [][]byte
	for i := 0; i < n; i++ {
		e := c14Universe[rapid.IntRange(0, len(c14Universe)-1).Draw(t, fmt.Sprintf("%s_e%d", l, i))]
		if len(e) == 0 && !allowEmpty {
			continue
		}
		out = append(out, e)
	}
	return out
}

func genC14(t *rapid.T) c14Case {
	c := c14Case{Kind: c14Kinds[rapid.IntRange(0, len(c14Kinds)-1).Draw(t, "kind")]}
	if !c14ForwardOnly[c.Kind] {
		c.Reverse = rapid.Bool().Draw(t, "reverse")
	}
	allowEmpty := !c14PlainKinds[c.Kind]
	switch c.Kind {
	case "matching-allof", "matching-anyof":
		c.Roles = map[string][]string{}
		for _, id := range []string{"e1", "e2", "e3", "e4", "e5"} {
			if rapid.IntRange(0, 4).Draw(t, "has_"+id) == 0 {
				continue
			}
			var rs []string
			for _, r := range []string{"r1", "r2", "r3"} {
				if rapid.Bool().Draw(t, id+"_"+r) {
					rs = append(rs, r)
				}
			}
			c.Roles[id] = rs
		}
		n := rapid.IntRange(0, 3).Draw(t, "nValues")
		for i := 0; i < n; i++ {
			c.Values = append(c.Values, []string{"r1", "r2", "r3", "r9"}[rapid.IntRange(0, 3).Draw(t, fmt.Sprintf("val%d", i))])
		}
	case "empty":
	default:
		c.Elems = genElems(t, "s", allowEmpty)
		if c.Kind == "union" || c.Kind == "filtered" || c.Kind == "link-setlinks" || c.Kind == "link-add-remove-in-tx" {
			c.Elems2 = genElems(t, "s2", allowEmpty)
		}
	}
	n := rapid.IntRange(0, 10).Draw(t, "nSteps")
	for i := 0; i < n; i++ {
		st := c14Step{Seek: rapid.IntRange(0, 2).Draw(t, fmt.Sprintf("st%d_seek", i)) == 0}
		if st.Seek {
			switch rapid.IntRange(0, 3).Draw(t, fmt.Sprintf("st%d_kind", i)) {
			case 0:
				st.V = []byte{}
			case 1:
				st.V = []byte{0xff, 0xff, 0xff}
			default:
				st.V = c14Universe[rapid.IntRange(0, len(c14Universe)-1).Draw(t, fmt.Sprintf("st%d_v", i))]
			}
		}
		c.Steps = append(c.Steps, st)
	}
	c.WriteTx = rapid.IntRange(0, 3).Draw(t, "writeTx") == 0
	return c
}

func dedupSorted(bs [][]byte) []string {
	m := map[string]bool{}
	for _, b := range bs {
		m[string(b)] = true
	}
	var out []string
	for k := range m {
		out = append(out, k)
	}
	sort.Strings(out)
	return out
}

func reverseStrings(xs []string) []string {
	out := make([]string, len(xs))
	for i, x := range xs {
		out[len(xs)-1-i] = x
	}
	return out
}

type c14Stores struct {
	as, bs   *boltz.BaseStore[boltz.Entity]
	rolesIdx boltz.SetReadIndex
	links    boltz.LinkCollection
	rcLinks  boltz.RefCountedLinkCollection
	extStore *boltz.BaseStore[boltz.Entity]
	rolesSym boltz.EntitySetSymbol
}

func c14BuildStores() *c14Stores {
	s := &c14Stores{}
	// both stores are handed the same base path slice, assembled by append (so it has spare capacity)
	base := append(make([]string, 0, 4), "root")
	s.as = boltz.NewBaseStore(boltz.StoreDefinition[boltz.Entity]{EntityType: "as", BasePath: base})
	s.bs = boltz.NewBaseStore(boltz.StoreDefinition[boltz.Entity]{EntityType: "bs", BasePath: base})
	s.as.AddIdSymbol("id", ast.NodeTypeString)
	s.bs.AddIdSymbol("id", ast.NodeTypeString)
	s.rolesSym = s.as.AddSetSymbol("roles", ast.NodeTypeString)
	s.rolesIdx = s.as.AddSetIndex(s.rolesSym)
	la := s.as.AddFkSetSymbol("blinks", s.bs)
	lb := s.bs.AddFkSetSymbol("alinks", s.as)
	s.links = s.as.AddLinkCollection(la, lb)
	ra := s.as.AddFkSetSymbol("rcb", s.bs)
	rb := s.bs.AddFkSetSymbol("rca", s.as)
	s.rcLinks = s.as.AddRefCountedLinkCollection(ra, rb)
	// an extended child store over "as" for IterateValidIds
	s.extStore = boltz.NewBaseStore(boltz.StoreDefinition[boltz.Entity]{BasePath: []string{"ext"}, Parent: s.as}).Extended()
	return s
}

func typedKey(s string) []byte { return boltz.PrependFieldType(boltz.TypeString, []byte(s)) }

// buildCursor prepares the database content for the case and returns a constructor for fresh cursors plus the
// expected enumeration (in the order the cursor must produce it).
func buildCursor(c c14Case, db *bbolt.DB) (open func(tx *bbolt.Tx) ast.SetCursor, expect []string, err error) {
	open, _, expect, err = buildCursor2(c, db)
	return
}

// buildCursor2 additionally returns, for the set-symbol-runtime kind, a constructor for a cursor of the same set
// symbol (looked up again on the same store) on another row.
func buildCursor2(c c14Case, db *bbolt.DB) (open, second func(tx *bbolt.Tx) ast.SetCursor, expect []string, err error) {
	s := c14BuildStores()
	second = func(tx *bbolt.Tx) ast.SetCursor {
		return s.as.GetSymbol("roles").(boltz.RuntimeEntitySetSymbol).OpenCursor(tx, []byte("a2"))
	}
	asc := dedupSorted(c.Elems)
	expect = asc
	if c.Reverse {
		expect = reverseStrings(asc)
	}
	fwd := !c.Reverse
	put := func(typedKeys bool, path ...string) error {
		return db.Update(func(tx *bbolt.Tx) error {
			b := boltz.GetOrCreatePath(tx, path...)
			if b.HasError() {
				return b.GetError()
			}
			for _, e := range asc {
				k := []byte(e)
				if typedKeys {
					k = typedKey(e)
				}
				if err := b.Put(k, nil); err != nil {
					return err
				}
			}
			return nil
		})
	}
	switch c.Kind {
	case "bolt":
		err = put(false, "raw", "set")
		open = func(tx *bbolt.Tx) ast.SetCursor {
			return boltz.NewBoltCursor(boltz.Path(tx, "raw", "set").Cursor(), fwd)
		}
	case "open-seekable":
		err = put(false, "raw", "set")
		open = func(tx *bbolt.Tx) ast.SetCursor { return boltz.Path(tx, "raw", "set").OpenSeekableCursor() }
	case "open-cursor":
		err = put(false, "raw", "set")
		open = func(tx *bbolt.Tx) ast.SetCursor { return boltz.Path(tx, "raw", "set").OpenCursor(tx, fwd) }
	case "iterate-string-list":
		err = put(true, "raw", "set")
		open = func(tx *bbolt.Tx) ast.SetCursor { return boltz.Path(tx, "raw", "set").IterateStringList() }
	case "iterate-string-list-dir":
		err = put(true, "raw", "set")
		open = func(tx *bbolt.Tx) ast.SetCursor {
			return boltz.Path(tx, "raw", "set").IterateStringListInDirection(fwd)
		}
	case "open-typed-cursor":
		err = put(true, "raw", "set")
		open = func(tx *bbolt.Tx) ast.SetCursor { return boltz.Path(tx, "raw", "set").OpenTypedCursor(tx, fwd) }
	case "related-entities":
		err = put(true, "root", "as", "a1", "blinks")
		open = func(tx *bbolt.Tx) ast.SetCursor { return s.as.GetRelatedEntitiesCursor(tx, "a1", "blinks", fwd) }
	case "link-iterate":
		err = put(true, "root", "as", "a1", "blinks")
		open = func(tx *bbolt.Tx) ast.SetCursor { return s.links.IterateLinks(tx, []byte("a1")) }
	case "link-setlinks":
		// the link set is established through the collection itself: linked to Elems first, then set to Elems2
		now := dedupSorted(c.Elems2)
		expect = now
		err = db.Update(func(tx *bbolt.Tx) error {
			boltz.GetOrCreatePath(tx, "root", "as", "a1")
			for _, e := range dedupSorted(append(append([][]byte{}, c.Elems...), c.Elems2...)) {
				if b := boltz.GetOrCreatePath(tx, "root", "bs", e); b.HasError() {
					return b.GetError()
				}
			}
			if err := s.links.AddLinks(tx, "a1", asc...); err != nil {
				return err
			}
			return s.links.SetLinks(tx, "a1", reverseStrings(now))
		})
		open = func(tx *bbolt.Tx) ast.SetCursor { return s.links.IterateLinks(tx, []byte("a1")) }
	case "link-add-remove-in-tx":
		// single links are added and some of them removed again inside the same transaction
		gone := map[string]bool{}
		for _, e := range dedupSorted(c.Elems2) {
			gone[e] = true
		}
		expect = nil
		for _, e := range asc {
			if !gone[e] {
				expect = append(expect, e)
			}
		}
		err = db.Update(func(tx *bbolt.Tx) error {
			boltz.GetOrCreatePath(tx, "root", "as", "a1")
			for _, e := range asc {
				if b := boltz.GetOrCreatePath(tx, "root", "bs", e); b.HasError() {
					return b.GetError()
				}
				if _, err := s.links.AddLink(tx, []byte("a1"), []byte(e)); err != nil {
					return err
				}
			}
			for _, e := range asc {
				if gone[e] {
					if _, err := s.links.RemoveLink(tx, []byte("a1"), []byte(e)); err != nil {
						return err
					}
				}
			}
			return nil
		})
		open = func(tx *bbolt.Tx) ast.SetCursor { return s.links.IterateLinks(tx, []byte("a1")) }
	case "rc-link-iterate":
		err = db.Update(func(tx *bbolt.Tx) error {
			b := boltz.GetOrCreatePath(tx, "root", "as", "a1", "rcb")
			for _, e := range asc {
				b.SetInt32(string(typedKey(e)), 2, nil)
			}
			return b.GetError()
		})
		open = func(tx *bbolt.Tx) ast.SetCursor { return s.rcLinks.IterateLinks(tx, []byte("a1"), fwd) }
	case "setindex-value":
		err = put(true, "root", boltz.IndexesBucket, "as", "roles", "role-x")
		open = func(tx *bbolt.Tx) ast.SetCursor { return s.rolesIdx.OpenValueCursor(tx, []byte("role-x"), fwd) }
	case "setindex-keys":
		err = db.Update(func(tx *bbolt.Tx) error {
			b := boltz.GetOrCreatePath(tx, "root", boltz.IndexesBucket, "as", "roles")
			for _, e := range asc {
				if nb := b.GetOrCreateBucket(e); nb.HasError() {
					return nb.GetError()
				}
			}
			return b.GetError()
		})
		open = func(tx *bbolt.Tx) ast.SetCursor { return s.rolesIdx.OpenKeyCursor(tx, fwd) }
	case "set-symbol-runtime":
		err = put(true, "root", "as", "a1", "roles")
		if err == nil {
			// a second row with a set of its own, for the interleaved cursor of step 2
			err = db.Update(func(tx *bbolt.Tx) error {
				b := boltz.GetOrCreatePath(tx, "root", "as", "a2", "roles")
				for _, e := range []string{"other1", "other2", "other3"} {
					if err := b.Put(typedKey(e), nil); err != nil {
						return err
					}
				}
				return b.GetError()
			})
		}
		open = func(tx *bbolt.Tx) ast.SetCursor {
			rt := s.as.GetSymbol("roles").(boltz.RuntimeEntitySetSymbol)
			return rt.OpenCursor(tx, []byte("a1"))
		}
	case "iterate-ids", "iterate-valid-ids":
		err = db.Update(func(tx *bbolt.Tx) error {
			b := boltz.GetOrCreatePath(tx, "root", "as")
			for i, e := range asc {
				eb := b.GetOrCreateBucket(e)
				if eb.HasError() {
					return eb.GetError()
				}
				if c.Kind == "iterate-valid-ids" && i%3 == 2 {
					// every third entity has extended data (the first two do not); IterateValidIds of the extended store lists only those
					eb.GetOrCreatePath("ext")
				}
			}
			return b.GetError()
		})
		if c.Kind == "iterate-valid-ids" {
			expect = nil
			for i, e := range asc {
				if i%3 == 2 {
					expect = append(expect, e)
				}
			}
		}
		if c.Kind == "iterate-ids" {
			open = func(tx *bbolt.Tx) ast.SetCursor { return s.as.IterateIds(tx, ast.BoolNodeTrue) }
		} else {
			open = func(tx *bbolt.Tx) ast.SetCursor { return s.extStore.IterateValidIds(tx, ast.BoolNodeTrue) }
		}
	case "empty":
		expect = nil
		if c.Reverse {
			open = func(tx *bbolt.Tx) ast.SetCursor { return ast.OpenEmptyCursor(tx, false) }
		} else {
			open = func(tx *bbolt.Tx) ast.SetCursor { return ast.NewEmptyCursor() }
		}
	case "filtered":
		err = put(true, "raw", "set")
		reject := map[string]bool{}
		for _, e := range c.Elems2 {
			reject[string(e)] = true
		}
		expect = nil
		for _, e := range asc {
			if !reject[e] {
				expect = append(expect, e)
			}
		}
		open = func(tx *bbolt.Tx) ast.SetCursor {
			return ast.NewFilteredCursor(boltz.Path(tx, "raw", "set").IterateStringList(), func(val []byte) bool { return !reject[string(val)] })
		}
	case "treeset":
		open = func(tx *bbolt.Tx) ast.SetCursor {
			set := ast.NewTreeSet(fwd)
			for _, e := range c.Elems { // with duplicates, insertion order as drawn
				set.Add([]byte(e))
			}
			return set.ToCursor()
		}
	case "union":
		second := dedupSorted(c.Elems2)
		expect = dedupSorted(append(append([][]byte{}, c.Elems...), c.Elems2...))
		if c.Reverse {
			expect = reverseStrings(expect)
		}
		err = db.Update(func(tx *bbolt.Tx) error {
			b1 := boltz.GetOrCreatePath(tx, "raw", "set")
			b2 := boltz.GetOrCreatePath(tx, "raw", "set2")
			for _, e := range asc {
				if err := b1.Put(typedKey(e), nil); err != nil {
					return err
				}
			}
			for _, e := range second {
				if err := b2.Put(typedKey(e), nil); err != nil {
					return err
				}
			}
			return nil
		})
		open = func(tx *bbolt.Tx) ast.SetCursor {
			return ast.NewUnionSetCursor(boltz.Path(tx, "raw", "set").OpenTypedCursor(tx, fwd), boltz.Path(tx, "raw", "set2").OpenTypedCursor(tx, fwd), fwd)
		}
	case "matching-allof", "matching-anyof":
		err = db.Update(func(tx *bbolt.Tx) error {
			for id, roles := range c.Roles {
				eb := boltz.GetOrCreatePath(tx, "root", "as", id)
				eb.SetStringList("roles", roles, nil)
				for _, r := range roles {
					boltz.GetOrCreatePath(tx, "root", boltz.IndexesBucket, "as", "roles", r).SetListEntry(boltz.TypeString, []byte(id))
				}
				if eb.HasError() {
					return eb.GetError()
				}
			}
			boltz.GetOrCreatePath(tx, "root", boltz.IndexesBucket, "as", "roles")
			return nil
		})
		expect = nil
		for id, roles := range c.Roles {
			has := map[string]bool{}
			for _, r := range roles {
				has[r] = true
			}
			all, any := len(c.Values) > 0, false
			for _, v := range c.Values {
				if has[v] {
					any = true
				} else {
					all = false
				}
			}
			if c.Kind == "matching-allof" && all || c.Kind == "matching-anyof" && any {
				expect = append(expect, id)
			}
		}
		sort.Strings(expect)
		if c.Reverse {
			expect = reverseStrings(expect)
		}
		open = func(tx *bbolt.Tx) ast.SetCursor {
			if c.Kind == "matching-allof" {
				return s.as.IteratorMatchingAllOf(s.rolesIdx, c.Values)(tx, fwd)
			}
			return s.as.IteratorMatchingAnyOf(s.rolesIdx, c.Values)(tx, fwd)
		}
	default:
		err = fmt.Errorf("unknown cursor kind %s", c.Kind)
	}
	return
}

func runC14(c c14Case) kit.Result {
	res := kit.Result{Classes: []string{"kind:" + c.Kind, fmt.Sprintf("reverse:%v", c.Reverse)}}
	db := kit.NewRawDB()
	defer db.Close()
	open, second, expect, err := buildCursor2(c, db.DB)
	if err != nil {
		res.Err = fmt.Errorf("harness: preparing the set: %v", err)
		return res
	}
	hasEmptyElem := false
	for _, e := range expect {
		if e == "" {
			hasEmptyElem = true
		}
	}
	seekAbsent := false
	label := fmt.Sprintf("cursor %s (reverse=%v) over %q", c.Kind, c.Reverse, expect)
	view := db.DB.View
	if c.WriteTx {
		// cursors only read: inside a writing transaction they enumerate the same set
		view = db.DB.Update
		res.Classes = append(res.Classes, "inside-write-tx")
	}
	res.Err = view(func(tx *bbolt.Tx) error {
		if c.Kind == "setindex-value" || c.Kind == "setindex-keys" {
			// looking up values nobody holds gives empty cursors and leaves the index as it is
			s := c14BuildStores()
			for _, v := range []string{"zz-nobody", "a-nobody", "role-"} {
				if probe := s.rolesIdx.OpenValueCursor(tx, []byte(v), !c.Reverse); probe == nil || probe.IsValid() {
					return fmt.Errorf("%s: OpenValueCursor for the value %q, which no entity holds, is not an invalid cursor", label, v)
				}
			}
		}
		if c.Kind == "matching-allof" || c.Kind == "matching-anyof" {
			// the list forms of the same look-up (FindMatching / FindMatchingAnyOf) name the same entities
			s := c14BuildStores()
			var listed []string
			if c.Kind == "matching-allof" {
				listed = s.as.FindMatching(tx, s.rolesIdx, c.Values)
			} else {
				listed = s.as.FindMatchingAnyOf(tx, s.rolesIdx, c.Values)
			}
			sort.Strings(listed)
			want := append([]string(nil), expect...)
			sort.Strings(want)
			if fmt.Sprintf("%q", listed) != fmt.Sprintf("%q", want) && !(len(listed) == 0 && len(want) == 0) {
				return fmt.Errorf("%s: the list form of the look-up for %q returned %q", label, c.Values, listed)
			}
		}
		// 1. full enumeration from a fresh cursor
		cur := open(tx)
		if cur == nil {
			return fmt.Errorf("%s: constructor returned nil", label)
		}
		var got []string
		for i := 0; cur.IsValid(); i++ {
			if i > len(expect)+3 {
				return fmt.Errorf("%s: enumeration does not terminate (%q ...)", label, got)
			}
			got = append(got, string(cur.Current()))
			cur.Next()
		}
		if fmt.Sprintf("%q", got) != fmt.Sprintf("%q", expect) && !(len(got) == 0 && len(expect) == 0) {
			return fmt.Errorf("%s: enumerated %q", label, got)
		}
		// 2. a walk of Next / Seek steps against a position model
		cur = open(tx)
		pos := 0
		seeker, seekable := cur.(ast.SeekableSetCursor)
		typeSeeker, typeSeekable := cur.(ast.TypeSeekableSetCursor)
		var trace []string
		for si, st := range c.Steps {
			if c.Kind == "set-symbol-runtime" && si%2 == 1 {
				// while this cursor is open, the same set symbol is looked up again and iterated on another row (what a
				// nested scan over the same store does); the open cursor must not notice
				other := second(tx)
				var og []string
				for n := 0; other.IsValid() && n < 10; n++ {
					og = append(og, string(other.Current()))
					other.Next()
				}
				if fmt.Sprint(og) != "[other1 other2 other3]" {
					return fmt.Errorf("%s: a second cursor of the same set symbol on row a2 enumerated %q", label, og)
				}
				trace = append(trace, "(second cursor on another row drained)")
			}
			if st.Seek {
				if !seekable {
					continue
				}
				if c.Kind == "empty" {
					seeker.Seek(st.V)
				} else if typeSeekable && c.Kind == "set-symbol-runtime" {
					typeSeeker.SeekToString(string(st.V))
				} else {
					seeker.Seek(st.V)
				}
				trace = append(trace, fmt.Sprintf("Seek(%q)", st.V))
				pos = len(expect)
				for i, e := range expect {
					if !c.Reverse && e >= string(st.V) || c.Reverse && e <= string(st.V) {
						pos = i
						break
					}
				}
				present := false
				for _, e := range expect {
					if e == string(st.V) {
						present = true
					}
				}
				if !present && len(expect) >= 2 {
					seekAbsent = true
				}
			} else {
				if pos >= len(expect) {
					continue // Next only while valid
				}
				cur.Next()
				trace = append(trace, "Next")
				pos++
			}
			valid := pos < len(expect)
			if cur.IsValid() != valid {
				return fmt.Errorf("%s: after %v IsValid = %v, expected %v (position %d)", label, trace, cur.IsValid(), valid, pos)
			}
			if valid && !bytes.Equal(cur.Current(), []byte(expect[pos])) {
				return fmt.Errorf("%s: after %v Current = %q, expected %q", label, trace, cur.Current(), expect[pos])
			}
		}
		if seekable {
			res.Classes = append(res.Classes, "seekable")
		}
		// 3. a runtime set symbol is re-used from row to row by the engine: re-opened on a row without that set it
		// must be invalid whatever position the previous walk left it in
		if c.Kind == "set-symbol-runtime" {
			if rt, ok := cur.(boltz.RuntimeEntitySetSymbol); ok {
				for _, row := range []string{"row-without-bucket", "a1"} {
					again := rt.OpenCursor(tx, []byte(row))
					wantValid := row == "a1" && len(expect) > 0
					if again.IsValid() != wantValid {
						return fmt.Errorf("%s: after %v the same runtime symbol re-opened on row %q reports IsValid=%v, expected %v", label, trace, row, again.IsValid(), wantValid)
					}
					if wantValid && !bytes.Equal(again.Current(), []byte(expect[0])) {
						return fmt.Errorf("%s: re-opened on row %q Current = %q, expected %q", label, row, again.Current(), expect[0])
					}
				}
				res.Classes = append(res.Classes, "runtime-symbol-reopened")
			}
		}
		return nil
	})
	res.NonTrivial = seekAbsent || hasEmptyElem || len(expect) == 0
	if hasEmptyElem {
		res.Classes = append(res.Classes, "contains-empty-string")
	}
	if len(expect) == 0 {
		res.Classes = append(res.Classes, "empty-set")
	}
	return res
}

func TestC14(t *testing.T) {
	kit.Execute(t, kit.Spec[c14Case]{
		ID:    "C14",
		Level: "exploration",
		Rule: "rapid draws a cursor kind out of 20 (raw bolt forward/reverse, OpenSeekableCursor, OpenCursor, IterateStringList, IterateStringListInDirection, OpenTypedCursor, GetRelatedEntitiesCursor, link IterateLinks, ref-counted IterateLinks, set-index OpenValueCursor / OpenKeyCursor, set-symbol runtime cursor, IterateIds, IterateValidIds of an extended store, empty cursors, NewFilteredCursor, TreeSet.ToCursor, NewUnionSetCursor, IteratorMatchingAllOf / AnyOf), a direction where the kind has one, a set of 0-8 byte strings over {'', a, a\\x00, ab, b, B, \\xff, \\xff\\xff, a\\xff, \\x05, \\x07x} (no empty element where elements are bbolt keys) and 0-10 Next / Seek(v) steps (v present, absent, empty, beyond the last). " +
			"Oracle: a sorted-slice model with a position: the full enumeration equals the set once each in key order (descending for reverse), and after every step IsValid and Current (untagged bytes) equal the model; Next is only issued while valid. " +
			"Also generated: elements longer than 64 bytes with long common prefixes, a second cursor of the same set symbol opened and drained on another row in mid-walk, the runtime symbol re-opened on other rows after every walk. " +
			"Non-trivial: >= 2 elements with a seek to an absent value, or the set contains the empty string, or the set is empty. Distinct by hash of the case JSON.",
		Assumptions: []string{"the set-symbol runtime cursor is sought with SeekToString (the form the engine uses); its raw Seek is not exercised"},
		Gen:         genC14, Run: runC14,
		CaseTimeout: 5 * time.Minute,
		QuickChecks: 40000, ThoroughFactor: 8,
	})
}
