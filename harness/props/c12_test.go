package props

import (
	"fmt"
	"strings"
	"testing"
	"time"

	"github.com/openziti/storage/ast"
	"github.com/openziti/storage/zitiql"
	"go.etcd.io/bbolt"
	"pgregory.net/rapid"

	"verif/kit"
)

// C12 — boolean connectives group as written: parentheses, precedence, case, spacing.

// Skel is a boolean skeleton over atoms 0..n-1.
type Skel struct {
	Op    string  `json:"op"` // atom and or not
	Atom  int     `json:"atom,omitempty"`
	Kids  []*Skel `json:"kids,omitempty"`
	Extra int     `json:"extra,omitempty"` // redundant parenthesis layers around this node
}

func (s *Skel) eval(assign uint) bool {
	switch s.Op {
	case "atom":
		return assign&(1<<uint(s.Atom)) != 0
	case "and":
		return s.Kids[0].eval(assign) && s.Kids[1].eval(assign)
	case "or":
		return s.Kids[0].eval(assign) || s.Kids[1].eval(assign)
	case "not":
		return !s.Kids[0].eval(assign)
	}
	panic("bad skel")
}

func (s *Skel) atoms() int {
	if s.Op == "atom" {
		return s.Atom + 1
	}
	m := 0
	for _, k := range s.Kids {
		if a := k.atoms(); a > m {
			m = a
		}
	}
	return m
}

// features reports whether an 'and' is written directly under an 'or' without separating parentheses
// (the spelling "a and b or c"), and whether 'not' occurs.
func (s *Skel) features(full bool) (mixed, hasNot bool) {
	var walk func(n *Skel)
	walk = func(n *Skel) {
		if n.Op == "not" {
			hasNot = true
		}
		if n.Op == "or" && !full {
			for _, k := range n.Kids {
				if k.Op == "and" && k.Extra == 0 {
					mixed = true
				}
			}
		}
		for _, k := range n.Kids {
			walk(k)
		}
	}
	walk(s)
	return
}

var c12AtomNames = []string{"a", "b", "c", "d", "e", "f", "g", "h"}

// items renders the skeleton. full=false: only the parentheses standard precedence requires ("and" over "or",
// chains of one connective flat); "not" is always written not (P) and wrapped when it is an operand.
func (s *Skel) items(atom func(i int) []kit.Item, full bool, parent string) []kit.Item {
	var inner []kit.Item
	switch s.Op {
	case "atom":
		inner = atom(s.Atom)
	case "not":
		inner = []kit.Item{kit.Kw("not"), kit.WsPlus(), kit.Punct("("), kit.WsStar()}
		inner = append(inner, s.Kids[0].items(atom, full, "")...)
		inner = append(inner, kit.WsStar(), kit.Punct(")"))
	case "and", "or":
		inner = append(inner, s.Kids[0].items(atom, full, s.Op)...)
		inner = append(inner, kit.WsPlus(), kit.Kw(s.Op), kit.WsPlus())
		inner = append(inner, s.Kids[1].items(atom, full, s.Op)...)
	}
	layers := s.Extra
	need := false
	switch {
	case parent == "":
	case s.Op == "not":
		need = true
	case s.Op == "atom":
		need = full
	case full:
		need = true
	case parent == "and" && s.Op == "or":
		need = true
	}
	if need {
		layers++
	}
	for i := 0; i < layers; i++ {
		w := []kit.Item{kit.Punct("("), kit.WsStar()}
		w = append(w, inner...)
		inner = append(w, kit.WsStar(), kit.Punct(")"))
	}
	return inner
}

// boolSyms: a symbol table of bool symbols a..h with a truth assignment
type boolSyms struct{ assign uint }

func (s boolSyms) idx(name string) int {
	for i, n := range c12AtomNames {
		if n == name {
			return i
		}
	}
	return -1
}
func (s boolSyms) GetSymbolType(name string) (ast.NodeType, bool) {
	if name == "zn" {
		return ast.NodeTypeInt64, true // an int symbol whose value is always null
	}
	return ast.NodeTypeBool, s.idx(name) >= 0
}
func (s boolSyms) GetSetSymbolTypes(string) ast.SymbolTypes { return nil }
func (s boolSyms) IsSet(name string) (bool, bool)           { return false, s.idx(name) >= 0 || name == "zn" }
func (s boolSyms) EvalBool(name string) *bool {
	b := s.assign&(1<<uint(s.idx(name))) != 0
	return &b
}
func (s boolSyms) EvalString(string) *string                             { return nil }
func (s boolSyms) EvalInt64(string) *int64                               { return nil }
func (s boolSyms) EvalFloat64(string) *float64                           { return nil }
func (s boolSyms) EvalDatetime(string) *time.Time                        { return nil }
func (s boolSyms) IsNil(name string) bool                                { return name == "zn" }
func (s boolSyms) OpenSetCursor(string) ast.SetCursor                    { return ast.NewEmptyCursor() }
func (s boolSyms) OpenSetCursorForQuery(string, ast.Query) ast.SetCursor { return ast.NewEmptyCursor() }

type c12Case struct {
	Skel *Skel `json:"skel"`
	Full bool  `json:"full,omitempty"` // render with every operand parenthesised
	// Spelling choices (empty = canonical): whitespace per slot and upper-case mask per keyword
	Ws    []string `json:"ws,omitempty"`
	Upper []uint   `json:"upper,omitempty"`
	// store variant: atoms are real comparisons over a dataset and the re-spelling must not change QueryIds
	Data  *kit.Dataset `json:"data,omitempty"`
	Atoms []*kit.Expr  `json:"atoms,omitempty"`
	// DiagnosticParseFirst: the text is first put through the parser's diagnostic entry point (zitiql.ParseWithDebug),
	// as somebody looking at what the parser makes of a filter would do; the ordinary parses come afterwards
	DiagnosticParseFirst bool `json:"diagnosticParseFirst,omitempty"`
}

func spellChoice(c *c12Case) kit.SpellChoice {
	ch := kit.SpellChoice{}
	if len(c.Ws) > 0 {
		ch.Ws = func(kind byte, idx int) string {
			s := c.Ws[idx%len(c.Ws)]
			switch kind {
			case '+':
				if s == "" {
					return " "
				}
			case '1':
				if s == "" {
					return " "
				}
				return s[:1]
			}
			return s
		}
	}
	if len(c.Upper) > 0 {
		ch.Case = func(word string, idx int) string {
			mask := c.Upper[idx%len(c.Upper)]
			out := []byte(strings.ToLower(word))
			for i := range out {
				if mask&(1<<uint(i%16)) != 0 && out[i] >= 'a' && out[i] <= 'z' {
					out[i] -= 32
				}
			}
			return string(out)
		}
	}
	return ch
}

func runC12(c c12Case) kit.Result {
	res := kit.Result{}
	n := c.Skel.atoms()
	mixed, hasNot := c.Skel.features(c.Full)
	respelled := len(c.Ws) > 0 || len(c.Upper) > 0 || c.Full
	res.NonTrivial = mixed || hasNot || respelled
	if mixed {
		res.Classes = append(res.Classes, "mixed-and-or-unparenthesised")
	}
	if hasNot {
		res.Classes = append(res.Classes, "has-not")
	}
	if respelled {
		res.Classes = append(res.Classes, "re-spelled")
	}
	res.Classes = append(res.Classes, fmt.Sprintf("atoms:%d", n))

	symAtom := func(i int) []kit.Item { return []kit.Item{kit.Sym(c12AtomNames[i])} }
	canonical := kit.Spell(c.Skel.items(symAtom, false, ""), kit.SpellChoice{})
	text := kit.Spell(c.Skel.items(symAtom, c.Full, ""), spellChoice(&c))
	text = pad(&c, text)

	if c.DiagnosticParseFirst {
		_ = zitiql.ParseWithDebug(text, ast.NewListener(), true)
		res.Classes = append(res.Classes, "after-diagnostic-parse")
	}
	q, err := ast.Parse(boolSyms{}, text)
	if err != nil {
		res.Err = fmt.Errorf("skeleton %q (spelled %q) rejected: %v", canonical, text, err)
		return res
	}
	for assign := uint(0); assign < 1<<uint(n); assign++ {
		want := c.Skel.eval(assign)
		if got := q.EvalBool(boolSyms{assign}); got != want {
			res.Err = fmt.Errorf("query %q (skeleton %s) under assignment %0*b (bit i = atom %s..): got %v, standard grouping gives %v", text, canonical, n, assign, "a", got, want)
			return res
		}
	}

	// the parser's debug switch only adds diagnostics: the query means the same with it
	if n <= 3 && !respelled {
		ast.EnableQueryDebug.Store(true)
		dq, derr := ast.Parse(boolSyms{}, text)
		ast.EnableQueryDebug.Store(false)
		if derr != nil {
			res.Err = fmt.Errorf("skeleton %q is rejected when ast.EnableQueryDebug is on: %v", canonical, derr)
			return res
		}
		for assign := uint(0); assign < 1<<uint(n); assign++ {
			if got, want := dq.EvalBool(boolSyms{assign}), c.Skel.eval(assign); got != want {
				res.Err = fmt.Errorf("query %q parsed with ast.EnableQueryDebug on, assignment %0*b: got %v, standard grouping gives %v", text, n, assign, got, want)
				return res
			}
		}
	}
	// the same skeleton with constant atoms, one query per assignment: an atom that is true under the assignment is
	// spelled as a constant-true atom, a false one as a constant-false atom. Three families of spellings: the literals
	// true / false; a range test on an always-null number (null makes "between" false and "not between" true); both
	// alternating by atom position. The value of the query must be the skeleton's value under that assignment.
	if n <= 3 && !respelled {
		// (skeletons of up to three atoms in their canonical spelling: parsing is the expensive part)
		for fam := 0; fam < 3; fam++ {
			for assign := uint(0); assign < 1<<uint(n); assign++ {
				constAtom := func(i int) []kit.Item {
					val := assign&(1<<uint(i)) != 0
					if fam == 0 || fam == 2 && i%2 == 0 {
						return []kit.Item{kit.Kw(map[bool]string{true: "true", false: "false"}[val])}
					}
					items := []kit.Item{kit.Sym("zn"), kit.WsPlus()}
					if val {
						items = append(items, kit.Kw("not"), kit.WsPlus())
					}
					return append(items, kit.Kw("between"), kit.WsPlus(), kit.Lit("1"), kit.WsPlus(), kit.Kw("and"), kit.WsPlus(), kit.Lit("3"))
				}
				ctext := pad(&c, kit.Spell(c.Skel.items(constAtom, c.Full, ""), spellChoice(&c)))
				cq, err := ast.Parse(boolSyms{}, ctext)
				if err != nil {
					res.Err = fmt.Errorf("skeleton %q with constant atoms (spelled %q) rejected: %v", canonical, ctext, err)
					return res
				}
				if got, want := cq.EvalBool(boolSyms{}), c.Skel.eval(assign); got != want {
					res.Err = fmt.Errorf("query %q (skeleton %s with its atoms replaced by constants for assignment %0*b): got %v, standard grouping gives %v", ctext, canonical, n, assign, got, want)
					return res
				}
			}
		}
		res.Classes = append(res.Classes, "constant-atom-spellings")
	}

	if c.Data != nil && len(c.Atoms) >= n {
		res.Classes = append(res.Classes, "store-variant")
		cmpAtom := func(i int) []kit.Item { return c.Atoms[i].Items() }
		canon := kit.Spell(c.Skel.items(cmpAtom, true, ""), kit.SpellChoice{})
		spelled := pad(&c, kit.Spell(c.Skel.items(cmpAtom, c.Full, ""), spellChoice(&c)))
		db := kit.NewRawDB()
		defer db.Close()
		schema := kit.NewScanSchema(c.Data.Variant)
		if err := schema.Write(db.DB, c.Data); err != nil {
			res.Err = err
			return res
		}
		res.Err = db.DB.View(func(tx *bbolt.Tx) error {
			ids1, n1, err1 := schema.People.QueryIds(tx, canon)
			if err1 != nil {
				return fmt.Errorf("canonical query %q rejected: %v", canon, err1)
			}
			ids2, n2, err2 := schema.People.QueryIds(tx, spelled)
			if err2 != nil {
				return fmt.Errorf("re-spelling %q of %q rejected: %v", spelled, canon, err2)
			}
			if fmt.Sprint(ids1) != fmt.Sprint(ids2) || n1 != n2 {
				return fmt.Errorf("re-spelling changed the result:\n  %q -> %v\n  %q -> %v", canon, ids1, spelled, ids2)
			}
			// and the result is the one the skeleton prescribes, given each atom's own answer
			var atomIDs []map[string]bool
			for i := 0; i < n; i++ {
				ids, _, err := schema.People.QueryIds(tx, c.Atoms[i].Render())
				if err != nil {
					return fmt.Errorf("atom %q rejected: %v", c.Atoms[i].Render(), err)
				}
				m := map[string]bool{}
				for _, id := range ids {
					m[id] = true
				}
				atomIDs = append(atomIDs, m)
			}
			var want []string
			for _, id := range idsOf(c.Data, "people") {
				var assign uint
				for i := 0; i < n; i++ {
					if atomIDs[i][id] {
						assign |= 1 << uint(i)
					}
				}
				if c.Skel.eval(assign) {
					want = append(want, id)
				}
			}
			if fmt.Sprint(want) != fmt.Sprint(ids2) {
				return fmt.Errorf("query %q -> %v, but combining the atoms' own answers by the skeleton gives %v", spelled, ids2, want)
			}
			// the shortest filters in several spellings, through the child store (only people with child data): letter
			// case, blanks and redundant parentheses change nothing
			for _, group := range [][]string{{"true limit none", "TRUE limit none", "true  limit none", "(true) limit none", "true LIMIT NONE", " true limit none"},
				{"true", "TRUE", "(true)", " true ", "((true))"}, {"false", "False", "(false)"}} {
				var first string
				for i, sp := range group {
					idsS, nS, errS := schema.Staff.QueryIds(tx, sp)
					got := fmt.Sprintf("%v count %d err %v", idsS, nS, errS != nil)
					if i == 0 {
						first = got
					} else if got != first {
						return fmt.Errorf("through the child store the filter %q gives %s, its re-spelling %q gives %s", group[0], first, sp, got)
					}
				}
			}
			return nil
		})
	}
	return res
}

// pad adds leading/trailing whitespace when the case has whitespace choices (the grammar allows WS* at both ends)
func pad(c *c12Case, text string) string {
	if len(c.Ws) >= 2 {
		return c.Ws[0] + text + c.Ws[1]
	}
	return text
}

// enumerate all skeletons with exactly n leaves (atoms numbered left to right), every and/or choice and every
// placement of "not" on leaves and inner nodes.
func enumSkels(n int, yield func(*Skel) bool) bool {
	var shapes func(lo, hi int) []*Skel
	shapes = func(lo, hi int) []*Skel {
		if hi-lo == 1 {
			return []*Skel{{Op: "atom", Atom: lo}}
		}
		var out []*Skel
		for mid := lo + 1; mid < hi; mid++ {
			for _, l := range shapes(lo, mid) {
				for _, r := range shapes(mid, hi) {
					for _, op := range []string{"and", "or"} {
						out = append(out, &Skel{Op: op, Kids: []*Skel{l, r}})
					}
				}
			}
		}
		return out
	}
	for _, base := range shapes(0, n) {
		// collect node pointers in pre-order; choose a subset to negate
		var count func(s *Skel) int
		count = func(s *Skel) int {
			c := 1
			for _, k := range s.Kids {
				c += count(k)
			}
			return c
		}
		total := count(base)
		for mask := 0; mask < 1<<uint(total); mask++ {
			idx := 0
			var build func(s *Skel) *Skel
			build = func(s *Skel) *Skel {
				me := idx
				idx++
				c := &Skel{Op: s.Op, Atom: s.Atom}
				for _, k := range s.Kids {
					c.Kids = append(c.Kids, build(k))
				}
				if mask&(1<<uint(me)) != 0 {
					return &Skel{Op: "not", Kids: []*Skel{c}}
				}
				return c
			}
			if !yield(build(base)) {
				return false
			}
		}
	}
	return true
}

func exhaustiveC12(maxAtoms int) func(yield func(c c12Case) bool) {
	return func(yield func(c c12Case) bool) {
		for n := 1; n <= maxAtoms; n++ {
			ok := enumSkels(n, func(s *Skel) bool {
				if !yield(c12Case{Skel: s}) {
					return false
				}
				if !yield(c12Case{Skel: s, Full: true}) {
					return false
				}
				// one redundant layer around each child of the root in turn (depth <= 1)
				if s.Op == "and" || s.Op == "or" {
					for i := range s.Kids {
						cp := *s
						cp.Kids = append([]*Skel(nil), s.Kids...)
						k := *s.Kids[i]
						k.Extra = 1
						cp.Kids[i] = &k
						if !yield(c12Case{Skel: &cp}) {
							return false
						}
					}
				}
				return true
			})
			if !ok {
				return
			}
		}
		// mirror pairs: two groupings of the SAME three atoms in the same order under one connective, e.g.
		// ((a or b) and c) or (a or (b and c)): the operands look alike but are different expressions
		var three []*Skel
		enumSkels(3, func(s *Skel) bool {
			if _, hasNot := s.features(false); !hasNot {
				three = append(three, s)
			}
			return true
		})
		for _, l := range three {
			for _, r := range three {
				for _, op := range []string{"and", "or"} {
					if !yield(c12Case{Skel: &Skel{Op: op, Kids: []*Skel{l, r}}}) {
						return
					}
				}
			}
		}
	}
}

func genSkel(t *rapid.T, l string, lo, hi int, depthNot int) *Skel {
	var s *Skel
	if hi-lo == 1 {
		s = &Skel{Op: "atom", Atom: lo}
	} else {
		mid := rapid.IntRange(lo+1, hi-1).Draw(t, l+"_mid")
		op := "and"
		if rapid.Bool().Draw(t, l+"_or") {
			op = "or"
		}
		s = &Skel{Op: op, Kids: []*Skel{genSkel(t, l+"l", lo, mid, depthNot), genSkel(t, l+"r", mid, hi, depthNot)}}
	}
	if rapid.IntRange(0, 9).Draw(t, l+"_extra") == 0 {
		s.Extra = rapid.IntRange(1, 2).Draw(t, l+"_layers")
	}
	if rapid.IntRange(0, 4).Draw(t, l+"_not") == 0 {
		s = &Skel{Op: "not", Kids: []*Skel{s}}
	}
	return s
}

func genC12(t *rapid.T) c12Case {
	n := rapid.IntRange(2, 8).Draw(t, "atoms")
	c := c12Case{Skel: genSkel(t, "s", 0, n, 0)}
	if rapid.IntRange(0, 9).Draw(t, "mirror") < 2 {
		// two different groupings / connective choices over the same atoms in the same order, joined by a connective
		k := rapid.IntRange(2, 4).Draw(t, "mirrorAtoms")
		left := genSkel(t, "ml", 0, k, 0)
		right := genSkel(t, "mr", 0, k, 0)
		op := "and"
		if rapid.Bool().Draw(t, "mirrorOr") {
			op = "or"
		}
		c.Skel = &Skel{Op: op, Kids: []*Skel{left, right}}
	} else if rapid.IntRange(0, 9).Draw(t, "repeatAtoms") < 4 {
		// the same atoms may occur several times (e.g. on both sides of a connective, grouped differently)
		pool := rapid.IntRange(2, 3).Draw(t, "atomPool")
		leaf := 0
		var remap func(s *Skel)
		remap = func(s *Skel) {
			if s.Op == "atom" {
				s.Atom = rapid.IntRange(0, pool-1).Draw(t, fmt.Sprintf("leaf%d", leaf))
				leaf++
			}
			for _, k := range s.Kids {
				remap(k)
			}
		}
		remap(c.Skel)
	}
	c.Full = rapid.IntRange(0, 4).Draw(t, "full") == 0
	if rapid.IntRange(0, 3).Draw(t, "respellWs") > 0 {
		k := rapid.IntRange(2, 7).Draw(t, "nWs")
		for i := 0; i < k; i++ {
			m := rapid.IntRange(0, 3).Draw(t, fmt.Sprintf("wslen%d", i))
			s := ""
			for j := 0; j < m; j++ {
				s += kit.WsChars[rapid.IntRange(0, 3).Draw(t, fmt.Sprintf("ws%d_%d", i, j))]
			}
			c.Ws = append(c.Ws, s)
		}
	}
	if rapid.IntRange(0, 3).Draw(t, "respellCase") > 0 {
		k := rapid.IntRange(1, 5).Draw(t, "nCase")
		for i := 0; i < k; i++ {
			c.Upper = append(c.Upper, uint(rapid.IntRange(0, 1<<10-1).Draw(t, fmt.Sprintf("mask%d", i))))
		}
	}
	if rapid.IntRange(0, 3).Draw(t, "storeVariant") == 0 && n <= 5 {
		c.Data = kit.GenDataset(t, 6, 2)
		depth, opts := 0, &kit.GenOpts{NoSubQuery: true}
		if rapid.IntRange(0, 2).Draw(t, "subQueryAtoms") == 0 {
			// the atoms are mostly sub-query set functions over one and the same link set, each with a predicate of its own
			depth, opts = 1, &kit.GenOpts{SelfLinks: true, Boost: map[string]int{"subcount": 60, "subempty": 60}}
		}
		for i := 0; i < n; i++ {
			c.Atoms = append(c.Atoms, kit.GenAtom(t, fmt.Sprintf("atom%d", i), "people", depth, opts))
		}
	}
	c.DiagnosticParseFirst = rapid.IntRange(0, 7).Draw(t, "diagnosticParseFirst") == 0
	return c
}

func TestC12(t *testing.T) {
	kit.Execute(t, kit.Spec[c12Case]{
		ID:    "C12",
		Level: "exploration",
		Rule: "Exhaustive part: every and/or/not skeleton with 1..4 atoms (all binary shapes x all connective choices x all placements of 'not' on leaves and inner nodes), each rendered (i) with the minimal parentheses standard precedence requires, (ii) with every operand parenthesised, (iii) with one redundant layer around each child of the root; all 2^n truth assignments are compared with the skeleton's own value. " +
			"Random part (rapid): skeletons with 2..8 leaves (40% of them re-using 2-3 atoms in several places), redundant layers, whitespace runs of space/tab/CR/LF in every WS+/WS* slot, per-letter keyword case; a quarter also instantiate the atoms with real comparisons over a stored dataset and require QueryIds(re-spelling) == QueryIds(canonical) == the skeleton applied to the atoms' own answers. " +
			"Skeletons of up to three atoms are also evaluated with constant atoms (the literals true / false, range tests on an always-null number) for every assignment, and with ast.EnableQueryDebug on; the exhaustive part includes mirror pairs (two groupings of the same three atoms under one connective). " +
			"Non-trivial: and/or mixed without separating parentheses, or a 'not', or a re-spelling. Distinct by hash of the case JSON.",
		Assumptions: []string{
			"'not' is always written not (P) and parenthesised when it is an operand of a connective: how a bare not binds against and/or is not stated by the property",
			"whitespace is only varied where the grammar has WS+/WS*; 'not in' keeps exactly one whitespace character",
		},
		Gen: genC12, Run: runC12,
		CaseTimeout: 5 * time.Minute,
		QuickChecks: 2500, ThoroughFactor: 15,
		ExhaustiveQuick: exhaustiveC12(4),
		Exhaustive:      exhaustiveC12(5),
	})
}
