package props

import (
	"fmt"
	"sort"
	"strings"
	"testing"
	"unicode"
	"unicode/utf8"

	"github.com/openziti/storage/ast"
	"github.com/openziti/storage/zitiql"
	"go.etcd.io/bbolt"
	"pgregory.net/rapid"

	"verif/kit"
)

// C11 — string literals denote exactly the intended string.

type c11Case struct {
	S    string   `json:"s"`    // intended value
	Near []string `json:"near"` // near-misses also stored in rows
	Op   string   `json:"op"`   // = != in notin contains
	// Other is a second literal used by in / not in
	Other string `json:"other"`
}

// QuoteZql renders s as a ZitiQL string literal: backslash and double quote are backslash-escaped and the
// four escapable control characters are written \n \t \r \f (the lexer forbids raw control characters).
func quoteZql(s string) string {
	var b strings.Builder
	b.WriteByte('"')
	for _, r := range s {
		switch r {
		case '\\':
			b.WriteString(`\\`)
		case '"':
			b.WriteString(`\"`)
		case '\n':
			b.WriteString(`\n`)
		case '\t':
			b.WriteString(`\t`)
		case '\r':
			b.WriteString(`\r`)
		case '\f':
			b.WriteString(`\f`)
		default:
			b.WriteRune(r)
		}
	}
	b.WriteByte('"')
	return b.String()
}

var c11Alphabet = []rune{'\\', '\\', '\\', '"', '"', 'n', 't', 'r', 'f', '\n', '\t', '\r', '\f', 'a', 'b', ' ', ' ', 'Z', 'o', 'o', 'N', 'O', 'T', '0', '%', '\'', '(', ']', ',', 'é', '☃'}

func genC11String(t *rapid.T, label string) string {
	n := rapid.IntRange(0, 12).Draw(t, label+"_len")
	rs := make([]rune, n)
	for i := range rs {
		if rapid.IntRange(0, 9).Draw(t, label+"_wide") == 0 {
			rs[i] = rapid.RuneFrom(nil, unicode.L, unicode.N, unicode.P, unicode.S).Draw(t, label+"_rune")
		} else {
			rs[i] = rapid.SampledFrom(c11Alphabet).Draw(t, label+"_r")
		}
	}
	return string(rs)
}

func nearMisses(s string) []string {
	set := map[string]bool{}
	add := func(x string) {
		if x != s {
			set[x] = true
		}
	}
	rep := [][2]string{{`\n`, "\n"}, {`\t`, "\t"}, {`\r`, "\r"}, {`\f`, "\f"}, {"\n", `\n`}, {"\t", `\t`}, {"\r", `\r`}, {"\f", `\f`},
		{`\\`, `\`}, {`\`, `\\`}, {`\"`, `"`}, {`"`, `\"`}, {`\`, ""}, {`"`, ""}}
	for _, r := range rep {
		if strings.Contains(s, r[0]) {
			add(strings.ReplaceAll(s, r[0], r[1]))
			add(strings.Replace(s, r[0], r[1], 1))
		}
	}
	add(s + `\`)
	add(`"` + s + `"`)
	add(strings.ToUpper(s))
	add("")
	out := make([]string, 0, len(set))
	for k := range set {
		out = append(out, k)
	}
	sort.Strings(out)
	if len(out) > 8 {
		out = out[:8]
	}
	return out
}

func genC11(t *rapid.T) c11Case {
	s := genC11String(t, "s")
	if rapid.IntRange(0, 6).Draw(t, "keywordInside") == 0 {
		// the letters of an operator keyword inside the string
		rs := []rune(s)
		at := rapid.IntRange(0, len(rs)).Draw(t, "keywordAt")
		kw := rapid.SampledFrom([]string{"not", "NOT ", "nOt", "not contains ", "knot", " and ", "or", "in", "contains"}).Draw(t, "keyword")
		s = string(rs[:at]) + kw + string(rs[at:])
	}
	c := c11Case{S: s, Near: nearMisses(s)}
	c.Op = rapid.SampledFrom([]string{"=", "!=", "in", "notin", "contains", "notcontains", "anyof=", "anyofin", "allof!=", "anyofcontains", "inlong-low", "inlong-high", "notinlong-high",
		"icontains", "noticontains", "anyof=or-anyofcontains", "anyof=and-anyofin", "anyofin-or-anyofin", "dotted=", "dotted!=", "tag=", "tagcontains"}).Draw(t, "op")
	c.Other = genC11String(t, "other")
	return c
}

func c11NonTrivial(s string) bool {
	n := 0
	rs := []rune(s)
	for i, r := range rs {
		if r == '\\' || r == '"' || r == '\n' || r == '\t' || r == '\r' || r == '\f' {
			n++
		}
		if r == '\\' && i+1 < len(rs) && strings.ContainsRune(`ntrf"\`, rs[i+1]) {
			return true
		}
	}
	return n >= 2
}

func runC11(c c11Case) kit.Result {
	res := kit.Result{NonTrivial: c11NonTrivial(c.S), Classes: []string{"op:" + c.Op}}
	if strings.Contains(c.S, `\`) {
		res.Classes = append(res.Classes, "has-backslash")
	}
	lit := quoteZql(c.S)
	// (1) codec round trip
	if got := zitiql.ParseZqlString(lit); got != c.S {
		res.Err = fmt.Errorf("ParseZqlString(%s) = %q, want %q", lit, got, c.S)
		return res
	}

	// (2) end to end: rows hold s, near misses and null
	d := &kit.Dataset{}
	values := append([]string{c.S}, c.Near...)
	values = append(values, c.Other)
	for i, v := range values {
		// the row's string set holds its own value and, on odd rows, the next value as well (so sets with and
		// without s, and sets holding only a near-miss that has s as a prefix, all occur)
		roles := []string{v}
		if i%2 == 1 {
			roles = append(roles, values[(i+1)%len(values)])
		}
		p := kit.Person{ID: fmt.Sprintf("p%02d", i), F: map[string]kit.Val{"sa": kit.SV(v)}, Roles: kit.StrSet{Present: true, Elems: roles},
			// the value also sits in a tag, and every row's boss is the row before it (the first row has none)
			Tags: map[string]kit.Val{"k": kit.SV(v)}}
		if i > 0 {
			p.F["boss"] = kit.SV(fmt.Sprintf("p%02d", i-1))
		}
		d.People = append(d.People, p)
	}
	d.People = append(d.People, kit.Person{ID: "pnull", F: map[string]kit.Val{"sa": kit.NullV()}, Roles: kit.StrSet{Present: true, Elems: []string{c.S + "x", "zz"}}})
	d.People = append(d.People, kit.Person{ID: "pboth", F: map[string]kit.Val{"sa": kit.NullV()}, Roles: kit.StrSet{Present: true, Elems: []string{c.S, "zz", "~~~last"}}})

	var filter string
	var wantID func(id string) bool
	var want func(v *string) bool
	var wantSet func(elems []string) bool
	has := func(elems []string, x string) bool {
		for _, e := range elems {
			if e == x {
				return true
			}
		}
		return false
	}
	switch c.Op {
	case "anyof=":
		filter = "anyOf(roles) = " + lit
		wantSet = func(elems []string) bool { return has(elems, c.S) }
	case "anyofin":
		filter = "anyOf(roles) in [" + quoteZql(c.Other) + ", " + lit + "]"
		wantSet = func(elems []string) bool { return has(elems, c.S) || has(elems, c.Other) }
	case "allof!=":
		filter = "allOf(roles) != " + lit // every row's set is non-empty
		wantSet = func(elems []string) bool { return !has(elems, c.S) }
	case "anyofcontains":
		filter = "anyOf(roles) contains " + lit
		wantSet = func(elems []string) bool {
			for _, e := range elems {
				if strings.Contains(e, c.S) {
					return true
				}
			}
			return false
		}
	case "anyof=or-anyofcontains":
		// two comparisons on the same set in one filter: each ranges over the whole set
		filter = "anyOf(roles) = " + quoteZql("~~~last") + " or anyOf(roles) contains " + lit
		wantSet = func(elems []string) bool {
			for _, e := range elems {
				if strings.Contains(e, c.S) {
					return true
				}
			}
			return has(elems, "~~~last")
		}
	case "anyof=and-anyofin":
		filter = "anyOf(roles) = \"zz\" and anyOf(roles) in [" + lit + "]"
		wantSet = func(elems []string) bool { return has(elems, "zz") && has(elems, c.S) }
	case "anyofin-or-anyofin":
		filter = "anyOf(roles) in [\"nobody has this\"] or anyOf(roles) in [" + lit + ", " + quoteZql(c.Other) + "]"
		wantSet = func(elems []string) bool { return has(elems, c.S) || has(elems, c.Other) }
	case "icontains":
		filter = "sa icontains " + lit
		want = func(v *string) bool { return v != nil && strings.Contains(strings.ToUpper(*v), strings.ToUpper(c.S)) }
	case "noticontains":
		filter = "sa not icontains " + lit
		want = func(v *string) bool { return v == nil || !strings.Contains(strings.ToUpper(*v), strings.ToUpper(c.S)) }
	case "dotted=", "dotted!=", "tag=", "tagcontains":
		// the compared value is reached through a reference (boss.sa) or is an element of the tag map (tags.k)
		bossOf := func(id string) *string {
			for i := range values {
				if fmt.Sprintf("p%02d", i) == id && i > 0 {
					s := values[i-1]
					return &s
				}
			}
			return nil
		}
		tagOf := func(id string) *string {
			for i := range values {
				if fmt.Sprintf("p%02d", i) == id {
					s := values[i]
					return &s
				}
			}
			return nil
		}
		switch c.Op {
		case "dotted=":
			filter = "boss.sa = " + lit
			wantID = func(id string) bool { v := bossOf(id); return v != nil && *v == c.S }
		case "dotted!=":
			filter = "boss.sa != " + lit
			wantID = func(id string) bool { v := bossOf(id); return v == nil || *v != c.S }
		case "tag=":
			filter = "tags.k = " + lit
			wantID = func(id string) bool { v := tagOf(id); return v != nil && *v == c.S }
		default:
			filter = "tags.k contains " + lit
			wantID = func(id string) bool { v := tagOf(id); return v != nil && strings.Contains(*v, c.S) }
		}
	case "=":
		filter = "sa = " + lit
		want = func(v *string) bool { return v != nil && *v == c.S }
	case "!=":
		filter = "sa != " + lit
		want = func(v *string) bool { return v == nil || *v != c.S }
	case "in":
		filter = "sa in [" + quoteZql(c.Other) + ", " + lit + "]"
		want = func(v *string) bool { return v != nil && (*v == c.S || *v == c.Other) }
	case "notin":
		filter = "sa not in [" + lit + "," + quoteZql(c.Other) + "]"
		want = func(v *string) bool { return v == nil || (*v != c.S && *v != c.Other) }
	case "inlong-low", "inlong-high", "notinlong-high":
		// a list of 10-11 literals in which s is the smallest (fillers sort after it) or the greatest element
		var items []string
		for i := 0; i < 9; i++ {
			f := fmt.Sprintf("~~~filler%d", i)
			if c.Op != "inlong-low" {
				f = fmt.Sprintf(" !filler%d", i)
			}
			items = append(items, quoteZql(f))
		}
		items = append(items[:4], append([]string{lit}, items[4:]...)...)
		if c.Other != c.S {
			items = append(items, quoteZql(c.Other))
		}
		if c.Op == "notinlong-high" {
			filter = "sa not in [" + strings.Join(items, ", ") + "]"
			want = func(v *string) bool { return v == nil || (*v != c.S && *v != c.Other) }
		} else {
			filter = "sa in [" + strings.Join(items, ",") + "]"
			want = func(v *string) bool { return v != nil && (*v == c.S || *v == c.Other) }
		}
	case "contains":
		filter = "sa contains " + lit
		want = func(v *string) bool { return v != nil && strings.Contains(*v, c.S) }
	case "notcontains":
		filter = "sa not contains " + lit
		want = func(v *string) bool { return v == nil || !strings.Contains(*v, c.S) }
	}
	var expect []string
	for _, p := range d.People {
		var vp *string
		if v := p.F["sa"]; !v.IsNull() {
			s := v.S
			vp = &s
		}
		if (want != nil && want(vp)) || (wantSet != nil && wantSet(p.Roles.Elems)) || (wantID != nil && wantID(p.ID)) {
			expect = append(expect, p.ID)
		}
	}
	sort.Strings(expect)

	// route A: in-memory symbols, ast only
	q, err := ast.Parse(kit.MemTypes("people"), filter)
	if err != nil {
		res.Err = fmt.Errorf("filter %s rejected: %v", filter, err)
		return res
	}
	var gotMem []string
	for _, p := range d.People {
		if q.EvalBool(kit.NewMemSymbols(d, "people", p.ID, false)) {
			gotMem = append(gotMem, p.ID)
		}
	}
	sort.Strings(gotMem)
	if fmt.Sprint(gotMem) != fmt.Sprint(expect) {
		res.Err = fmt.Errorf("filter %s over in-memory rows %q: got %v want %v", filter, values, gotMem, expect)
		return res
	}

	// route A': the parser's debug switch only adds diagnostics, the literal denotes the same string with it
	ast.EnableQueryDebug.Store(true)
	qd, derr := ast.Parse(kit.MemTypes("people"), filter)
	ast.EnableQueryDebug.Store(false)
	if derr != nil {
		res.Err = fmt.Errorf("filter %s rejected when ast.EnableQueryDebug is on: %v", filter, derr)
		return res
	}
	var gotDebug []string
	for _, p := range d.People {
		if qd.EvalBool(kit.NewMemSymbols(d, "people", p.ID, false)) {
			gotDebug = append(gotDebug, p.ID)
		}
	}
	sort.Strings(gotDebug)
	if fmt.Sprint(gotDebug) != fmt.Sprint(expect) {
		res.Err = fmt.Errorf("filter %s parsed with ast.EnableQueryDebug on, over in-memory rows %q: got %v want %v", filter, values, gotDebug, expect)
		return res
	}

	// route B: bolt store
	db := kit.NewRawDB()
	defer db.Close()
	// (half of the time the symbols sa and tags are registered under a bucket key that differs from their name)
	schema := kit.NewScanSchema(len(c.S) % 2)
	if err := schema.Write(db.DB, d); err != nil {
		res.Err = fmt.Errorf("writing dataset: %v", err)
		return res
	}
	err = db.DB.View(func(tx *bbolt.Tx) error {
		ids, count, err := schema.People.QueryIds(tx, filter)
		if err != nil {
			return fmt.Errorf("QueryIds(%s): %v", filter, err)
		}
		sort.Strings(ids)
		if fmt.Sprint(ids) != fmt.Sprint(expect) || int(count) != len(expect) {
			return fmt.Errorf("filter %s over stored rows %q: got %v (count %d) want %v", filter, values, ids, count, expect)
		}
		return nil
	})
	res.Err = err
	if err != nil || want == nil {
		return res
	}
	// route C: an object store whose string accessors hand out pointers into the live objects; a case-insensitive
	// query over the same objects comes first, then the filter
	ostore := newObjectStore(d, func() (order []int) {
		for i := range d.People {
			order = append(order, i)
		}
		return
	}())
	if _, _, err := ostore.QueryEntities("sa icontains " + lit + " or sa icontains \"a\""); err != nil {
		res.Err = fmt.Errorf("object store: case-insensitive query rejected: %v", err)
		return res
	}
	ents, _, err := ostore.QueryEntities(filter)
	if err != nil {
		res.Err = fmt.Errorf("object store: filter %s rejected: %v", filter, err)
		return res
	}
	var gotObj []string
	for _, e := range ents {
		gotObj = append(gotObj, e.ID)
	}
	sort.Strings(gotObj)
	if fmt.Sprint(gotObj) != fmt.Sprint(expect) {
		res.Err = fmt.Errorf("filter %s over an object store holding %q (after a case-insensitive query over the same objects): got %v want %v", filter, values, gotObj, expect)
	}
	return res
}

func TestC11(t *testing.T) {
	kit.Execute(t, kit.Spec[c11Case]{
		ID:    "C11",
		Level: "exploration",
		Rule: "strings of 0-12 runes over an alphabet biased to backslash, quote, the letters n t r f and the four escapable control characters (10% any printable rune); " +
			"each case checks ParseZqlString(quote(s))==s and one query (= != in 'not in' contains 'not contains' on a string field; anyOf = / anyOf in / allOf != / anyOf contains on a string set) over rows holding s, near-misses of s (incl. strings s is a prefix of) and null, " +
			"Every filter is also parsed with ast.EnableQueryDebug on and must give the same answer. " +
			"via in-memory symbols and via a bolt store. Non-trivial: s has a backslash directly followed by one of n t r f \" \\, or >= 2 characters that need escaping. Distinct by hash of the case JSON.",
		Assumptions: []string{
			"control characters other than LF TAB CR FF have no literal form and are outside the property's domain",
			"quote(s) escapes the four control characters (the lexer forbids raw control characters in literals)",
		},
		Gen:            genC11,
		Run:            runC11,
		QuickChecks:    20000,
		ThoroughFactor: 8,
	})
}

// FuzzC11Unquote is the native coverage-guided target for the codec half of C11 (thorough tier only).
func FuzzC11Unquote(f *testing.F) {
	for _, s := range []string{"", `\`, `\\`, `\n`, "\n", `a\"b`, `\\n`, `"`, `\\\\`, "\\\f", `\t\r\f\n`} {
		f.Add(s)
	}
	f.Fuzz(func(t *testing.T, s string) {
		if !utf8.ValidString(s) {
			return
		}
		for _, r := range s {
			if r < 0x20 && r != '\n' && r != '\t' && r != '\r' && r != '\f' {
				return
			}
		}
		lit := quoteZql(s)
		if got := zitiql.ParseZqlString(lit); got != s {
			t.Fatalf("ParseZqlString(%s) = %q, want %q", lit, got, s)
		}
		q, err := ast.Parse(kit.MemTypes("people"), "sa = "+lit)
		if err != nil {
			t.Fatalf("filter sa = %s rejected: %v", lit, err)
		}
		d := &kit.Dataset{People: []kit.Person{{ID: "p", F: map[string]kit.Val{"sa": kit.SV(s)}}, {ID: "q", F: map[string]kit.Val{"sa": kit.SV(s + "x")}}}}
		if !q.EvalBool(kit.NewMemSymbols(d, "people", "p", false)) || q.EvalBool(kit.NewMemSymbols(d, "people", "q", false)) {
			t.Fatalf("filter sa = %s does not select exactly the row holding %q", lit, s)
		}
	})
}
