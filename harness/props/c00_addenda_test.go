package props

import "verif/kit"

// what the fifth seeding round added to the generators and oracles (appended to the rule text of each evidence file)
func init() {
	kit.RuleAddenda["C01"] = "Also: the filter text is first put to a twin store whose like-named symbols have other types, and the parsed filter is narrowed to an id set by a condition composed from AST nodes and typed by PostProcess (either operand order)."
	kit.RuleAddenda["C02"] = "Also: sorting and paging by function-backed symbols whose application state is replaced between two read transactions while the database is not written, and the returned id lists are read again after the transaction ended and the file was rewritten."
	kit.RuleAddenda["C03"] = "Also: index look-ups (held values and values nobody holds) made inside a writing transaction, after which every invariant is checked again."
	kit.RuleAddenda["C04"] = "Also: two sibling child stores with a like-named reference to one target store (cascade or restrict), target ids of arbitrary bytes (not necessarily UTF-8), a twenty-level cascade chain."
	kit.RuleAddenda["C05"] = "Also: ids of 128 and 300 bytes, single AddLink calls to two ids that differ only in letter case."
	kit.RuleAddenda["C06"] = "Also: every symbol persisted under another key in a third of the cases, records that share the id of the entity they refer to, a uniquely indexed name of exactly bbolt.MaxKeySize bytes."
	kit.RuleAddenda["C07"] = "Also: the body run as a step of MigrationManager.Migrate (both conventions for the version a failed step returns) and a duplicate create of an entity that persists nothing but its id."
	kit.RuleAddenda["C08"] = "Also: two registrations sharing the slice of their additional change type, and an update that stores an entity without time stamps unchanged (still one update event)."
	kit.RuleAddenda["C09"] = "Also: a cascading fk-index store, null and dangling references in non-nullable fk fields (reported, not repairable), a dangling child-store link naming a plain parent entity."
	kit.RuleAddenda["C10"] = "Also: function-backed symbols (one answering with nothing for some rows), every sortable symbol on its own in both directions, a second object store iterating the row with null fields first, limits and skips next to MaxInt64."
	kit.RuleAddenda["C11"] = "Also: operator keywords inside the string, two comparisons on the same set in one filter, icontains, and an object store whose string accessors hand out live pointers, queried case-insensitively first."
	kit.RuleAddenda["C12"] = "Also: atoms that are sub-query set functions over one and the same link set, whitespace inside the datetime( ) token, an earlier diagnostic parse (zitiql.ParseWithDebug) of the same text."
	kit.RuleAddenda["C13"] = "Also: the base values of an extended entity (creation / update stamps with and without Migrate, tags, system flag), zone offsets of a minute or two, a copy of the bucket taken inside the writing transaction."
	kit.RuleAddenda["C14"] = "Also: cursors opened inside a writing transaction, look-ups of values nobody holds (the index keys stay what they were), a link set established through AddLinks + SetLinks, two stores handed the same base-path slice."
	kit.RuleAddenda["C15"] = "Also: an entity constraint registered on the parent store only (a rule about the final state) is probed for every entity through every route; it must always be handed the final state."
	kit.RuleAddenda["C16"] = "Also: transactions run as migration steps, operations issued from a pre-commit action registered by a pre-commit action, and histories in which the data moves into a freshly started instance by snapshot restore."
	kit.RuleAddenda["C17"] = "Also: overlapping Snapshot requests beside a writer (each must hold the generation committed before it was requested) and a write transaction in flight when a restore arrives."
	kit.RuleAddenda["C18"] = "Also: a batched transaction with a pre-commit action beside a failing batch member (bbolt re-runs it alone: all of its work is committed), and one parsed restriction (40-element id list) AND-ed onto every reader's filter."
	kit.RuleAddenda["C19"] = "Also: a second object store holding the people as struct values in a map iterated with objectz.IterateMap."
	kit.RuleAddenda["C20"] = "Also: symbols wrapped with MapSymbol keep their publicity, dotted .id symbols, sort fields adopted by a query parsed from the empty filter (and the next empty-filter query references nothing)."
}
