package props

import (
	"errors"
	"fmt"
	"sort"
	"strings"
	"testing"

	"github.com/openziti/storage/ast"
	"github.com/openziti/storage/boltz"
	"pgregory.net/rapid"

	"verif/kit"
)

// C20 — public-symbol validation sees every symbol a query references.

type c20Case struct {
	Public map[string]bool `json:"public"` // publicity of every symbol of the store except id
	Query  kit.QuerySpec   `json:"query"`
}

var c20Symbols = []string{"sa", "sb", "ia", "ib", "fa", "ba", "ta", "boss", "home", "roles", "nums", "places", "peers", "tags"}

// buildC20Store builds the people store with the drawn publicity, using only exported configuration API.
func buildC20Store(pub map[string]bool) *boltz.BaseStore[boltz.Entity] {
	def := boltz.StoreDefinition[boltz.Entity]{EntityType: "people", BasePath: []string{"application"}}
	p := boltz.NewBaseStore(def)
	twin := boltz.NewBaseStore(def) // only used to mint fk symbols that are then added without being made public
	places := boltz.NewBaseStore(boltz.StoreDefinition[boltz.Entity]{EntityType: "places", BasePath: []string{"application"}})
	places.AddIdSymbol("id", ast.NodeTypeString)
	places.AddSymbol("name", ast.NodeTypeString)

	p.AddIdSymbol("id", ast.NodeTypeString)
	for _, f := range []string{"sa", "sb", "ia", "ib", "fa", "ba", "ta"} {
		if pub[f] {
			p.AddSymbol(f, kit.PeopleScalarTypes[f])
		} else {
			p.AddEntitySymbol(p.NewEntitySymbol(f, kit.PeopleScalarTypes[f]))
		}
	}
	for f, linked := range map[string]boltz.Store{"boss": p, "home": places} {
		if pub[f] {
			p.AddFkSymbol(f, linked)
		} else {
			p.AddEntitySymbol(twin.AddFkSymbol(f, linked))
		}
	}
	for _, f := range []string{"roles", "nums"} {
		if pub[f] {
			p.AddPublicSetSymbol(f, ast.NodeTypeString)
		} else {
			p.AddSetSymbol(f, ast.NodeTypeString)
		}
	}
	for f, linked := range map[string]boltz.Store{"places": places, "peers": p} {
		p.AddFkSetSymbol(f, linked)
		if pub[f] {
			p.MakeSymbolPublic(f)
		}
	}
	p.AddMapSymbol("tags", ast.NodeTypeAnyType, "tags")
	if pub["tags"] {
		p.MakeSymbolPublic("tags")
	}
	return p
}

func genC20(t *rapid.T) c20Case {
	c := c20Case{Public: map[string]bool{}}
	for _, s := range c20Symbols {
		c.Public[s] = true
	}
	q := kit.QuerySpec{Kind: "people"}
	if rapid.IntRange(0, 9).Draw(t, "hasPred") > 0 {
		q.Pred = kit.GenExpr(t, "p", "people", rapid.IntRange(1, 3).Draw(t, "depth"), &kit.GenOpts{NoDotted: true, SelfLinks: true,
			Boost: map[string]int{"subcount": 6, "subempty": 6, "setfn": 2, "count": 2, "isempty": 2}})
	}
	if rapid.IntRange(0, 2).Draw(t, "hasSort") == 0 {
		q.Sort = genSort(t, "s", c02SortSyms, 3)
	}
	q.Page = genPaging(t, "pg", 5)
	c.Query = q
	// publicity is drawn after the query so that the single non-public symbol usually is a referenced one,
	// chosen uniformly over the syntactic occurrences (deep positions are then as likely as shallow ones)
	switch mode := rapid.IntRange(0, 9).Draw(t, "mode"); {
	case mode == 0:
	case mode <= 6:
		refs := referenced(&q)
		var occ []string
		for _, sym := range keys(refs) {
			if sym == "id" {
				continue
			}
			for range refs[sym] {
				occ = append(occ, sym)
			}
		}
		if len(occ) > 0 {
			c.Public[occ[rapid.IntRange(0, len(occ)-1).Draw(t, "npOcc")]] = false
		}
	default:
		n := rapid.IntRange(1, 3).Draw(t, "nNonPublic")
		for i := 0; i < n; i++ {
			c.Public[c20Symbols[rapid.IntRange(0, len(c20Symbols)-1).Draw(t, fmt.Sprintf("np%d", i))]] = false
		}
	}
	return c
}

// referenced lists the symbols a query references, with the syntactic position of each occurrence.
func referenced(q *kit.QuerySpec) map[string][]string {
	refs := map[string][]string{}
	add := func(sym, where string) {
		base := sym
		if strings.HasPrefix(sym, "tags.") {
			base = "tags"
		}
		refs[base] = append(refs[base], where)
	}
	if q.Pred != nil {
		var walk func(e *kit.Expr, inSub bool)
		walk = func(e *kit.Expr, inSub bool) {
			pos := ""
			if inSub {
				pos = "sub-query/"
			}
			if e.L != nil {
				switch {
				case e.L.Sub != nil:
					add(e.L.Sym, pos+"sub-query-link")
					walk(e.L.Sub, true)
				case e.L.Fn != "":
					add(e.L.Sym, pos+"setfn:"+e.L.Fn+":"+e.Op)
				case e.Op == "isempty":
					add(e.L.Sym, pos+"isEmpty")
				default:
					add(e.L.Sym, pos+e.Op)
				}
			}
			for _, k := range e.Kids {
				walk(k, inSub)
			}
		}
		walk(q.Pred, false)
	}
	for _, k := range q.Sort {
		add(k.Sym, "sort")
	}
	return refs
}

func runC20(c c20Case) kit.Result {
	res := kit.Result{}
	store := buildC20Store(c.Public)
	text := c.Query.Render()
	q, err := ast.Parse(store, text)
	if err != nil {
		res.Err = fmt.Errorf("well-typed query rejected by ast.Parse: %s: %v", text, err)
		return res
	}
	refs := referenced(&c.Query)
	var nonPublic []string
	for sym, wheres := range refs {
		if sym != "id" && !c.Public[sym] {
			nonPublic = append(nonPublic, sym)
			for _, w := range wheres {
				res.Classes = append(res.Classes, "nonpublic-at:"+w)
			}
		}
		for _, w := range wheres {
			res.Classes = append(res.Classes, "ref:"+w)
		}
	}
	sort.Strings(nonPublic)
	verr := boltz.ValidateSymbolsArePublic(q, store)
	if len(nonPublic) == 0 {
		if verr != nil {
			res.Err = fmt.Errorf("query %s references only public symbols %v but was rejected: %v", text, keys(refs), verr)
		}
		return res
	}
	if len(refs) >= 2 && len(nonPublic) == 1 {
		res.NonTrivial = true
	}
	if verr == nil {
		res.Err = fmt.Errorf("query %s references non-public symbol(s) %v (at %v) but was accepted", text, nonPublic, refs[nonPublic[0]])
		return res
	}
	var use ast.UnknownSymbolError
	if !errors.As(verr, &use) {
		res.Err = fmt.Errorf("query %s: rejection is not an UnknownSymbolError: %T %v", text, verr, verr)
		return res
	}
	named := use.Symbol
	if strings.HasPrefix(named, "tags.") {
		named = "tags"
	}
	ok := false
	for _, s := range nonPublic {
		if s == named {
			ok = true
		}
	}
	if !ok {
		res.Err = fmt.Errorf("query %s: rejection names %q, which is not one of the referenced non-public symbols %v", text, use.Symbol, nonPublic)
	}
	return res
}

func keys(m map[string][]string) []string {
	var out []string
	for k := range m {
		out = append(out, k)
	}
	sort.Strings(out)
	return out
}

func TestC20(t *testing.T) {
	kit.Execute(t, kit.Spec[c20Case]{
		ID:    "C20",
		Level: "exploration",
		Rule: "rapid draws a public/non-public assignment for the 14 symbols of a store (scalars, fk, sets, fk sets with a self-link, map) with 0-3 non-public ones and a typed query from the C01 generator (all atom kinds incl. set functions, in/between/contains/icontains, null tests, map elements, count/isEmpty sub-queries over the self-link) plus 0-3 sort fields. " +
			"ValidateSymbolsArePublic must accept iff every referenced symbol is public (reference set computed from the generated AST) and otherwise return an UnknownSymbolError naming a referenced non-public symbol. " +
			"Non-trivial: the query references >= 2 symbols of which exactly one is non-public. Distinct by hash of the case JSON; the classes histogram counts every syntactic position of a referenced / non-public symbol.",
		Assumptions: []string{"dotted linked symbols (boss.sa) are not generated: the property defines publicity only for plain symbols and map elements",
			"sub-queries range over a link set pointing back at the same store, so that 'public for the store' is unambiguous inside the sub-query"},
		Gen: genC20, Run: runC20,
		QuickChecks: 20000, ThoroughFactor: 20,
	})
}
