package props

import (
	"errors"
	"fmt"
	"sort"
	"strings"
	"sync"
	"testing"
	"time"

	"github.com/openziti/storage/ast"
	"github.com/openziti/storage/boltz"
	"pgregory.net/rapid"

	"verif/kit"
)

// C20 — public-symbol validation sees every symbol a query references.

type c20Case struct {
	Public map[string]bool `json:"public"`           // publicity of every symbol of the store except id
	Mapped []string        `json:"mapped,omitempty"` // scalar symbols wrapped with MapSymbol after registration: their publicity stays what it was
	// ChildSetup: how the child store came by its symbols. 0: one GrantSymbols. 1: granted, then the child publishes a
	// symbol the parent keeps private, then the wiring runs again (second GrantSymbols). 2: granted, then the child
	// registers the standard entity symbols itself (AddExtEntitySymbols, which publishes tags)
	ChildSetup int `json:"childSetup,omitempty"`
	// Overlap: the validation of the parsed query is also run from four goroutines at once
	Overlap bool          `json:"overlap,omitempty"`
	Query   kit.QuerySpec `json:"query"`
}

var c20Symbols = []string{"sa", "sb", "ia", "ib", "fa", "ba", "ta", "boss", "home", "roles", "nums", "places", "peers", "tags", "boss.sa", "home.name", "peers.sa", "peers.id", "boss.id"}

// c20Identity is a SymbolMapper that changes nothing
type c20Identity struct{}

func (c20Identity) Map(_ boltz.EntitySymbol, fieldType boltz.FieldType, value []byte) (boltz.FieldType, []byte) {
	return fieldType, value
}

// dotted (linked) symbols are symbols in their own right: public exactly when made public under their full name,
// whatever the publicity of the link symbol they start with
var c20Dotted = []struct {
	name, link string
	set        bool
}{{"boss.sa", "boss", false}, {"home.name", "home", false}, {"peers.sa", "peers", true}, {"peers.id", "peers", true}, {"boss.id", "boss", false}}

// buildC20Store builds the people store with the drawn publicity, using only exported configuration API.
// buildC20Child layers a child store on the parent; it inherits symbols and their publicity through GrantSymbols.
func buildC20Child(parent *boltz.BaseStore[boltz.Entity]) *boltz.BaseStore[boltz.Entity] {
	child := boltz.NewBaseStore(boltz.StoreDefinition[boltz.Entity]{
		Parent:       parent,
		BasePath:     []string{"ext"},
		ParentMapper: func(e boltz.Entity) boltz.Entity { return e },
	})
	parent.GrantSymbols(child)
	return child
}

func buildC20Store(pub map[string]bool, mapped ...string) *boltz.BaseStore[boltz.Entity] {
	def := boltz.StoreDefinition[boltz.Entity]{EntityType: "people", BasePath: []string{"application"}}
	p := boltz.NewBaseStore(def)
	twin := boltz.NewBaseStore(def) // only used to mint fk symbols that are then added without being made public
	places := boltz.NewBaseStore(boltz.StoreDefinition[boltz.Entity]{EntityType: "places", BasePath: []string{"application"}})
	places.AddIdSymbol("id", ast.NodeTypeString)
	places.AddSymbol("name", ast.NodeTypeString)

	p.AddIdSymbol("id", ast.NodeTypeString)
	for _, f := range []string{"sa", "sb", "ia", "ib", "fa", "ba", "ta"} {
		if pub[f] {
			p.AddSymbol(f, kit.PeopleScalarTypes[f])
		} else {
			p.AddEntitySymbol(p.NewEntitySymbol(f, kit.PeopleScalarTypes[f]))
		}
	}
	for f, linked := range map[string]boltz.Store{"boss": p, "home": places} {
		if pub[f] {
			p.AddFkSymbol(f, linked)
		} else {
			p.AddEntitySymbol(twin.AddFkSymbol(f, linked))
		}
	}
	for _, f := range []string{"roles", "nums"} {
		if pub[f] {
			p.AddPublicSetSymbol(f, ast.NodeTypeString)
		} else {
			p.AddSetSymbol(f, ast.NodeTypeString)
		}
	}
	for f, linked := range map[string]boltz.Store{"places": places, "peers": p} {
		p.AddFkSetSymbol(f, linked)
		if pub[f] {
			p.MakeSymbolPublic(f)
		}
	}
	p.AddMapSymbol("tags", ast.NodeTypeAnyType, "tags")
	if pub["tags"] {
		p.MakeSymbolPublic("tags")
	}
	for _, d := range c20Dotted {
		if pub[d.name] {
			p.MakeSymbolPublic(d.name)
		}
	}
	for _, f := range mapped {
		p.MapSymbol(f, c20Identity{})
	}
	return p
}

func genC20(t *rapid.T) c20Case {
	c := c20Case{Public: map[string]bool{}}
	for _, s := range c20Symbols {
		c.Public[s] = true
	}
	q := kit.QuerySpec{Kind: "people"}
	if rapid.IntRange(0, 9).Draw(t, "hasPred") > 0 {
		q.Pred = kit.GenExpr(t, "p", "people", rapid.IntRange(1, 3).Draw(t, "depth"), &kit.GenOpts{NoDotted: true, SelfLinks: true, SubSort: c02SortSyms,
			Boost: map[string]int{"subcount": 6, "subempty": 6, "setfn": 2, "count": 2, "isempty": 2}})
	}
	if rapid.IntRange(0, 3).Draw(t, "withDotted") == 0 {
		// a conjunct over a dotted symbol, placed after one that mentions the link symbol it starts with
		d := c20Dotted[rapid.IntRange(0, len(c20Dotted)-1).Draw(t, "dotted")]
		var first, second *kit.Expr
		if d.set {
			first = &kit.Expr{Op: "isempty", L: &kit.LHS{Sym: d.link}}
			second = &kit.Expr{Op: "cmp", Cmp: "=", L: &kit.LHS{Fn: "anyOf", Sym: d.name}, C: []kit.Val{kit.SV("a")}}
		} else {
			first = &kit.Expr{Op: "isnull", L: &kit.LHS{Sym: d.link}, Neg: true}
			second = &kit.Expr{Op: "cmp", Cmp: "=", L: &kit.LHS{Sym: d.name}, C: []kit.Val{kit.SV("a")}}
		}
		parts := []*kit.Expr{first, second}
		if rapid.Bool().Draw(t, "dottedFirst") {
			parts = []*kit.Expr{second, first}
		}
		if q.Pred != nil {
			parts = append(parts, q.Pred)
		}
		q.Pred = &kit.Expr{Op: "and", Kids: parts}
	}
	switch rapid.IntRange(0, 5).Draw(t, "hasSort") {
	case 0, 1:
		q.Sort = genSort(t, "s", c02SortSyms, 3)
	case 2:
		// long sort lists: the scanners use the first five fields only, the validator sees all of them
		q.Sort = genSort(t, "s", c02SortSyms, 8)
	}
	q.Page = genPaging(t, "pg", 5)
	c.Query = q
	c.ChildSetup = []int{0, 0, 1, 2}[rapid.IntRange(0, 3).Draw(t, "childSetup")]
	c.Overlap = rapid.IntRange(0, 7).Draw(t, "overlap") == 0
	if rapid.IntRange(0, 3).Draw(t, "withMapped") == 0 {
		c.Mapped = rapid.SliceOfNDistinct(rapid.SampledFrom([]string{"sa", "sb", "ia", "ib", "fa", "ba", "ta"}), 1, 3, rapid.ID[string]).Draw(t, "mapped")
	}
	// publicity is drawn after the query so that the single non-public symbol usually is a referenced one,
	// chosen uniformly over the syntactic occurrences (deep positions are then as likely as shallow ones)
	switch mode := rapid.IntRange(0, 9).Draw(t, "mode"); {
	case mode == 0:
	case mode <= 6:
		refs := referenced(&q)
		var occ []string
		for _, sym := range keys(refs) {
			if sym == "id" {
				continue
			}
			for range refs[sym] {
				occ = append(occ, sym)
			}
		}
		if len(occ) > 0 {
			c.Public[occ[rapid.IntRange(0, len(occ)-1).Draw(t, "npOcc")]] = false
		}
	default:
		n := rapid.IntRange(1, 3).Draw(t, "nNonPublic")
		for i := 0; i < n; i++ {
			c.Public[c20Symbols[rapid.IntRange(0, len(c20Symbols)-1).Draw(t, fmt.Sprintf("np%d", i))]] = false
		}
	}
	return c
}

// referenced lists the symbols a query references, with the syntactic position of each occurrence.
func referenced(q *kit.QuerySpec) map[string][]string {
	refs := map[string][]string{}
	add := func(sym, where string) {
		base := sym
		if strings.HasPrefix(sym, "tags.") {
			base = "tags"
		}
		refs[base] = append(refs[base], where)
	}
	if q.Pred != nil {
		var walk func(e *kit.Expr, inSub bool)
		walk = func(e *kit.Expr, inSub bool) {
			pos := ""
			if inSub {
				pos = "sub-query/"
			}
			if e.L != nil {
				switch {
				case e.L.Sub != nil:
					add(e.L.Sym, pos+"sub-query-link")
					walk(e.L.Sub, true)
					for _, k := range e.L.SubSort {
						add(k.Sym, "sub-query/sort")
					}
				case e.L.Fn != "":
					add(e.L.Sym, pos+"setfn:"+e.L.Fn+":"+e.Op)
				case e.Op == "isempty":
					add(e.L.Sym, pos+"isEmpty")
				default:
					add(e.L.Sym, pos+e.Op)
				}
			}
			for _, k := range e.Kids {
				walk(k, inSub)
			}
		}
		walk(q.Pred, false)
	}
	for _, k := range q.Sort {
		add(k.Sym, "sort")
	}
	return refs
}

func runC20(c c20Case) kit.Result {
	res := kit.Result{}
	store := buildC20Store(c.Public, c.Mapped...)
	if len(c.Mapped) > 0 {
		res.Classes = append(res.Classes, "mapped-symbols")
	}
	text := c.Query.Render()
	q, err := ast.Parse(store, text)
	if err != nil {
		res.Err = fmt.Errorf("well-typed query rejected by ast.Parse: %s: %v", text, err)
		return res
	}
	refs := referenced(&c.Query)
	var nonPublic []string
	for sym, wheres := range refs {
		if sym != "id" && !c.Public[sym] {
			nonPublic = append(nonPublic, sym)
			for _, w := range wheres {
				res.Classes = append(res.Classes, "nonpublic-at:"+w)
			}
		}
		for _, w := range wheres {
			res.Classes = append(res.Classes, "ref:"+w)
		}
	}
	sort.Strings(nonPublic)
	// the store's own list of public symbols is the set that was made public (id included)
	{
		want := []string{"id"}
		for _, s := range c20Symbols {
			if c.Public[s] {
				want = append(want, s)
			}
		}
		sort.Strings(want)
		got := store.GetPublicSymbols()
		sort.Strings(got)
		if fmt.Sprint(got) != fmt.Sprint(want) {
			res.Err = fmt.Errorf("GetPublicSymbols lists %v, made public were %v", got, want)
			return res
		}
	}
	verr := boltz.ValidateSymbolsArePublic(q, store)
	// sort fields adopted from this query by a query parsed from the empty filter are referenced by that query too;
	// a query parsed from the empty filter afterwards references nothing at all
	if e1, err := ast.Parse(store, ""); err == nil {
		if err := e1.AdoptSortFields(q); err != nil {
			res.Err = fmt.Errorf("AdoptSortFields: %v", err)
			return res
		}
		var npSort []string
		for _, k := range c.Query.Sort {
			sym := k.Sym
			if strings.HasPrefix(sym, "tags.") {
				sym = "tags"
			}
			if sym != "id" && !c.Public[sym] {
				npSort = append(npSort, sym)
			}
		}
		if aerr := boltz.ValidateSymbolsArePublic(e1, store); (aerr != nil) != (len(npSort) > 0) {
			res.Err = fmt.Errorf("the empty filter with the sort fields of %s adopted (non-public among them: %v): validation says %v", text, npSort, aerr)
			return res
		}
		if e2, err := ast.Parse(store, ""); err != nil {
			res.Err = fmt.Errorf("the empty filter no longer parses: %v", err)
			return res
		} else if err := boltz.ValidateSymbolsArePublic(e2, store); err != nil {
			res.Err = fmt.Errorf("a query parsed from the empty filter references no symbol but was rejected: %v", err)
			return res
		}
		if len(c.Query.Sort) > 0 {
			res.Classes = append(res.Classes, "adopted-sort")
		}
	}
	// a child store inherits the parent's symbols with their publicity: it must give the same verdict
	// (queries with dotted symbols are left out: GrantSymbols hands over the store's own symbols, and whether a
	// dotted name made public on the parent is public on the child as well is not stated)
	child := buildC20Child(store)
	childPublic := map[string]bool{}
	for k, v := range c.Public {
		childPublic[k] = v
	}
	switch c.ChildSetup {
	case 1:
		for _, s := range []string{"sa", "sb", "ia", "ib", "fa", "ba", "ta", "roles", "nums"} {
			if !c.Public[s] {
				child.MakeSymbolPublic(s)
				childPublic[s] = true
				break
			}
		}
		store.GrantSymbols(child)
	case 2:
		child.AddExtEntitySymbols()
		childPublic["tags"] = true
	}
	res.Classes = append(res.Classes, fmt.Sprintf("child-setup:%d", c.ChildSetup))
	usesDotted := false
	for _, d := range c20Dotted {
		if _, ok := refs[d.name]; ok {
			usesDotted = true
		}
	}
	if usesDotted {
		res.Classes = append(res.Classes, "dotted-symbol")
	} else if cq, cerr := ast.Parse(child, text); cerr != nil {
		res.Err = fmt.Errorf("query %s accepted by the parent store's parser but rejected through the child store: %v", text, cerr)
		return res
	} else {
		var childNonPublic []string
		for sym := range refs {
			if sym != "id" && !childPublic[sym] {
				childNonPublic = append(childNonPublic, sym)
			}
		}
		sort.Strings(childNonPublic)
		if cverr := boltz.ValidateSymbolsArePublic(cq, child); (cverr == nil) != (len(childNonPublic) == 0) {
			res.Err = fmt.Errorf("query %s: public-symbol validation on the child store (set-up %d; referenced symbols that are not public there: %v) says %v; on the parent store it says %v", text, c.ChildSetup, childNonPublic, cverr, verr)
			return res
		}
	}
	if c.Overlap {
		// the same parsed query validated by four requests at once: each gets the serial verdict
		var wg sync.WaitGroup
		verdicts := make([]error, 4)
		for g := range verdicts {
			wg.Add(1)
			go func(g int) {
				defer wg.Done()
				verdicts[g] = boltz.ValidateSymbolsArePublic(q, store)
			}(g)
		}
		wg.Wait()
		for _, v := range verdicts {
			if (v == nil) != (verr == nil) {
				res.Err = fmt.Errorf("query %s: validated alone the verdict is %v, validated by four requests at once one of them got %v", text, verr, v)
				return res
			}
		}
		res.Classes = append(res.Classes, "validated-concurrently")
	}
	if len(nonPublic) == 0 {
		if verr != nil {
			res.Err = fmt.Errorf("query %s references only public symbols %v but was rejected: %v", text, keys(refs), verr)
		}
		return res
	}
	if len(refs) >= 2 && len(nonPublic) == 1 {
		res.NonTrivial = true
	}
	if verr == nil {
		res.Err = fmt.Errorf("query %s references non-public symbol(s) %v (at %v) but was accepted", text, nonPublic, refs[nonPublic[0]])
		return res
	}
	var use ast.UnknownSymbolError
	if !errors.As(verr, &use) {
		res.Err = fmt.Errorf("query %s: rejection is not an UnknownSymbolError: %T %v", text, verr, verr)
		return res
	}
	named := use.Symbol
	if strings.HasPrefix(named, "tags.") {
		named = "tags"
	}
	ok := false
	for _, s := range nonPublic {
		if s == named {
			ok = true
		}
	}
	if !ok {
		res.Err = fmt.Errorf("query %s: rejection names %q, which is not one of the referenced non-public symbols %v", text, use.Symbol, nonPublic)
	}
	return res
}

func keys(m map[string][]string) []string {
	var out []string
	for k := range m {
		out = append(out, k)
	}
	sort.Strings(out)
	return out
}

// exhaustiveC20 enumerates, deterministically, every symbol of the store (incl. single-level and nested map elements)
// in every syntactic position of a one-atom query, once with everything public and once with exactly that symbol
// non-public. It complements the random part, whose deep positions depend on the draw.
func exhaustiveC20(yield func(c c20Case) bool) {
	type pos struct {
		name string
		mk   func(sym string) (kit.QuerySpec, bool)
	}
	str := kit.SV("a")
	one := kit.IV(1)
	atom := func(e *kit.Expr) (kit.QuerySpec, bool) { return kit.QuerySpec{Kind: "people", Pred: e}, true }
	scalar := map[string]string{"sa": "s", "sb": "s", "ia": "i", "ib": "i", "fa": "f", "ba": "b", "ta": "t", "boss": "s", "home": "s", "tags.k": "any", "tags.sub.k": "any", "tags.sub.n": "any", "tags.sub.deep.k": "any"}
	sets := map[string]bool{"roles": true, "nums": true, "places": true, "peers": true}
	positions := []pos{
		{"cmp", func(sym string) (kit.QuerySpec, bool) {
			k, ok := scalar[sym]
			if !ok {
				return kit.QuerySpec{}, false
			}
			c := str
			switch k {
			case "i", "f":
				c = one
			case "b":
				c = kit.BV(true)
			case "t":
				c = kit.TV(kit.UTime[0])
			}
			return atom(&kit.Expr{Op: "cmp", Cmp: "=", L: &kit.LHS{Sym: sym}, C: []kit.Val{c}})
		}},
		{"isnull", func(sym string) (kit.QuerySpec, bool) {
			if _, ok := scalar[sym]; !ok {
				return kit.QuerySpec{}, false
			}
			return atom(&kit.Expr{Op: "isnull", L: &kit.LHS{Sym: sym}, Neg: true})
		}},
		{"in", func(sym string) (kit.QuerySpec, bool) {
			if k := scalar[sym]; k != "s" && k != "any" {
				return kit.QuerySpec{}, false
			}
			return atom(&kit.Expr{Op: "in", L: &kit.LHS{Sym: sym}, C: []kit.Val{str, kit.SV("b")}})
		}},
		{"between", func(sym string) (kit.QuerySpec, bool) {
			if k := scalar[sym]; k != "i" && k != "f" {
				return kit.QuerySpec{}, false
			}
			return atom(&kit.Expr{Op: "between", Neg: true, L: &kit.LHS{Sym: sym}, C: []kit.Val{one, kit.IV(3)}})
		}},
		{"contains", func(sym string) (kit.QuerySpec, bool) {
			if k := scalar[sym]; k != "s" && k != "any" {
				return kit.QuerySpec{}, false
			}
			return atom(&kit.Expr{Op: "contains", ICase: true, L: &kit.LHS{Sym: sym}, C: []kit.Val{str}})
		}},
		{"boolsym", func(sym string) (kit.QuerySpec, bool) {
			if sym != "ba" {
				return kit.QuerySpec{}, false
			}
			return atom(&kit.Expr{Op: "boolsym", L: &kit.LHS{Sym: sym}})
		}},
		{"anyOf", func(sym string) (kit.QuerySpec, bool) {
			if !sets[sym] {
				return kit.QuerySpec{}, false
			}
			return atom(&kit.Expr{Op: "cmp", Cmp: "=", L: &kit.LHS{Fn: "anyOf", Sym: sym}, C: []kit.Val{str}})
		}},
		{"allOf-in", func(sym string) (kit.QuerySpec, bool) {
			if !sets[sym] {
				return kit.QuerySpec{}, false
			}
			return atom(&kit.Expr{Op: "in", L: &kit.LHS{Fn: "allOf", Sym: sym}, C: []kit.Val{str}})
		}},
		{"count", func(sym string) (kit.QuerySpec, bool) {
			if !sets[sym] {
				return kit.QuerySpec{}, false
			}
			return atom(&kit.Expr{Op: "cmp", Cmp: ">", L: &kit.LHS{Fn: "count", Sym: sym}, C: []kit.Val{one}})
		}},
		{"isEmpty", func(sym string) (kit.QuerySpec, bool) {
			if !sets[sym] {
				return kit.QuerySpec{}, false
			}
			return atom(&kit.Expr{Op: "isempty", L: &kit.LHS{Sym: sym}})
		}},
		{"sub-query-link", func(sym string) (kit.QuerySpec, bool) {
			if sym != "peers" {
				return kit.QuerySpec{}, false
			}
			return atom(&kit.Expr{Op: "isempty", L: &kit.LHS{Sym: sym, Sub: &kit.Expr{Op: "true"}}})
		}},
		{"inside-count-sub-query", func(sym string) (kit.QuerySpec, bool) {
			q, ok := kit.QuerySpec{}, false
			if k, isScalar := scalar[sym]; isScalar && (k == "s" || k == "any") {
				inner := &kit.Expr{Op: "cmp", Cmp: "=", L: &kit.LHS{Sym: sym}, C: []kit.Val{str}}
				q, ok = atom(&kit.Expr{Op: "cmp", Cmp: ">=", L: &kit.LHS{Fn: "count", Sym: "peers", Sub: inner}, C: []kit.Val{one}})
			}
			return q, ok
		}},
		{"inside-isEmpty-sub-query", func(sym string) (kit.QuerySpec, bool) {
			if !sets[sym] {
				return kit.QuerySpec{}, false
			}
			inner := &kit.Expr{Op: "not", Kids: []*kit.Expr{{Op: "isempty", L: &kit.LHS{Sym: sym}}}}
			return atom(&kit.Expr{Op: "isempty", L: &kit.LHS{Sym: "peers", Sub: inner}})
		}},
		{"nested-connectives", func(sym string) (kit.QuerySpec, bool) {
			if k := scalar[sym]; k != "s" && k != "any" {
				return kit.QuerySpec{}, false
			}
			deep := &kit.Expr{Op: "cmp", Cmp: "!=", L: &kit.LHS{Sym: sym}, C: []kit.Val{str}}
			e := &kit.Expr{Op: "or", Kids: []*kit.Expr{{Op: "true"}, {Op: "and", Kids: []*kit.Expr{{Op: "false"}, {Op: "not", Kids: []*kit.Expr{deep}}}}}}
			return atom(e)
		}},
		{"sort", func(sym string) (kit.QuerySpec, bool) {
			k, ok := scalar[sym]
			if !ok || k == "any" {
				return kit.QuerySpec{}, false
			}
			return kit.QuerySpec{Kind: "people", Pred: &kit.Expr{Op: "true"}, Sort: []kit.SortKey{{Sym: "id"}, {Sym: sym, Desc: true, Dir: "desc"}}}, true
		}},
		{"sort-only", func(sym string) (kit.QuerySpec, bool) {
			k, ok := scalar[sym]
			if !ok || k == "any" {
				return kit.QuerySpec{}, false
			}
			lim := int64(3)
			return kit.QuerySpec{Kind: "people", Sort: []kit.SortKey{{Sym: sym}}, Page: kit.Paging{Limit: &lim}}, true
		}},
	}
	var syms []string
	for s := range scalar {
		syms = append(syms, s)
	}
	for s := range sets {
		syms = append(syms, s)
	}
	sort.Strings(syms)
	for _, sym := range syms {
		for _, p := range positions {
			q, ok := p.mk(sym)
			if !ok {
				continue
			}
			for _, nonPublic := range []bool{false, true} {
				c := c20Case{Public: map[string]bool{}, Query: q}
				for _, s := range c20Symbols {
					c.Public[s] = true
				}
				if nonPublic {
					base := sym
					if strings.HasPrefix(sym, "tags.") {
						base = "tags"
					}
					c.Public[base] = false
				}
				if !yield(c) {
					return
				}
			}
		}
	}
}

func TestC20(t *testing.T) {
	kit.Execute(t, kit.Spec[c20Case]{
		ID:    "C20",
		Level: "exploration",
		Rule: "rapid draws a public/non-public assignment for the 14 symbols of a store (scalars, fk, sets, fk sets with a self-link, map) with 0-3 non-public ones and a typed query from the C01 generator (all atom kinds incl. set functions, in/between/contains/icontains, null tests, map elements, count/isEmpty sub-queries over the self-link) plus 0-3 sort fields. " +
			"ValidateSymbolsArePublic must accept iff every referenced symbol is public (reference set computed from the generated AST) and otherwise return an UnknownSymbolError naming a referenced non-public symbol. " +
			"Exhaustive part: every symbol of the store (scalars, fk, sets, single-level and nested map elements) x every syntactic position of a small query (comparison, null test, in, between, icontains, bare bool symbol, anyOf, allOf..in, count, isEmpty, sub-query link, inside count/isEmpty sub-queries, under nested connectives, sort field with and without predicate) x {all public, that symbol non-public}. " +
			"Also generated: dotted symbols (boss.sa, home.name, peers.sa) with a publicity of their own placed before / after a conjunct naming their link symbol, sort lists of up to 8 fields. Also: nested sub-queries and sub-queries whose filter is the constant true. " +
			"Non-trivial: the query references >= 2 symbols of which exactly one is non-public, or (exhaustive part) the single referenced symbol is non-public. Distinct by hash of the case JSON; the classes histogram counts every syntactic position of a referenced / non-public symbol.",
		Assumptions: []string{"dotted linked symbols (boss.sa) are not generated: the property defines publicity only for plain symbols and map elements",
			"sub-queries range over a link set pointing back at the same store, so that 'public for the store' is unambiguous inside the sub-query"},
		Gen: genC20, Run: runC20,
		CaseTimeout: 5 * time.Minute,
		QuickChecks: 20000, ThoroughFactor: 20,
		ExhaustiveQuick: exhaustiveC20,
		Exhaustive:      exhaustiveC20,
	})
}
