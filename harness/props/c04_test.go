package props

import (
	"fmt"
	"strings"
	"testing"

	"pgregory.net/rapid"

	"verif/kit"
)

// C04 — foreign keys: targets exist, back-references exact, delete restricts or cascades, for every id value.

var c04Cfg = kit.WorldCfg{Stores: []kit.StoreCfg{
	{Name: "targets", UniqueName: false},
	{Name: "an", RefTo: "targets", RefWiring: kit.WireFkIndexNullable, Keyed: true}, // fk symbol registered with a different persisted key
	{Name: "bn", RefTo: "targets", RefWiring: kit.WireFkIndex},
	{Name: "cn", RefTo: "targets", RefWiring: kit.WireConstraintNone, Keyed: true},
	{Name: "cd", RefTo: "targets", RefWiring: kit.WireConstraintDel},
	{Name: "ec", RefTo: "targets", RefWiring: kit.WireFkIndexCascade},
	{Name: "mgr", RefTo: "mgr", RefWiring: kit.WireFkIndexNullable}, // self reference: manager / reports
	// references whose target is a child store over targets: only entities with child data there are valid targets
	{Name: "kn", RefTo: "kt", RefWiring: kit.WireFkIndexNullable},
	{Name: "kx", RefTo: "kt", RefWiring: kit.WireConstraintNone},
	{Name: "kd", RefTo: "kt", RefWiring: kit.WireFkIndexCascade},
	// ... and one whose back-reference set is declared on the parent store of that child store
	{Name: "kp", RefTo: "kt", RefWiring: kit.WireFkIndexNullable, BackRefOnParent: true},
	// a hierarchy inside one store: deleting a node removes its whole sub-tree (cascade through the same constraint, re-entrantly)
	{Name: "tree", RefTo: "tree", RefWiring: kit.WireConstraintDel},
	// ... and one whose self reference restricts (fk constraint without cascade): a row that others refer to stays
	{Name: "grp", RefTo: "grp", RefWiring: kit.WireConstraintNone},
	// "bk" is a child store over the referrer store bn: the non-nullable reference is declared on its parent
}, Children: []kit.ChildCfg{{Name: "kt", Parent: "targets"}, {Name: "bk", Parent: "bn"}}}

// ids mixing plain ones with ids containing quotes, backslashes, filter keywords, control characters
var c04IDs = []string{"t1", "t2", "t3", "t", "t10", "a", "a b c", `a"b`, `a\b`, `a\\nb`, `x" or true or ref = "`, "true", "null", "and", "not in", "a b", "[1]", "datetime(", "ünï", "l1\nl2", "tab\tx", "ctl\x01x", `"`, `\`}

func c04IsHostile(id string) bool {
	return strings.ContainsAny(id, "\"\\\n\t\x01 [(") || id == "true" || id == "null" || id == "and" || id == "not in" || id == "ünï"
}

func genC04(t *rapid.T) kit.History {
	// each history works on a small sub-universe of ids so that collisions (same id referenced, deleted, re-created) are frequent
	n := rapid.IntRange(2, 4).Draw(t, "nIds")
	var ids []string
	for i := 0; i < n; i++ {
		ids = append(ids, c04IDs[rapid.IntRange(0, len(c04IDs)-1).Draw(t, fmt.Sprintf("id%d", i))])
	}
	refs := []*string{nil}
	for _, id := range ids {
		refs = append(refs, kit.Sp(id), kit.Sp(id))
	}
	refs = append(refs, kit.Sp("missing"), kit.Sp(""))
	// each history concentrates on 2-4 of the referrer stores, so that an entity is usually written several times
	// (re-parented, patched, deleted) rather than nine stores receiving one operation each
	allRefStores := []string{"an", "bn", "cn", "cd", "ec", "mgr", "kn", "kx", "kd", "kp", "tree", "tree", "grp"}
	var refStores []string
	for i, k := 0, rapid.IntRange(2, 4).Draw(t, "nRefStores"); i < k; i++ {
		refStores = append(refStores, allRefStores[rapid.IntRange(0, len(allRefStores)-1).Draw(t, fmt.Sprintf("refStore%d", i))])
	}
	cfg := c04Cfg
	if rapid.IntRange(0, 2).Draw(t, "extendedKt") == 0 {
		// the child store over targets is an extended one: it can read every target, but only targets with child data
		// are valid targets of a reference to it
		cfg.Children = []kit.ChildCfg{{Name: "kt", Parent: "targets", Extended: true}, {Name: "bk", Parent: "bn"}}
	}
	return kit.GenHistory(t, cfg, 20, 3, true, 30, func(t *rapid.T, l string, m *kit.Model) kit.Op {
		existing := func(store string) []string {
			var out []string
			for _, id := range ids {
				if _, ok := m.Ents[store][id]; ok {
					out = append(out, id)
				}
			}
			return out
		}
		targets := existing("targets")
		x := rapid.IntRange(0, 99).Draw(t, l+"_what")
		switch {
		case len(targets) == 0 || x < 12:
			// a third of the targets are created through the child store (and are valid targets of kn / kx / kd)
			store := []string{"targets", "targets", "kt"}[rapid.IntRange(0, 2).Draw(t, l+"_tstore")]
			return kit.Op{Kind: "create", Store: store, ID: ids[rapid.IntRange(0, len(ids)-1).Draw(t, l+"_tid")], Spec: &kit.EntSpec{Name: "n"}}
		case x < 30:
			// delete a target (referenced or not), through the parent store or, when it has child data, through the child store
			id := targets[rapid.IntRange(0, len(targets)-1).Draw(t, l+"_tdel")]
			store := "targets"
			if m.LinkEndExists("kt", id) && rapid.IntRange(0, 2).Draw(t, l+"_viaKid") == 0 {
				store = "kt"
			}
			return kit.Op{Kind: "delete", Store: store, ID: id}
		}
		store := refStores[rapid.IntRange(0, len(refStores)-1).Draw(t, l+"_store")]
		if x < 60 {
			// re-parent an existing referrer: full update or a patch selecting the reference, to another valid target
			// (or to null), so that the old target loses and the new one gains a back-reference
			if have := existing(store); len(have) > 0 {
				id := have[rapid.IntRange(0, len(have)-1).Draw(t, l+"_rpid")]
				pool := targets
				if store == "mgr" || store == "tree" || store == "grp" {
					pool = existing(store)
				}
				var refs []*string
				for _, tid := range pool {
					if cur := m.Ents[store][id].Ref; cur == nil || *cur != tid {
						refs = append(refs, kit.Sp(tid))
					}
				}
				refs = append(refs, nil)
				spec := &kit.EntSpec{Name: "n", Note: []string{"", "x"}[rapid.IntRange(0, 1).Draw(t, l+"_rpnote")], Ref: refs[rapid.IntRange(0, len(refs)-1).Draw(t, l+"_rpref")]}
				if rapid.Bool().Draw(t, l+"_rppatch") {
					fields := []string{kit.FRef}
					if rapid.Bool().Draw(t, l+"_rpnotef") {
						fields = append(fields, kit.FNote)
					}
					return kit.Op{Kind: "patch", Store: store, ID: id, Spec: spec, Fields: fields}
				}
				return kit.Op{Kind: "update", Store: store, ID: id, Spec: spec}
			}
		}
		u := kit.EntUniverse{IDs: ids, Names: []string{"n"}, Refs: refs, Fields: []string{kit.FRef, kit.FNote}, Notes: []string{"", "x"}}
		op := kit.GenEntOpM(t, l, store, u, m)
		if op.Spec != nil && rapid.IntRange(0, 9).Draw(t, l+"_goodref") < 7 {
			pool := targets
			if store == "mgr" || store == "tree" || store == "grp" {
				pool = existing(store)
			}
			if store == "kn" || store == "kx" || store == "kd" || store == "kp" {
				pool = nil
				for _, id := range targets {
					if m.LinkEndExists("kt", id) || rapid.IntRange(0, 5).Draw(t, l+"_plainTarget") == 0 {
						pool = append(pool, id)
					}
				}
			}
			if len(pool) > 0 {
				op.Spec.Ref = kit.Sp(pool[rapid.IntRange(0, len(pool)-1).Draw(t, l+"_refpick")])
			}
		}
		if store == "bn" && rapid.IntRange(0, 2).Draw(t, l+"_viaChild") == 0 {
			op.Store = "bk" // the same operation issued through the child store
		}
		return op
	})
}

// genC04Full adds, to some histories, a final "cascade burst": one transaction that creates a run of adjacent
// cascade-wired referrers of one target and then deletes that target.
// c04Case is a history plus, for some cases, ids given as raw bytes (they need not be valid UTF-8; as byte slices they
// survive the JSON replay file) and the choice of wiring for the sibling-child-stores scenario.
type c04Case struct {
	kit.History
	BinIDs          [][]byte `json:"binIds,omitempty"`
	SiblingsCascade bool     `json:"siblingsCascade,omitempty"`
}

var c04BinPool = [][]byte{{0xff, 0xfe}, []byte("a\xc3("), {0x80}, []byte("t\xffx"), {0xf0, 0x28, 0x8c, 0x28}, []byte("caf\xe9"), {0xc0, 0xaf}}

func genC04Case(t *rapid.T) c04Case {
	c := c04Case{History: genC04Full(t), SiblingsCascade: rapid.Bool().Draw(t, "siblingsCascade")}
	if rapid.IntRange(0, 2).Draw(t, "binaryIds") == 0 {
		seen := map[string]bool{}
		for i, n := 0, rapid.IntRange(1, 2).Draw(t, "nBinIds"); i < n; i++ {
			var id []byte
			if rapid.Bool().Draw(t, fmt.Sprintf("bin%d_pool", i)) {
				id = c04BinPool[rapid.IntRange(0, len(c04BinPool)-1).Draw(t, fmt.Sprintf("bin%d_pick", i))]
			} else {
				id = rapid.SliceOfN(rapid.Byte(), 1, 6).Draw(t, fmt.Sprintf("bin%d_bytes", i))
			}
			if !seen[string(id)] {
				seen[string(id)] = true
				c.BinIDs = append(c.BinIDs, id)
			}
		}
	}
	return c
}

func genC04Full(t *rapid.T) kit.History {
	h := genC04(t)
	if rapid.IntRange(0, 7).Draw(t, "deepChain") == 0 {
		// a chain of twenty nodes in the self-referencing cascade store, then the delete of its head (or of a node
		// near the head): the cascade nests once per level
		m := replayModel(h)
		for i := 0; i < 20; i++ {
			if _, exists := m.Ents["tree"][fmt.Sprintf("c%02d", i)]; exists {
				return h
			}
		}
		tx := kit.TxSpec{}
		for i := 0; i < 20; i++ {
			var parent *string
			if i > 0 {
				parent = kit.Sp(fmt.Sprintf("c%02d", i-1))
			}
			tx.Ops = append(tx.Ops, kit.Op{Kind: "create", Store: "tree", ID: fmt.Sprintf("c%02d", i), Spec: &kit.EntSpec{Name: "n", Ref: parent}})
		}
		h.Txs = append(h.Txs, tx)
		h.Txs = append(h.Txs, kit.TxSpec{Ops: []kit.Op{{Kind: "delete", Store: "tree", ID: []string{"c00", "c01", "c02"}[rapid.IntRange(0, 2).Draw(t, "deepVictim")]}}})
		return h
	}
	if rapid.IntRange(0, 5).Draw(t, "selfRootWithChildren") == 0 {
		// a root that names itself as its parent, with children; its id sorts before (or behind) theirs. Deleting it
		// is refused by the restricting self reference store: the children still refer to it
		m := replayModel(h)
		root := []string{"a-root", "m-root"}[rapid.IntRange(0, 1).Draw(t, "selfRootID")]
		free := true
		for _, id := range []string{root, "b-child", "c-child"} {
			if _, exists := m.Ents["grp"][id]; exists {
				free = false
			}
		}
		if free {
			h.Txs = append(h.Txs, kit.TxSpec{Ops: []kit.Op{
				{Kind: "create", Store: "grp", ID: root, Spec: &kit.EntSpec{Name: "n"}},
				{Kind: "update", Store: "grp", ID: root, Spec: &kit.EntSpec{Name: "n", Ref: kit.Sp(root)}},
				{Kind: "create", Store: "grp", ID: "b-child", Spec: &kit.EntSpec{Name: "n", Ref: kit.Sp(root)}},
				{Kind: "create", Store: "grp", ID: "c-child", Spec: &kit.EntSpec{Name: "n", Ref: kit.Sp(root)}}}})
			h.Txs = append(h.Txs, kit.TxSpec{Ops: []kit.Op{{Kind: "delete", Store: "grp", ID: root}}})
			return h
		}
	}
	if rapid.IntRange(0, 5).Draw(t, "missingTargetThroughParent") == 0 {
		// an entity with child data (created through the child store bk) is updated through the parent store bn to
		// reference a target that does not exist: refused, whichever store the update is routed to
		m := replayModel(h)
		if _, exists := m.Ents["bn"]["via-parent"]; !exists {
			tx := kit.TxSpec{}
			target := ""
			for _, id := range c04IDs {
				if _, ok := m.Ents["targets"][id]; ok {
					target = id
					break
				}
			}
			if target == "" {
				target = "vp-target"
				tx.Ops = append(tx.Ops, kit.Op{Kind: "create", Store: "targets", ID: target, Spec: &kit.EntSpec{Name: "n"}})
			}
			tx.Ops = append(tx.Ops, kit.Op{Kind: "create", Store: "bk", ID: "via-parent", Spec: &kit.EntSpec{Name: "n", Ref: kit.Sp(target), Extra: "x"}})
			h.Txs = append(h.Txs, tx)
			kind := []string{"update", "patch"}[rapid.IntRange(0, 1).Draw(t, "vpKind")]
			h.Txs = append(h.Txs, kit.TxSpec{Ops: []kit.Op{{Kind: kind, Store: "bn", ID: "via-parent", Fields: []string{kit.FRef}, Spec: &kit.EntSpec{Name: "n", Ref: kit.Sp("no-such-target")}}}})
			return h
		}
	}
	if rapid.IntRange(0, 5).Draw(t, "staleTarget") == 0 {
		// one transaction: reference a target, drop the reference, delete the target, reference it again.
		// The last step must be refused (the target no longer exists) and with it the whole transaction.
		m := replayModel(h)
		store := []string{"cn", "cd", "an", "bn", "ec"}[rapid.IntRange(0, 4).Draw(t, "staleStore")]
		target := "stale-target"
		tx := kit.TxSpec{}
		if _, ok := m.Ents["targets"][target]; !ok {
			tx.Ops = append(tx.Ops, kit.Op{Kind: "create", Store: "targets", ID: target, Spec: &kit.EntSpec{Name: "n"}})
		}
		for _, rid := range []string{"s0", "s1"} {
			if _, exists := m.Ents[store][rid]; exists {
				return h
			}
		}
		tx.Ops = append(tx.Ops,
			kit.Op{Kind: "create", Store: store, ID: "s0", Spec: &kit.EntSpec{Name: "n", Ref: kit.Sp(target)}},
			kit.Op{Kind: "delete", Store: store, ID: "s0"},
			kit.Op{Kind: "delete", Store: "targets", ID: target},
			kit.Op{Kind: "create", Store: store, ID: "s1", Spec: &kit.EntSpec{Name: "n", Ref: kit.Sp(target)}})
		h.Txs = append(h.Txs, tx)
		return h
	}
	if rapid.IntRange(0, 5).Draw(t, "treeChain") == 0 {
		// a three-level hierarchy in the self-referencing cascade store, then the delete of its root: every node of the
		// sub-tree goes, siblings at the same level included (the cascade re-enters itself for each child)
		m := replayModel(h)
		for _, id := range []string{"n0", "n1", "n1b", "n2", "n2b", "n3"} {
			if _, exists := m.Ents["tree"][id]; exists {
				return h
			}
		}
		mk := func(id string, parent *string) kit.Op {
			return kit.Op{Kind: "create", Store: "tree", ID: id, Spec: &kit.EntSpec{Name: "n", Ref: parent}}
		}
		h.Txs = append(h.Txs, kit.TxSpec{Ops: []kit.Op{mk("n0", nil), mk("n1", kit.Sp("n0")), mk("n1b", kit.Sp("n0")), mk("n2", kit.Sp("n1")), mk("n2b", kit.Sp("n1")), mk("n3", kit.Sp("n2"))}})
		victim := []string{"n0", "n1", "n0"}[rapid.IntRange(0, 2).Draw(t, "treeVictim")]
		h.Txs = append(h.Txs, kit.TxSpec{Ops: []kit.Op{{Kind: "delete", Store: "tree", ID: victim}}})
		return h
	}
	if rapid.IntRange(0, 4).Draw(t, "swapReferrer") == 0 {
		// one transaction: a new referrer of a target is added, then another referrer of the same target is deleted
		// (the target's back-reference set is written twice in the transaction and must end up holding the newcomer)
		m := replayModel(h)
		for _, store := range []string{"an", "bn", "ec", "kn", "kd", "cn"} {
			for _, rid := range sortedIDs(m.Ents[store]) { // sorted: the generator must not depend on map order
				e := m.Ents[store][rid]
				if e.Ref == nil || *e.Ref == "" {
					continue
				}
				newID := "swap-new"
				if _, exists := m.Ents[store][newID]; exists {
					continue
				}
				tx := kit.TxSpec{Ops: []kit.Op{
					{Kind: "create", Store: store, ID: newID, Spec: &kit.EntSpec{Name: "n", Ref: kit.Sp(*e.Ref)}},
					{Kind: "delete", Store: store, ID: rid}}}
				h.Txs = append(h.Txs, tx)
				// afterwards the target is still referenced: a delete must be refused or cascade to the newcomer
				h.Txs = append(h.Txs, kit.TxSpec{Ops: []kit.Op{{Kind: "delete", Store: "targets", ID: *e.Ref}}})
				return h
			}
		}
		return h
	}
	if rapid.IntRange(0, 3).Draw(t, "burst") != 0 {
		return h
	}
	m := replayModel(h)
	store := []string{"cd", "ec"}[rapid.IntRange(0, 1).Draw(t, "burstStore")]
	target := ""
	for _, id := range c04IDs {
		if _, ok := m.Ents["targets"][id]; ok {
			restricted := false
			for s := range m.Referrers("targets", id) {
				if s == "an" || s == "bn" || s == "cn" || s == "kn" || s == "kx" {
					restricted = true
				}
			}
			if !restricted {
				target = id
				break
			}
		}
	}
	tx := kit.TxSpec{}
	if target == "" {
		target = "burst-target"
		tx.Ops = append(tx.Ops, kit.Op{Kind: "create", Store: "targets", ID: target, Spec: &kit.EntSpec{Name: "n"}})
	}
	k := rapid.IntRange(2, 6).Draw(t, "burstSize")
	for i := 0; i < k; i++ {
		rid := fmt.Sprintf("k%d", i)
		kind := "create"
		if _, exists := m.Ents[store][rid]; exists {
			kind = "update"
		}
		tx.Ops = append(tx.Ops, kit.Op{Kind: kind, Store: store, ID: rid, Spec: &kit.EntSpec{Name: "n", Ref: kit.Sp(target)}})
	}
	tx.Ops = append(tx.Ops, kit.Op{Kind: "delete", Store: "targets", ID: target})
	h.Txs = append(h.Txs, tx)
	return h
}

func runC04(c c04Case) kit.Result {
	h := c.History
	res := kit.Result{Sub: len(h.Txs)}
	var deleteReferenced, reparent, hostileDelete, cascade, restrict, childTarget bool
	st, err := kit.RunHistory(h, func(w *kit.World, m *kit.Model, i int, tx kit.TxSpec, out kit.TxOutcome) error {
		return nil
	})
	// features are computed by replaying the model alone (pure), so they do not depend on the engine
	m := kit.NewModel(h.Cfg)
	for _, tx := range h.Txs {
		trial := m.Clone()
		ok := true
		for _, op := range tx.Ops {
			pre := trial.Clone()
			if op.Kind == "delete" {
				if refs := pre.Referrers(op.Store, op.ID); len(refs) > 0 {
					deleteReferenced = true
					for s := range refs {
						switch s {
						case "kn", "kx", "kd", "kp":
							childTarget = true
						}
						switch s {
						case "cd", "ec", "kd":
							cascade = true
						default:
							restrict = true
						}
					}
				}
				if c04IsHostile(op.ID) {
					hostileDelete = true
				}
			}
			if (op.Kind == "update" || op.Kind == "patch") && op.Store != "targets" && op.Store != "kt" {
				if e, exists := pre.Ents[op.Store][op.ID]; exists && op.Spec.Ref != nil && (e.Ref == nil || *e.Ref != *op.Spec.Ref) {
					reparent = true
				}
			}
			if c := trial.Apply(op, tx.System); len(c) > 0 {
				ok = false
				break
			}
		}
		if ok && !tx.Fail {
			m = trial
		}
	}
	res.Err = err
	if res.Err == nil && len(c.BinIDs) > 0 {
		var ids []string
		for _, b := range c.BinIDs {
			ids = append(ids, string(b))
		}
		if _, berr := kit.RunHistory(c04BinaryHistory(c04Cfg, ids), nil); berr != nil {
			res.Err = fmt.Errorf("targets whose ids are the byte strings %q: %v", ids, berr)
		}
		res.Classes = append(res.Classes, "ids-of-arbitrary-bytes")
	}
	if res.Err == nil {
		// the sibling-child-stores scenario runs with the first target ids of the history (or two plain ones)
		var owners []string
		seen := map[string]bool{}
		for _, tx := range h.Txs {
			for _, op := range tx.Ops {
				if (op.Store == "targets" || op.Store == "kt") && op.Kind == "create" && !seen[op.ID] && len(owners) < 2 {
					seen[op.ID] = true
					owners = append(owners, op.ID)
				}
			}
		}
		for _, b := range c.BinIDs {
			if !seen[string(b)] {
				owners = append(owners, string(b))
			}
		}
		if len(owners) == 0 {
			owners = []string{"o1", "o2"}
		}
		res.Err = c04Siblings(owners, c.SiblingsCascade)
		if res.Err == nil {
			res.Err = c04PrefixedReference(owners)
		}
	}
	res.NonTrivial = deleteReferenced || reparent || hostileDelete
	for name, on := range map[string]bool{"delete-of-referenced-target": deleteReferenced, "re-parenting-update": reparent, "delete-with-hostile-id": hostileDelete,
		"cascade-wiring-involved": cascade, "delete-of-target-referenced-through-child-store": childTarget, "restrict-wiring-involved": restrict, "reject-then-commit": st.RejectThenCommit} {
		if on {
			res.Classes = append(res.Classes, name)
		}
	}
	res.Classes = append(res.Classes, fmt.Sprintf("committed:%d", bucket(st.Committed)), fmt.Sprintf("rejected:%d", bucket(st.Rejected)))
	return res
}

func TestC04(t *testing.T) {
	kit.Execute(t, kit.Spec[c04Case]{
		ID:    "C04",
		Level: "exploration",
		Rule: "rapid draws histories (1-20 transactions of 1-3 create / update / patch / delete operations) over a target store and six referrer stores, one per wiring (nullable fk index, non-null fk index, fk constraint + cascade none, fk constraint + cascade delete, cascade-delete fk index, self-referencing nullable fk index), with 2-4 ids per history drawn from a universe mixing plain ids with ids containing quotes, backslashes, filter keywords, blanks, brackets, newlines, tabs and a control byte. " +
			"A model of references predicts every outcome (missing target, null in non-nullable, reference-exists on restrict, exact survivor set on cascade); after every transaction the entities of all stores, the back-reference sets and the full dump (on failure) are compared. " +
			"Also generated: three referrer stores whose target is a child store, a child store over the non-null referrer store, histories concentrated on 2-4 referrer stores, explicit re-parenting, stale-target, swap-referrer and cascade-burst transactions, system contexts. Also: a self-referencing cascade store with three-level hierarchies whose root or inner node is deleted, an extended variant of the child-store target. " +
			"Non-trivial history: a delete of a referenced target (either outcome), a re-parenting update, or a delete involving a hostile id. Distinct by hash of the history JSON.",
		Assumptions: []string{"expected error classes are checked only through the exported Is* helpers; error texts are never compared",
			"an entity referencing itself through a cascade wiring and cascade cycles are skipped as unspecified"},
		Gen: genC04Case, Run: runC04,
		QuickChecks: 1000, ThoroughFactor: 10,
	})
}
