package props

import (
	"fmt"
	"testing"

	"pgregory.net/rapid"

	"verif/kit"
)

// C16 — system entities can only be changed from a system context.

var c16Cfg = kit.WorldCfg{Stores: []kit.StoreCfg{
	{Name: "things", UniqueName: true, System: true},
	// deleted together with the thing they reference: a cascade must not lift the protection of a system entity
	{Name: "deps", System: true, RefTo: "things", RefWiring: kit.WireConstraintDel},
},
	// the constraint sits on the parent store; operations issued through a child store are bound by it as well
	Children: []kit.ChildCfg{{Name: "kidsys", Parent: "things"}},
}

var c16Universe = kit.EntUniverse{
	IDs:    []string{"s1", "s2", "s3", "s4"},
	Names:  []string{"a", "b", "c", "d", "e"},
	Notes:  []string{"", "n1", "n2"},
	Fields: []string{kit.FName, kit.FNote, "isSystem"},
	System: true,
}

var c16DepUniverse = kit.EntUniverse{
	IDs:    []string{"d1", "d2", "d3"},
	Names:  []string{"x"},
	Notes:  []string{"", "n1"},
	Refs:   []*string{kit.Sp("s1"), kit.Sp("s2"), kit.Sp("s3"), kit.Sp("s4"), nil},
	Fields: []string{kit.FNote, kit.FRef, "isSystem"},
	System: true,
}

func genC16(t *rapid.T) kit.History {
	h := genC16History(t)
	// the wrappers a refusal has to get through: a migration step reporting it on the step, a pre-commit action
	// registered by a pre-commit action, and a running instance that received its data through a snapshot restore
	for i := range h.Txs {
		tx := &h.Txs[i]
		l := fmt.Sprintf("w%d", i)
		if !tx.System && !tx.Batch && rapid.IntRange(0, 9).Draw(t, l+"_viaMigration") == 0 {
			tx.ViaMigration = true
		}
		if tx.LastInPreCommit && rapid.Bool().Draw(t, l+"_preCommitNested") {
			tx.PreCommitNested = true
		}
		if i > 0 && rapid.IntRange(0, 14).Draw(t, l+"_freshInstance") == 0 {
			tx.FreshInstance = true
		}
	}
	return h
}

func genC16History(t *rapid.T) kit.History {
	return kit.GenHistory(t, c16Cfg, 20, 3, true, 40, func(t *rapid.T, l string, m *kit.Model) kit.Op {
		if rapid.IntRange(0, 3).Draw(t, l+"_dep") == 0 {
			return kit.GenEntOpM(t, l, "deps", c16DepUniverse, m)
		}
		if rapid.IntRange(0, 9).Draw(t, l+"_deleteWhere") == 0 {
			// a bulk delete by filter over a population that may mix system and ordinary entities
			return kit.Op{Kind: "deletewhere", Field: kit.FNote, Store: []string{"things", "things", "kidsys"}[rapid.IntRange(0, 2).Draw(t, l+"_dwStore")],
				Spec: &kit.EntSpec{Note: c16Universe.Notes[rapid.IntRange(0, len(c16Universe.Notes)-1).Draw(t, l+"_dwNote")]}}
		}
		if rapid.IntRange(0, 3).Draw(t, l+"_viaChild") == 0 {
			u := c16Universe
			u.Extras = []string{"", "x"}
			return kit.GenEntOpM(t, l, "kidsys", u, m)
		}
		return kit.GenEntOpM(t, l, "things", c16Universe, m)
	})
}

func runC16(h kit.History) kit.Result {
	res := kit.Result{Sub: len(h.Txs)}
	st, err := kit.RunHistory(h, nil)
	res.Err = err
	m := kit.NewModel(h.Cfg)
	flip, refusedSystem := false, false
	for _, tx := range h.Txs {
		trial := m.Clone()
		ok := true
		for _, op := range tx.Ops {
			pre := trial.Clone()
			if e, exists := pre.Ents[pre.BaseStore(op.Store)][op.ID]; exists && op.Spec != nil && op.Kind != "create" && e.IsSystem != op.Spec.IsSystem {
				flip = true
				res.Classes = append(res.Classes, fmt.Sprintf("flip-attempt:system-ctx=%v:entity-system=%v", tx.System, e.IsSystem))
			}
			if op.Kind == "delete" && op.Store == "things" {
				for _, did := range pre.Referrers("things", op.ID)["deps"] {
					if pre.Ents["deps"][did].IsSystem {
						res.Classes = append(res.Classes, fmt.Sprintf("cascade-onto-system-entity:system-ctx=%v", tx.System))
					}
				}
			}
			if op.Spec != nil && op.Spec.Migrate && op.Kind != "create" {
				res.Classes = append(res.Classes, "update-with-migrate-flag")
			}
			if tx.DeriveSystemFirst {
				res.Classes = append(res.Classes, "ordinary-ctx-after-deriving-system-ctx")
			}
			if tx.ViaMigration {
				res.Classes = append(res.Classes, "migration-step")
			}
			if tx.FreshInstance {
				res.Classes = append(res.Classes, "after-restore-into-fresh-instance")
			}
			if tx.PreCommitNested {
				res.Classes = append(res.Classes, "second-level-pre-commit-action")
			}
			c := trial.Apply(op, tx.System)
			if len(c) > 0 {
				for _, x := range c {
					if x == kit.ErrSystem {
						refusedSystem = true
						res.Classes = append(res.Classes, "refused:"+op.Kind)
						if op.Store == "kidsys" {
							res.Classes = append(res.Classes, "refused-through-child-store:"+op.Kind)
						}
					}
				}
				ok = false
				break
			}
			if e, exists := pre.Ents[pre.BaseStore(op.Store)][op.ID]; exists && e.IsSystem && tx.System {
				res.Classes = append(res.Classes, "system-entity-changed-from-system-ctx:"+op.Kind)
			}
		}
		if ok && !tx.Fail {
			m = trial
		}
	}
	res.NonTrivial = refusedSystem && st.RejectThenCommit || flip
	return res
}

func TestC16(t *testing.T) {
	kit.Execute(t, kit.Spec[kit.History]{
		ID:    "C16",
		Level: "exploration",
		Rule: "rapid draws histories (1-20 transactions, 1-3 operations, ~45% in a system mutate context; a third of the ordinary ones first derive and discard a system context from their own context) of create (IsSystem true/false), update and patch (payloads that also flip IsSystem, a quarter with the Migrate flag) and delete over ids s1..s4 on a store with the system-entity enforcement constraint, plus a second protected store whose entities reference the first through a cascade-delete foreign key. " +
			"The model fixes the flag at creation: an operation touching a system entity (or creating one) from an ordinary context must fail and leave the dump unchanged, every other operation must succeed, and after every transaction the stored flag of every entity equals its creation flag. " +
			"Also generated: system contexts handed to Db.Update / Db.Batch from outside, delete-where over a non-unique field, a child store over the protected store, the last operation issued from a pre-commit action. " +
			"Non-trivial history: a refusal followed by a committed transaction, or an update that tries to flip the flag. Distinct by hash of the history JSON.",
		Gen: genC16, Run: runC16,
		QuickChecks: 1200, ThoroughFactor: 10,
	})
}
