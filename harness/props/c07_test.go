package props

import (
	"errors"
	"fmt"
	"strings"
	"testing"

	"github.com/openziti/storage/ast"
	"github.com/openziti/storage/boltz"
	"pgregory.net/rapid"

	"verif/kit"
)

// C07 — transactions are all-or-nothing and every failure reaches the caller (fault enumeration).

type c07Case struct {
	Setup kit.History `json:"setup"`
	Body  []kit.Op    `json:"body"` // operations the model accepts, in order
}

var c07Kinds = []string{"caller-error", "duplicate", "empty-value", "missing-fk-target", "unusable-key-empty", "unusable-key-too-large",
	"veto-create", "veto-update", "veto-delete", "veto-parent-on-child-create", "veto-child-update", "veto-cascaded-delete", "pre-commit-action-error",
	"pre-commit-action-error-then-ok-action", "unusable-key-in-patch", "veto-update-in-patch",
	"pre-commit-action-error-via-derived-system-ctx", "unusable-key-via-child-store", "unusable-key-update-via-child-store",
	"pre-commit-action-error-registered-before-tx", "unstorable-tag-nested-in-list", "unstorable-tag-top-level-in-patch",
	"missing-link-target-in-persisted-link-set", "missing-link-target-in-persisted-link-set-via-child-store", "self-id-reference-to-missing-target", "veto-cascaded-delete-of-child-entity", "veto-delete-where", "veto-delete-where-not-found-typed",
	"duplicate-of-id-only-entity", "duplicate-name-via-child-store-create", "empty-value-via-child-store-create", "missing-fk-target-via-child-store-create",
	"delete-of-self-referencing-root-with-children"}

// an entity type that persists nothing but its id (its content would live in link sets): the entity bucket is empty
type c07Bare struct{ Id string }

func (b *c07Bare) GetId() string         { return b.Id }
func (b *c07Bare) SetId(id string)       { b.Id = id }
func (b *c07Bare) GetEntityType() string { return "bare" }

type c07BareStrategy struct{}

func (c07BareStrategy) NewEntity() *c07Bare                           { return &c07Bare{} }
func (c07BareStrategy) FillEntity(*c07Bare, *boltz.TypedBucket)       {}
func (c07BareStrategy) PersistEntity(*c07Bare, *boltz.PersistContext) {}

// migration-step: the body is a step of MigrationManager.Migrate, which reports the failure on the step and returns the
// version it was heading for; migration-step-stays: ... and returns the version it started from
var c07Entries = []string{"update", "nested-update", "batch", "migration-step", "migration-step-stays"}

func c07OpGen(t *rapid.T, l string, m *kit.Model) kit.Op {
	// reuse the kitchen-sink vocabulary of C06
	x := rapid.IntRange(0, 99).Draw(t, l+"_what")
	if x < 20 && len(m.Ents["things"]) > 0 && len(m.Ents["targets"]) > 0 {
		rc := rapid.Bool().Draw(t, l+"_rc")
		op := kit.Op{Store: "things", Field: map[bool]string{false: "tlinks", true: "rct"}[rc]}
		op.ID = c06IDs["things"][rapid.IntRange(0, 2).Draw(t, l+"_lid")]
		op.Keys = []string{c06IDs["targets"][rapid.IntRange(0, 2).Draw(t, l+"_key")]}
		if rc {
			op.Kind = []string{"rcinc", "rcdec"}[rapid.IntRange(0, 1).Draw(t, l+"_rck")]
		} else {
			op.Kind = []string{"addlinks", "removelinks", "setlinks"}[rapid.IntRange(0, 2).Draw(t, l+"_lk")]
		}
		return op
	}
	stores := []string{"things", "things", "kids", "kids", "targets", "targets", "deps", "holders", "owned"}
	store := stores[rapid.IntRange(0, len(stores)-1).Draw(t, l+"_store")]
	refsTo := func(s string) []*string {
		out := []*string{nil}
		for _, id := range c06IDs[s] {
			out = append(out, kit.Sp(id), kit.Sp(id))
		}
		return out
	}
	u := kit.EntUniverse{IDs: c06IDs[store], Names: []string{"na", "nb", "nc", "nd", "ne", "nf"}, Notes: []string{"", "note"},
		Fields: []string{kit.FName, kit.FAlias, kit.FRoles, kit.FRef, kit.FExtra}}
	switch store {
	case "things", "kids":
		u.Aliases = []*string{nil, kit.Sp("al1"), kit.Sp("al2")}
		u.Roles = []string{"r1", "r2"}
		u.Refs = refsTo("targets")
		u.Extras = []string{"", "ex1"}
	case "targets":
		u.Roles = []string{"r1", "r2"}
	case "deps", "holders":
		u.Refs = refsTo("things")
	case "owned":
		u.Refs = refsTo("targets")
	}
	return kit.GenEntOpM(t, l, store, u, m)
}

func genC07(t *rapid.T) c07Case {
	c := c07Case{Setup: kit.GenHistory(t, c06Cfg, 10, 3, false, 90, c07OpGen)}
	if rapid.IntRange(0, 3).Draw(t, "childWithDependants") > 0 {
		// make sure the database holds an entity with child data that other entities depend on (cascade wiring)
		c.Setup.Txs = append(c.Setup.Txs, kit.TxSpec{Ops: []kit.Op{
			{Kind: "create", Store: "kids", ID: "id-thx", Spec: &kit.EntSpec{Name: "name-thx", Extra: "extra-thx", Roles: []string{"r1"}}},
			{Kind: "create", Store: "deps", ID: "id-dpx", Spec: &kit.EntSpec{Name: "d", Ref: kit.Sp("id-thx")}},
			{Kind: "create", Store: "deps", ID: "id-dpy", Spec: &kit.EntSpec{Name: "d", Ref: kit.Sp("id-thx")}}}})
	}
	if rapid.IntRange(0, 3).Draw(t, "selfRootWithChildren") > 0 {
		// a root that names itself as its parent and has children (in a store whose self reference restricts)
		c.Setup.Txs = append(c.Setup.Txs, kit.TxSpec{Ops: []kit.Op{
			{Kind: "create", Store: "grp", ID: "a-root", Spec: &kit.EntSpec{Name: "n"}},
			{Kind: "update", Store: "grp", ID: "a-root", Spec: &kit.EntSpec{Name: "n", Ref: kit.Sp("a-root")}},
			{Kind: "create", Store: "grp", ID: "b-child", Spec: &kit.EntSpec{Name: "n", Ref: kit.Sp("a-root")}},
			{Kind: "create", Store: "grp", ID: "c-child", Spec: &kit.EntSpec{Name: "n", Ref: kit.Sp("a-root")}}}})
	}
	// strip caller aborts / batches from the setup: it only has to populate the database
	for i := range c.Setup.Txs {
		c.Setup.Txs[i].Fail, c.Setup.Txs[i].Batch = false, false
	}
	m := replayModel(c.Setup)
	k := rapid.IntRange(1, 6).Draw(t, "bodyLen")
	for i := 0; i < k; i++ {
		for try := 0; try < 6; try++ {
			op := c07OpGen(t, fmt.Sprintf("b%d_%d", i, try), m)
			probe := m.Clone()
			if len(probe.Apply(op, false)) == 0 {
				m = probe
				c.Body = append(c.Body, op)
				break
			}
		}
	}
	return c
}

type c07Variant struct {
	kind    string
	failing *kit.Op
	arm     [3]string // store, id, change type
}

// failingVariant builds, from the model state at the failure position, an operation that must be rejected for the given reason.
func failingVariant(kind string, m *kit.Model) (c07Variant, bool) {
	v := c07Variant{kind: kind}
	anyOf := func(store string) (string, *kit.MEnt) {
		for _, id := range c06IDs[store] {
			if e, ok := m.Ents[store][id]; ok {
				return id, e
			}
		}
		return "", nil
	}
	fresh := func(store string) string { return "id-fresh-" + store }
	specOf := func(e *kit.MEnt) *kit.EntSpec {
		return &kit.EntSpec{Name: e.Name, Alias: e.Alias, Roles: e.Roles, Note: e.Note + "!", Ref: e.Ref, TagV: e.TagV}
	}
	switch kind {
	case "caller-error", "pre-commit-action-error", "pre-commit-action-error-then-ok-action", "pre-commit-action-error-via-derived-system-ctx",
		"pre-commit-action-error-registered-before-tx", "duplicate-of-id-only-entity":
		return v, true
	case "unstorable-tag-nested-in-list":
		// an entry bbolt refuses, inside a map inside a list inside the tag map
		v.failing = &kit.Op{Kind: "create", Store: "targets", ID: fresh("targets"), Spec: &kit.EntSpec{Name: "fresh-name", BadTags: "nested-in-list"}}
	case "unstorable-tag-top-level-in-patch":
		id, e := anyOf("things")
		if e == nil {
			return v, false
		}
		sp := specOf(e)
		sp.BadTags = "top-level"
		v.failing = &kit.Op{Kind: "patch", Store: "things", ID: id, Spec: sp, Fields: []string{boltz.FieldTags, kit.FNote}}
	case "missing-link-target-in-persisted-link-set":
		// the link set is persisted with the entity (PersistContext.SetLinkedIds) and names a target that does not exist
		id, e := anyOf("things")
		if e == nil {
			return v, false
		}
		sp := specOf(e)
		sp.LinkField, sp.LinkIDs = "tlinks", []string{"id-missing"}
		v.failing = &kit.Op{Kind: "update", Store: "things", ID: id, Spec: sp}
	case "missing-link-target-in-persisted-link-set-via-child-store":
		v.failing = &kit.Op{Kind: "create", Store: "kids", ID: fresh("things"), Spec: &kit.EntSpec{Name: "fresh-name", Extra: "fresh-extra", LinkField: "tlinks", LinkIDs: []string{"id-missing"}}}
	case "self-id-reference-to-missing-target":
		// the referenced id equals the referrer's own id (ids are unique per store only) and no such target exists
		v.failing = &kit.Op{Kind: "create", Store: "deps", ID: "id-same", Spec: &kit.EntSpec{Name: "d", Ref: kit.Sp("id-same")}}
	case "unusable-key-via-child-store":
		// a parent-level field that cannot be stored, written through the child store
		v.failing = &kit.Op{Kind: "create", Store: "kids", ID: fresh("things"), Spec: &kit.EntSpec{Name: "fresh-name", Roles: []string{"r1", strings.Repeat("y", 33000)}, Extra: "ex"}}
	case "unusable-key-update-via-child-store":
		for _, id := range c06IDs["things"] {
			if e, ok := m.Ents["things"][id]; ok {
				if _, isKid := e.Kid["kids"]; isKid {
					sp := specOf(e)
					sp.Extra = e.Kid["kids"]
					sp.Roles = append(append([]string{}, e.Roles...), strings.Repeat("y", 33000))
					v.failing = &kit.Op{Kind: "update", Store: "kids", ID: id, Spec: sp}
					return v, true
				}
			}
		}
		return v, false
	case "unusable-key-in-patch":
		// a field-restricted update whose first selected field cannot be stored, followed by selected fields that can
		id, e := anyOf("things")
		if e == nil {
			return v, false
		}
		sp := specOf(e)
		sp.Roles = append(append([]string{}, e.Roles...), strings.Repeat("z", 33000))
		v.failing = &kit.Op{Kind: "patch", Store: "things", ID: id, Spec: sp, Fields: []string{kit.FRoles, kit.FNote, kit.FRef}}
	case "veto-update-in-patch":
		id, e := anyOf("targets")
		if e == nil {
			return v, false
		}
		v.failing = &kit.Op{Kind: "patch", Store: "targets", ID: id, Spec: specOf(e), Fields: []string{kit.FNote, kit.FRoles}}
		v.arm = [3]string{"targets", id, "updated"}
	case "duplicate":
		_, e := anyOf("things")
		if e == nil {
			return v, false
		}
		v.failing = &kit.Op{Kind: "create", Store: "things", ID: fresh("things"), Spec: &kit.EntSpec{Name: e.Name}}
	case "empty-value":
		v.failing = &kit.Op{Kind: "create", Store: "targets", ID: fresh("targets"), Spec: &kit.EntSpec{Name: ""}}
	case "delete-of-self-referencing-root-with-children":
		if _, ok := m.Ents["grp"]["a-root"]; !ok || len(m.Referrers("grp", "a-root")["grp"]) < 2 {
			return v, false
		}
		v.failing = &kit.Op{Kind: "delete", Store: "grp", ID: "a-root"}
	case "duplicate-name-via-child-store-create":
		// the parent store's rules bind an entity that is created through the child store
		_, e := anyOf("things")
		if e == nil {
			return v, false
		}
		v.failing = &kit.Op{Kind: "create", Store: "kids", ID: fresh("things"), Spec: &kit.EntSpec{Name: e.Name, Extra: "ex-dup"}}
	case "empty-value-via-child-store-create":
		v.failing = &kit.Op{Kind: "create", Store: "kids", ID: fresh("things"), Spec: &kit.EntSpec{Name: "", Extra: "ex-empty"}}
	case "missing-fk-target-via-child-store-create":
		v.failing = &kit.Op{Kind: "create", Store: "kids", ID: fresh("things"), Spec: &kit.EntSpec{Name: "fresh-name", Ref: kit.Sp("id-missing"), Extra: "ex-ref"}}
	case "missing-fk-target":
		v.failing = &kit.Op{Kind: "create", Store: "holders", ID: fresh("holders"), Spec: &kit.EntSpec{Name: "h", Ref: kit.Sp("id-missing")}}
	case "unusable-key-empty":
		v.failing = &kit.Op{Kind: "create", Store: "things", ID: fresh("things"), Spec: &kit.EntSpec{Name: "fresh-name", Roles: []string{"r1", ""}}}
	case "unusable-key-too-large":
		v.failing = &kit.Op{Kind: "create", Store: "things", ID: fresh("things"), Spec: &kit.EntSpec{Name: strings.Repeat("k", 40000)}}
	case "veto-create":
		v.failing = &kit.Op{Kind: "create", Store: "targets", ID: fresh("targets"), Spec: &kit.EntSpec{Name: "fresh-name"}}
		v.arm = [3]string{"targets", fresh("targets"), "created"}
	case "veto-update":
		id, e := anyOf("targets")
		if e == nil {
			return v, false
		}
		v.failing = &kit.Op{Kind: "update", Store: "targets", ID: id, Spec: specOf(e)}
		v.arm = [3]string{"targets", id, "updated"}
	case "veto-delete":
		for _, store := range []string{"holders", "deps", "owned", "things", "targets"} {
			for _, id := range c06IDs[store] {
				if _, ok := m.Ents[store][id]; !ok {
					continue
				}
				if probe := m.Clone(); len(probe.Delete(store, id, false)) == 0 {
					v.failing = &kit.Op{Kind: "delete", Store: store, ID: id}
					v.arm = [3]string{store, id, "deleted"}
					return v, true
				}
			}
		}
		return v, false
	case "veto-delete-where", "veto-delete-where-not-found-typed":
		// a bulk delete by filter; the delete of one matching entity is refused by a constraint (in the second kind with
		// an error of the not-found type, as a constraint raises when something it needs is missing)
		for _, id := range c06IDs["targets"] {
			e, ok := m.Ents["targets"][id]
			if !ok {
				continue
			}
			if probe := m.Clone(); len(probe.Delete("targets", id, false)) == 0 {
				v.failing = &kit.Op{Kind: "deletewhere", Store: "targets", Spec: &kit.EntSpec{Name: e.Name}}
				v.arm = [3]string{"targets", id, "deleted"}
				return v, true
			}
		}
		return v, false
	case "veto-parent-on-child-create":
		// the op goes through the child store, the veto is raised by a constraint of the parent store
		v.failing = &kit.Op{Kind: "create", Store: "kids", ID: fresh("things"), Spec: &kit.EntSpec{Name: "fresh-name", Extra: "ex"}}
		v.arm = [3]string{"things", fresh("things"), "created"}
	case "veto-child-update":
		for _, id := range c06IDs["things"] {
			if e, ok := m.Ents["things"][id]; ok {
				if _, isKid := e.Kid["kids"]; isKid {
					sp := specOf(e)
					sp.Extra = e.Kid["kids"]
					// issued through the parent store, routed to the child store, vetoed by the child store's constraint
					v.failing = &kit.Op{Kind: "update", Store: "things", ID: id, Spec: sp}
					v.arm = [3]string{"kids", id, "updated"}
					return v, true
				}
			}
		}
		return v, false
	case "veto-cascaded-delete", "veto-cascaded-delete-of-child-entity":
		// deleting a thing cascades to its deps; the veto is raised for the cascaded delete
		for _, id := range append([]string{"id-thx"}, c06IDs["things"]...) {
			e, ok := m.Ents["things"][id]
			if !ok {
				continue
			}
			if kind == "veto-cascaded-delete-of-child-entity" && len(e.Kid) == 0 {
				continue // this kind wants a thing that has child data (its delete also runs the child store's pass)
			}
			deps := m.Referrers("things", id)["deps"]
			if len(deps) == 0 {
				continue
			}
			if probe := m.Clone(); len(probe.Delete("things", id, false)) == 0 {
				v.failing = &kit.Op{Kind: "delete", Store: "things", ID: id}
				v.arm = [3]string{"deps", deps[0], "deleted"}
				return v, true
			}
		}
		return v, false
	default:
		panic("unknown kind " + kind)
	}
	return v, true
}

var errInjected = errors.New("injected failure")

func runC07(c c07Case) kit.Result {
	res := kit.Result{}
	w, err := kit.NewWorld(c.Setup.Cfg)
	if err != nil {
		res.Err = err
		return res
	}
	defer w.Close()
	rec := &kit.Recorder{}
	veto := &kit.Veto{}
	w.InstallRecorders(rec, veto)
	bare := boltz.NewBaseStore(boltz.StoreDefinition[*c07Bare]{EntityType: "bare", EntityStrategy: c07BareStrategy{}, BasePath: c.Setup.Cfg.Base()})
	bare.InitImpl(bare)
	bare.AddIdSymbol("id", ast.NodeTypeString)
	if err := w.Z.Db.Update(kit.NewCtx(), func(ctx boltz.MutateContext) error { return bare.Create(ctx, &c07Bare{Id: "bare-1"}) }); err != nil {
		res.Err = fmt.Errorf("setup: creating the id-only entity: %v", err)
		return res
	}
	m := kit.NewModel(c.Setup.Cfg)
	for i, tx := range c.Setup.Txs {
		if out := kit.RunTx(w, m, tx); out.Violation != nil {
			res.Err = fmt.Errorf("setup transaction %d: %v", i, out.Violation)
			return res
		}
	}
	if err := w.Barrier(); err != nil {
		res.Err = err
		return res
	}
	rec.Drain()
	baseline := w.Dump()

	// model state before each body position
	states := []*kit.Model{m.Clone()}
	cur := m.Clone()
	for _, op := range c.Body {
		if cz := cur.Apply(op, false); len(cz) > 0 {
			res.Err = fmt.Errorf("harness: body op %s not accepted by the model: %v", op, cz)
			return res
		}
		states = append(states, cur.Clone())
	}

	variants, lateFailures := 0, 0
	for _, entry := range c07Entries {
		for pos := 0; pos <= len(c.Body); pos++ {
			if entry == "batch" && pos != 0 && pos != len(c.Body) {
				continue // Db.Batch waits 10 ms per call: first and last position only
			}
			if strings.HasPrefix(entry, "migration-step") && pos != 0 && pos != len(c.Body) {
				continue
			}
			for _, kind := range c07Kinds {
				v, ok := failingVariant(kind, states[pos])
				if strings.HasPrefix(entry, "migration-step") && kind == "pre-commit-action-error-registered-before-tx" {
					ok = false // the migration manager supplies the context
				}
				if !ok {
					res.Classes = append(res.Classes, "not-applicable:"+kind)
					continue
				}
				variants++
				if pos >= 2 {
					lateFailures++
				}
				res.Classes = append(res.Classes, "kind:"+kind, "entry:"+entry)
				label := fmt.Sprintf("[%s, failure %q at position %d of %d]", entry, kind, pos, len(c.Body))
				var opErr error
				opRan := false
				var harnessErr error
				body := func(ctx boltz.MutateContext) error {
					opErr, opRan, harnessErr = nil, false, nil
					ctx.AddCommitAction(func() { rec.Add(kit.Event{Type: "commit-action", Style: "failing-tx"}) })
					upto := pos
					preCommit := strings.HasPrefix(kind, "pre-commit-action-error")
					addFailingAction := func() {
						if kind == "pre-commit-action-error-registered-before-tx" {
							return // already queued on the context before the transaction was opened
						}
						if kind == "pre-commit-action-error-via-derived-system-ctx" {
							// registered through a system context derived inside the transaction body
							ctx.GetSystemContext().AddPreCommitAction(func(boltz.MutateContext) error { return errInjected })
							return
						}
						ctx.AddPreCommitAction(func(boltz.MutateContext) error { return errInjected })
						if kind == "pre-commit-action-error-then-ok-action" {
							// a later action that succeeds must not mask the earlier failure
							ctx.AddPreCommitAction(func(boltz.MutateContext) error { return nil })
						}
					}
					if preCommit {
						upto = len(c.Body)
					}
					for i, op := range c.Body[:upto] {
						if i == pos && preCommit {
							addFailingAction()
						}
						if _, err := w.Exec(ctx, op); err != nil {
							harnessErr = fmt.Errorf("%s body op %d %s, accepted by the model, failed: %v", label, i, op, err)
							return err
						}
					}
					switch {
					case kind == "caller-error":
						return errInjected
					case preCommit:
						if pos >= upto {
							addFailingAction()
						}
						return nil
					}
					if kind == "duplicate-of-id-only-entity" {
						// the id is taken by an entity that has no content of its own
						opErr = bare.Create(ctx, &c07Bare{Id: "bare-1"})
						opRan = true
						if opErr == nil {
							return errInjected
						}
						return opErr
					}
					veto.NotFoundTyped = kind == "veto-delete-where-not-found-typed"
					veto.Arm(v.arm[0], v.arm[1], v.arm[2])
					_, opErr = w.Exec(ctx, *v.failing)
					veto.Disarm()
					opRan = true
					if opErr == nil {
						// the rejection was swallowed; abort so the database stays comparable, the verdict is taken below
						return errInjected
					}
					return opErr
				}
				var txErr error
				topCtx := kit.NewCtx()
				if kind == "pre-commit-action-error-registered-before-tx" {
					topCtx.AddPreCommitAction(func(boltz.MutateContext) error { return errInjected })
				}
				switch entry {
				case "update":
					txErr = w.Z.Db.Update(topCtx, body)
				case "batch":
					txErr = w.Z.Db.Batch(topCtx, body)
				case "nested-update":
					txErr = w.Z.Db.Update(topCtx, func(ctx boltz.MutateContext) error {
						return w.Z.Db.Update(ctx, body)
					})
				case "migration-step", "migration-step-stays":
					w.MigSeq++
					txErr = boltz.NewMigratorManager(w.Z.Db).Migrate(fmt.Sprintf("verif-%d", w.MigSeq), 1, func(step *boltz.MigrationStep) int {
						if err := body(step.Ctx); err != nil {
							step.SetError(err)
							if entry == "migration-step-stays" {
								return step.CurrentVersion
							}
						}
						return 1
					})
				}
				if harnessErr != nil {
					res.Err = harnessErr
					return res
				}
				if opRan && opErr == nil && v.failing == nil {
					res.Err = fmt.Errorf("%s creating an entity whose id is taken (by an entity that persists nothing but its id) reported success", label)
					return res
				}
				if opRan && opErr == nil {
					res.Err = fmt.Errorf("%s %s reported success although a step was rejected (%s)", label, v.failing, describeArm(v))
					return res
				}
				if txErr == nil {
					res.Err = fmt.Errorf("%s the transaction returned nil to the caller", label)
					return res
				}
				if d := kit.DiffDumps(baseline, w.Dump()); d != "" {
					res.Err = fmt.Errorf("%s the failed transaction changed the database:\n%s", label, d)
					return res
				}
				if err := w.Barrier(); err != nil {
					res.Err = err
					return res
				}
				for _, e := range rec.Drain() {
					if e.Type == "tx-complete" {
						continue // one per barrier transaction; the failing one may not add any (checked by count below)
					}
					res.Err = fmt.Errorf("%s a callback ran for a transaction that failed: %+v", label, e)
					return res
				}
			}
		}
	}
	// tx-complete listeners: count over one more failing transaction + barrier
	rec.Drain()
	_ = w.Z.Db.Update(kit.NewCtx(), func(ctx boltz.MutateContext) error { return errInjected })
	if err := w.Barrier(); err != nil {
		res.Err = err
		return res
	}
	n := 0
	for _, e := range rec.Drain() {
		if e.Type == "tx-complete" {
			n++
		}
	}
	if n != 1 {
		res.Err = fmt.Errorf("tx-complete listener ran %d times for one failed and one committed transaction (want 1)", n)
		return res
	}

	// positive control: the same body without an injected failure commits and matches the model
	commitDone := make(chan struct{})
	err = w.Z.Db.Update(kit.NewCtx(), func(ctx boltz.MutateContext) error {
		ctx.AddCommitAction(func() { close(commitDone) })
		for i, op := range c.Body {
			if _, err := w.Exec(ctx, op); err != nil {
				return fmt.Errorf("body op %d %s: %v", i, op, err)
			}
		}
		return nil
	})
	if err != nil {
		res.Err = fmt.Errorf("positive control: the body without injected failure did not commit: %v", err)
		return res
	}
	<-commitDone
	if err := w.CheckAll(states[len(states)-1]); err != nil {
		res.Err = fmt.Errorf("positive control: after the body committed: %v", err)
		return res
	}
	res.Sub = variants
	res.NonTrivial = variants > 0 && (lateFailures > 0 || len(c.Body) >= 1)
	return res
}

func describeArm(v c07Variant) string {
	if v.arm[0] == "" {
		return "the model rejects this operation"
	}
	return fmt.Sprintf("a constraint on store %s vetoed the %s of %s in ProcessPreCommit", v.arm[0], v.arm[2], v.arm[1])
}

func TestC07(t *testing.T) {
	kit.Execute(t, kit.Spec[c07Case]{
		ID:    "C07",
		Level: "fault_enumeration",
		Rule: "rapid draws a populated kitchen-sink database (setup history) and a transaction body of 1-6 operations the model accepts; the runner then ENUMERATES failure kind (caller error, duplicate unique value, empty value in non-nullable index, missing fk target, unusable key: empty bucket name / key too large, constraint veto on create / update / delete, veto raised by the parent store for a child-store create, veto raised by the child store for an update routed from the parent, veto on a cascaded delete, pre-commit action error) x every failure position 0..len(body) x entry point (Db.Update, nested Db.Update on a bound context, Db.Batch at the first and last position). " +
			"For each: the rejected store call returns non-nil, the transaction returns non-nil, the full dump equals the baseline, and after a barrier transaction no entity listener of any style, commit action or tx-complete listener has run; finally the unmodified body must commit and match the model (the body is not vacuous). " +
			"Since the first version the enumeration grew to 33 failure kinds and five entry points (Db.Update, nested Db.Update, Db.Batch, two conventions of a migration step): also a pre-commit action queued before the transaction is opened, unstorable values nested below a list in a SetMap document or in the tags of a patch, a missing link target in a link set persisted with the entity (through either store), a reference to a missing target that equals the referrer's own id, vetoes on a bulk delete by filter (plain and of the not-found type), a cascaded-delete veto through an entity with child data. " +
			"evaluations counts bodies, sub_evaluations counts failing transactions executed; a body is non-trivial when it produced at least one failing transaction. Kind x position enumeration per body is exhaustive; bodies are sampled.",
		Assumptions: []string{"a fresh MutateContext per top-level transaction", "storage errors are provoked with inputs bbolt refuses (empty bucket name, key > 32768 bytes); there is no fault-injection hook below bbolt"},
		Gen:         genC07, Run: runC07,
		QuickChecks: 40, ThoroughFactor: 6,
	})
}
