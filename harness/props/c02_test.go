package props

import (
	"bytes"
	"context"
	"fmt"
	"runtime/debug"
	"sort"
	"strings"
	"testing"
	"time"

	"github.com/openziti/storage/ast"
	"github.com/openziti/storage/boltz"
	"go.etcd.io/bbolt"
	"pgregory.net/rapid"

	"verif/kit"
)

// C02 — sort order, skip, limit and total count are exact.

type c02Case struct {
	Data    *kit.Dataset    `json:"data"`
	Queries []kit.QuerySpec `json:"queries"`
}

var c02SortSyms = []string{"sa", "sb", "ia", "ib", "fa", "ba", "ta", "id", "boss", "home"}

func genPaging(t *rapid.T, l string, n int) kit.Paging {
	var p kit.Paging
	switch rapid.IntRange(0, 9).Draw(t, l+"_skipkind") {
	case 0, 1, 2:
	case 3:
		v := int64(0)
		p.Skip = &v
	case 4:
		v := int64(rapid.IntRange(-3, -1).Draw(t, l+"_skipneg"))
		p.Skip = &v
	default:
		v := int64(rapid.IntRange(1, n+2).Draw(t, l+"_skip"))
		p.Skip = &v
	}
	switch rapid.IntRange(0, 9).Draw(t, l+"_limkind") {
	case 0, 1, 2:
	case 3:
		p.LimitNone = true
	case 4:
		// any negative limit means unbounded, not only the -1 the parser uses for "none"
		v := int64([]int{-1, -1, -2, -3, -100}[rapid.IntRange(0, 4).Draw(t, l+"_limneg")])
		p.Limit = &v
	case 5:
		v := int64(0)
		p.Limit = &v
	default:
		v := int64(rapid.IntRange(1, n+2).Draw(t, l+"_lim"))
		p.Limit = &v
	}
	return p
}

func genSort(t *rapid.T, l string, syms []string, maxKeys int) []kit.SortKey {
	n := rapid.IntRange(0, maxKeys).Draw(t, l+"_nsort")
	var keys []kit.SortKey
	for i := 0; i < n; i++ {
		k := kit.SortKey{Sym: syms[rapid.IntRange(0, len(syms)-1).Draw(t, fmt.Sprintf("%s_sk%d", l, i))]}
		switch rapid.IntRange(0, 4).Draw(t, fmt.Sprintf("%s_sd%d", l, i)) {
		case 0:
		case 1:
			k.Dir = "asc"
		case 2:
			k.Dir = "ASC"
		case 3:
			k.Dir, k.Desc = "desc", true
		case 4:
			k.Dir, k.Desc = "DeSc", true
		}
		keys = append(keys, k)
	}
	return keys
}

// lowCardinality rewrites the dataset so that sort keys tie often (<= 3 distinct values per key).
func lowCardinality(t *rapid.T, d *kit.Dataset) {
	for i := range d.People {
		p := &d.People[i]
		l := fmt.Sprintf("lc%d", i)
		if v := p.F["sa"]; !v.IsNull() {
			p.F["sa"] = kit.SV([]string{"a", "B", ""}[rapid.IntRange(0, 2).Draw(t, l+"_sa")])
		}
		if v := p.F["ia"]; !v.IsNull() {
			p.F["ia"] = kit.IV([]int64{-1, 0, 1 << 40}[rapid.IntRange(0, 2).Draw(t, l+"_ia")])
		}
		if v := p.F["fa"]; !v.IsNull() {
			p.F["fa"] = kit.FV([]float64{-1.5, 0, 2.5}[rapid.IntRange(0, 2).Draw(t, l+"_fa")])
		}
	}
}

func genC02(t *rapid.T) c02Case {
	d := kit.GenDataset(t, 8, 2)
	if rapid.IntRange(0, 2).Draw(t, "lowcard") > 0 {
		lowCardinality(t, d)
	}
	if rapid.IntRange(0, 3).Draw(t, "constSB") == 0 {
		// make one field constant so that "sort by sb" must reproduce the default order
		for i := range d.People {
			d.People[i].F["sb"] = kit.SV("same")
		}
	}
	withStaff := rapid.IntRange(0, 2).Draw(t, "withStaff") == 0
	if withStaff {
		// a mixed population of plain people and people with child data in the staff child store
		for i := range d.People {
			d.People[i].Staff = rapid.Bool().Draw(t, fmt.Sprintf("staff%d", i))
		}
	}
	c := c02Case{Data: d}
	nq := rapid.IntRange(3, 8).Draw(t, "nQueries")
	for i := 0; i < nq; i++ {
		l := fmt.Sprintf("q%d", i)
		q := kit.QuerySpec{Kind: "people"}
		switch rapid.IntRange(0, 3).Draw(t, l+"_predkind") {
		case 0:
		case 1:
			q.Pred = &kit.Expr{Op: "true"}
		default:
			q.Pred = kit.GenExpr(t, l+"_p", "people", rapid.IntRange(0, 2).Draw(t, l+"_depth"), &kit.GenOpts{NoSubQuery: true})
		}
		q.Sort = genSort(t, l, c02SortSyms, 5)
		q.Page = genPaging(t, l, len(d.People))
		if withStaff {
			q.Via = []string{"", "staff", "staff", "staffx"}[rapid.IntRange(0, 3).Draw(t, l+"_via")]
		}
		c.Queries = append(c.Queries, q)
	}
	return c
}

func runC02(c c02Case) kit.Result {
	res := kit.Result{Sub: len(c.Queries)}
	db := kit.NewRawDB()
	defer db.Close()
	schema := kit.NewScanSchema(c.Data.Variant)
	if err := schema.Write(db.DB, c.Data); err != nil {
		res.Err = fmt.Errorf("writing dataset: %v", err)
		return res
	}
	var held []c02Held
	err := db.DB.View(func(tx *bbolt.Tx) error {
		for qi := range c.Queries {
			q := &c.Queries[qi]
			text := q.Render()
			store := schema.People
			member := func(id string) bool { return true }
			switch q.Via {
			case "staff":
				store = schema.Staff
				member = func(id string) bool { return c.Data.PersonByID(id).Staff }
				res.Classes = append(res.Classes, "via:child-store")
			case "staffx":
				store = schema.StaffX
				res.Classes = append(res.Classes, "via:extended-child-store")
			}
			var matches []string
			if q.Pred != nil {
				must, may := kit.RefMatch(c.Data, "people", q.Pred)
				if len(may) > 0 {
					res.Classes = append(res.Classes, "skipped:unspecified-predicate")
					continue
				}
				matches = must
			} else {
				matches = idsOf(c.Data, "people")
			}
			if q.Via == "staff" {
				// the child store's population: only people with child data
				var in []string
				for _, id := range matches {
					if member(id) {
						in = append(in, id)
					}
				}
				if len(in) < len(matches) {
					res.Classes = append(res.Classes, "via:child-store-excludes-matching-plain-parent")
				}
				matches = in
			}
			ordered := kit.RefOrder(c.Data, "people", matches, q.Sort)
			want := kit.RefPage(ordered, q.Page)

			// classes / non-triviality
			cut := len(want) < len(matches)
			negOrAbsent := q.Page.Skip == nil || *q.Page.Skip < 0 || q.Page.Limit == nil || q.Page.LimitNone || (q.Page.Limit != nil && *q.Page.Limit < 0)
			if cut || negOrAbsent && len(q.Sort) > 0 || len(q.Sort) >= 2 {
				res.NonTrivial = true
			}
			res.Classes = append(res.Classes, fmt.Sprintf("sortkeys:%d", len(q.Sort)))
			if len(q.Sort) > 0 && q.Sort[0].Sym != "id" {
				res.Classes = append(res.Classes, "scan:sorting")
			} else {
				res.Classes = append(res.Classes, "scan:index")
			}
			switch {
			case q.Page.Skip == nil:
				res.Classes = append(res.Classes, "skip:absent")
			case *q.Page.Skip < 0:
				res.Classes = append(res.Classes, "skip:negative")
			case *q.Page.Skip == 0:
				res.Classes = append(res.Classes, "skip:0")
			case int(*q.Page.Skip) >= len(matches):
				res.Classes = append(res.Classes, "skip:past-end")
			default:
				res.Classes = append(res.Classes, "skip:inside")
			}
			switch {
			case q.Page.LimitNone:
				res.Classes = append(res.Classes, "limit:none")
			case q.Page.Limit == nil:
				res.Classes = append(res.Classes, "limit:absent")
			case *q.Page.Limit < 0:
				res.Classes = append(res.Classes, "limit:negative")
			case *q.Page.Limit == 0:
				res.Classes = append(res.Classes, "limit:0")
			default:
				res.Classes = append(res.Classes, "limit:positive")
			}

			check := func(route string, ids []string, count int64, err error) error {
				if err != nil {
					return fmt.Errorf("query: %s [via %q]\n  %s returned error: %v", text, q.Via, route, err)
				}
				if fmt.Sprint(ids) != fmt.Sprint(want) || (count >= 0 && int(count) != len(matches)) {
					return fmt.Errorf("query: %s [via %q]\n  %s -> %v count %d\n  reference -> %v count %d (matches in order: %v)", text, q.Via, route, ids, count, want, len(matches), ordered)
				}
				return nil
			}
			ids, count, err := store.QueryIds(tx, text)
			if err := check("QueryIds", ids, count, err); err != nil {
				return err
			}
			held = append(held, c02Held{text: text, ids: ids, want: want})
			pq, err := ast.Parse(store, text)
			if err != nil {
				return fmt.Errorf("query: %s rejected by ast.Parse: %v", text, err)
			}
			ids2, count2, err := store.QueryIdsC(tx, pq)
			if err := check("QueryIdsC", ids2, count2, err); err != nil {
				return err
			}
			// a compiled query can be executed again (callers page through results with one query object)
			ids2b, count2b, err := store.QueryIdsC(tx, pq)
			if err := check("QueryIdsC (second execution of the same compiled query)", ids2b, count2b, err); err != nil {
				return err
			}
			// explicit cursor provider over all ids (tree-backed set instead of the bolt bucket cursor)
			pq3, _ := ast.Parse(store, text)
			ids3, count3, err := store.QueryWithCursorC(tx, func(tx *bbolt.Tx, forward bool) ast.SetCursor {
				if len(c.Data.People) == 0 {
					return ast.NewEmptyCursor()
				}
				// ids are added in a scrambled order and some twice: the set itself has to order and de-duplicate
				set := ast.NewTreeSet(forward)
				n := len(c.Data.People)
				for i := 0; i < n; i++ {
					set.Add([]byte(c.Data.People[(i*5+3)%n].ID))
				}
				for i := 0; i < n; i += 2 {
					set.Add([]byte(c.Data.People[i].ID))
				}
				for i := 0; i < n; i++ {
					set.Add([]byte(c.Data.People[i].ID))
				}
				return set.ToCursor()
			}, pq3)
			if err := check("QueryWithCursorC(tree set of all ids)", ids3, count3, err); err != nil {
				return err
			}
			// union of two overlapping tree sets (ids common to both must be served once, in either direction)
			if len(c.Data.People) > 0 {
				pq3u, _ := ast.Parse(store, text)
				ids3u, count3u, err := store.QueryWithCursorC(tx, func(tx *bbolt.Tx, forward bool) ast.SetCursor {
					a, b := ast.NewTreeSet(forward), ast.NewTreeSet(forward)
					n := len(c.Data.People)
					for i := 0; i < n; i++ {
						if i%3 != 0 {
							a.Add([]byte(c.Data.People[i].ID))
						}
						if i%2 == 0 || i >= n/2 {
							b.Add([]byte(c.Data.People[i].ID))
						}
						if i%3 == 0 {
							b.Add([]byte(c.Data.People[i].ID))
						}
					}
					if a.Size() == 0 {
						return b.ToCursor()
					}
					return ast.NewUnionSetCursor(a.ToCursor(), b.ToCursor(), forward)
				}, pq3u)
				if err := check("QueryWithCursorC(union of two overlapping tree sets)", ids3u, count3u, err); err != nil {
					return err
				}
			}
			// the members of a place (its link set of people), served through the store's related-entities cursor in the
			// direction the scanner asks for
			for _, pl := range c.Data.Places {
				if !pl.People.Present || len(pl.People.Elems) == 0 || q.Via != "" {
					continue
				}
				member, ok := map[string]bool{}, true
				for _, id := range pl.People.Elems {
					if c.Data.PersonByID(id) == nil {
						ok = false
					}
					member[id] = true
				}
				if !ok {
					continue
				}
				var inPlace []string
				for _, id := range matches {
					if member[id] {
						inPlace = append(inPlace, id)
					}
				}
				wantPl := kit.RefPage(kit.RefOrder(c.Data, "people", inPlace, q.Sort), q.Page)
				pqr, _ := ast.Parse(store, text)
				placeID := pl.ID
				idsR, countR, err := store.QueryWithCursorC(tx, func(tx *bbolt.Tx, forward bool) ast.SetCursor {
					return schema.Places.GetRelatedEntitiesCursor(tx, placeID, "people", forward)
				}, pqr)
				if err != nil || fmt.Sprint(idsR) != fmt.Sprint(wantPl) || int(countR) != len(inPlace) {
					return fmt.Errorf("query: %s over the people of place %s (GetRelatedEntitiesCursor as cursor provider) -> %v count %d (err %v)\n  reference -> %v count %d", text, placeID, idsR, countR, err, wantPl, len(inPlace))
				}
				res.Classes = append(res.Classes, "provider:related-entities-cursor")
				break
			}
			// bucket cursor provider
			pq4, _ := ast.Parse(store, text)
			ids4, count4, err := store.QueryWithCursorC(tx, func(tx *bbolt.Tx, forward bool) ast.SetCursor {
				b := store.GetEntitiesBucket(tx)
				if b == nil {
					return nil
				}
				return b.OpenCursor(tx, forward)
			}, pq4)
			if len(c.Data.People) > 0 || err != nil {
				if err := check("QueryWithCursorC(bucket cursor)", ids4, count4, err); err != nil {
					return err
				}
			}
			// cursor-style iteration honours the predicate and paging in default order
			if len(q.Sort) == 0 {
				pq5, _ := ast.Parse(store, text)
				var ids5 []string
				for cur := store.IterateIds(tx, pq5); cur.IsValid(); cur.Next() {
					ids5 = append(ids5, string(cur.Current()))
				}
				if err := check("IterateIds", ids5, -1, nil); err != nil {
					return err
				}
				// metamorphic: sorting by a constant field must reproduce the default order with the same paging
				if constantField(c.Data, "sb") {
					q2 := *q
					q2.Sort = []kit.SortKey{{Sym: "sb"}}
					ids6, count6, err := store.QueryIds(tx, q2.Render())
					if err != nil || fmt.Sprint(ids6) != fmt.Sprint(ids) || count6 != count {
						return fmt.Errorf("strategy dependence: %s -> %v count %d, but %s -> %v count %d (err %v)", text, ids, count, q2.Render(), ids6, count6, err)
					}
					res.Classes = append(res.Classes, "metamorphic:constant-sort-key")
				}
			}
		}
		// a query parsed from the empty filter is the caller's to page; the next empty filter is everything again
		all := idsOf(c.Data, "people")
		q0, perr := ast.Parse(schema.People, "")
		if perr != nil {
			return fmt.Errorf("the empty filter is rejected: %v", perr)
		}
		q0.SetSkip(1)
		q0.SetLimit(1)
		one, oneSkip := int64(1), int64(1)
		wantPage := kit.RefPage(all, kit.Paging{Skip: &oneSkip, Limit: &one})
		ids0, count0, err0 := schema.People.QueryIdsC(tx, q0)
		if err0 != nil || fmt.Sprint(ids0) != fmt.Sprint(wantPage) || int(count0) != len(all) {
			return fmt.Errorf("the empty filter with skip 1 limit 1 set on the parsed query -> %v count %d (err %v), reference -> %v count %d", ids0, count0, err0, wantPage, len(all))
		}
		idsAll, countAll, errAll := schema.People.QueryIds(tx, "limit none")
		idsE, countE, errE := schema.People.QueryIds(tx, "")
		if errAll != nil || errE != nil || fmt.Sprint(idsAll) != fmt.Sprint(all) && len(all) > 0 || int(countAll) != len(all) || int(countE) != len(all) || len(all) <= 10 && fmt.Sprint(idsE) != fmt.Sprint(all) && len(all) > 0 {
			return fmt.Errorf("after another query parsed from the empty filter was paged: the empty filter -> %v count %d (err %v), 'limit none' -> %v count %d (err %v), reference -> %v", idsE, countE, errE, idsAll, countAll, errAll, all)
		}
		return nil
	})
	res.Err = err
	if err == nil && len(c.Queries) > 0 {
		res.Err = c02FuncSymbols(c, schema, db.DB, &res)
	}
	if res.Err == nil {
		res.Err = c02DeleteWhere(c, schema, db.DB, &res)
	}
	if res.Err == nil {
		res.Err = c02ResultsOutliveTx(db.DB, held)
	}
	return res
}

// c02DeleteWhere: a bulk delete by query removes exactly the page the same query selects (sort, skip and limit
// included) - the first sorted and limited query of the case is used.
func c02DeleteWhere(c c02Case, schema *kit.ScanSchema, db *bbolt.DB, res *kit.Result) error {
	for qi := range c.Queries {
		q := &c.Queries[qi]
		if q.Via != "" || len(q.Sort) == 0 || q.Page.Limit == nil || *q.Page.Limit <= 0 || q.Page.LimitNone {
			continue
		}
		matches := idsOf(c.Data, "people")
		if q.Pred != nil {
			must, may := kit.RefMatch(c.Data, "people", q.Pred)
			if len(may) > 0 {
				continue
			}
			matches = must
		}
		page := kit.RefPage(kit.RefOrder(c.Data, "people", matches, q.Sort), q.Page)
		gone := map[string]bool{}
		for _, id := range page {
			gone[id] = true
		}
		var want []string
		for _, id := range idsOf(c.Data, "people") {
			if !gone[id] {
				want = append(want, id)
			}
		}
		text := q.Render()
		var left []string
		err := db.Update(func(tx *bbolt.Tx) error {
			if err := schema.People.DeleteWhere(boltz.NewTxMutateContext(context.Background(), tx), text); err != nil {
				return err
			}
			var err error
			left, _, err = schema.People.QueryIds(tx, "true limit none")
			return err
		})
		if err != nil {
			return fmt.Errorf("DeleteWhere(%s): %v", text, err)
		}
		if fmt.Sprint(left) != fmt.Sprint(want) && !(len(left) == 0 && len(want) == 0) {
			return fmt.Errorf("DeleteWhere(%s): the query selects the page %v, after the bulk delete the store holds %v, expected %v", text, page, left, want)
		}
		res.Classes = append(res.Classes, "delete-where-with-sort-and-limit")
		return nil
	}
	return nil
}

type c02Held struct {
	text      string
	ids, want []string
}

// c02ResultsOutliveTx: the id lists a query returned are the caller's to keep. After the read transaction has ended
// the data they were read from is deleted and the file pages rewritten by three further transactions; the lists must
// still say what they said.
func c02ResultsOutliveTx(db *bbolt.DB, held []c02Held) (err error) {
	for round := 0; round < 3; round++ {
		if e := db.Update(func(tx *bbolt.Tx) error {
			if round == 0 {
				return tx.DeleteBucket([]byte("application"))
			}
			b, e := tx.CreateBucketIfNotExists([]byte("application"))
			if e != nil {
				return e
			}
			for i := 0; i < 24; i++ {
				if e := b.Put([]byte(fmt.Sprintf("%c%c-filler-%02d", 'A'+round, 'A'+round, i)), bytes.Repeat([]byte{byte('#' + round)}, 150)); e != nil {
					return e
				}
			}
			return nil
		}); e != nil && e != bbolt.ErrBucketNotFound {
			return fmt.Errorf("harness: rewriting the database: %v", e)
		}
	}
	defer debug.SetPanicOnFault(debug.SetPanicOnFault(true))
	defer func() {
		if r := recover(); r != nil {
			err = fmt.Errorf("reading the id list a query returned, after its transaction ended and the database was rewritten, faults: %v", r)
		}
	}()
	for _, h := range held {
		if fmt.Sprintf("%q", h.ids) != fmt.Sprintf("%q", h.want) {
			return fmt.Errorf("query: %s returned %q; after the transaction ended and the data was deleted and the file rewritten, the same list reads %q", h.text, h.want, h.ids)
		}
	}
	return nil
}

// c02FuncSymbols sorts and pages by the function symbols fx (string) and bx (bool), whose values
// come from application state: the state is replaced between two rounds while the database is not written at all,
// and every query has to reflect the state of the moment.
func c02FuncSymbols(c c02Case, schema *kit.ScanSchema, db *bbolt.DB, res *kit.Result) error {
	n := len(c.Data.People)
	if n == 0 {
		return nil
	}
	for round := 0; round < 2; round++ {
		d2 := &kit.Dataset{Variant: c.Data.Variant, Places: c.Data.Places}
		ext := &kit.ExtState{Fx: map[string]*string{}, Bx: map[string]bool{}}
		for i, p := range c.Data.People {
			src := c.Data.People[(i+round)%n] // round 1: everybody gets the neighbour's values
			q := p
			q.F = map[string]kit.Val{}
			for k, v := range p.F {
				q.F[k] = v
			}
			// (the function always answers with a string: how a function symbol without an answer sorts is not stated)
			s := "none"
			if v := src.F["sa"]; v.K == "s" {
				s = v.S
			}
			q.F["fx"] = kit.SV(s)
			ext.Fx[p.ID] = &s
			b := src.F["ba"].K == "b" && src.F["ba"].B
			q.F["bx"] = kit.BV(b)
			ext.Bx[p.ID] = b
			d2.People = append(d2.People, q)
		}
		schema.SetExt(ext)
		all := idsOf(c.Data, "people")
		var withBx []string
		for _, p := range d2.People {
			if p.F["bx"].B {
				withBx = append(withBx, p.ID)
			}
		}
		sort.Strings(withBx)
		page := c.Queries[0].Page
		if round == 0 {
			page = kit.Paging{}
		}
		err := db.View(func(tx *bbolt.Tx) error {
			for _, q := range []struct {
				pred    string
				matches []string
				sort    []kit.SortKey
			}{
				{"", all, []kit.SortKey{{Sym: "fx"}}},
				{"", all, []kit.SortKey{{Sym: "fx", Desc: true, Dir: "desc"}}},
				{"", all, []kit.SortKey{{Sym: "bx"}, {Sym: "fx", Desc: true, Dir: "desc"}}},
				{"bx = true", withBx, []kit.SortKey{{Sym: "fx"}}},
				{"bx = true", withBx, nil},
			} {
				spec := kit.QuerySpec{Kind: "people", Sort: q.sort, Page: page}
				text := strings.TrimSpace(q.pred + " " + spec.Render())
				if q.pred == "" && len(q.sort) > 0 {
					text = "true " + spec.Render()
				}
				want := kit.RefPage(kit.RefOrder(d2, "people", q.matches, q.sort), page)
				ids, count, err := schema.People.QueryIds(tx, text)
				if err != nil {
					return fmt.Errorf("query over function symbols: %s: %v", text, err)
				}
				if fmt.Sprint(ids) != fmt.Sprint(want) || int(count) != len(q.matches) {
					return fmt.Errorf("query over function symbols (round %d: application state %s, database untouched): %s -> %v count %d\n  reference -> %v count %d",
						round, map[int]string{0: "as first set", 1: "replaced since the previous query"}[round], text, ids, count, want, len(q.matches))
				}
			}
			return nil
		})
		if err != nil {
			return err
		}
	}
	res.Classes = append(res.Classes, "function-symbols")
	return nil
}

func constantField(d *kit.Dataset, f string) bool {
	if len(d.People) == 0 {
		return false
	}
	for _, p := range d.People {
		if v := p.F[f]; v.K != "s" || v.S != "same" {
			return false
		}
	}
	return true
}

var _ = boltz.SortMax

func TestC02(t *testing.T) {
	kit.Execute(t, kit.Spec[c02Case]{
		ID:    "C02",
		Level: "exploration",
		Rule: "rapid draws a dataset (0-8 people; two thirds with <=3 distinct values per sort key so ties are frequent; a quarter with a constant field) and 3-8 queries = optional predicate (depth<=2) x 0-5 sort keys (any sortable type, either direction, case variants) x skip (absent, 0, negative, 1..n+2) x limit (absent, none, -1, 0, 1..n+2). " +
			"The id list and count from QueryIds, QueryIdsC, QueryWithCursorC (tree-set and bucket cursor providers) and IterateIds (default order) must equal the reference sort/page; sorting by a constant key must equal the default order. " +
			"Also generated: queries routed through a plain and an extended child store over mixed populations, tree-set and union-of-tree-sets cursor providers in both directions, a second execution of every compiled query, limits below -1. " +
			"Non-trivial case: some query's paging cuts the result, or combines an absent/negative bound with a sort, or has >= 2 sort keys. Distinct by hash of the case JSON; sub_evaluations counts queries.",
		Assumptions: []string{
			"at most 5 sort keys (boltz.SortMax; more are silently truncated, outside the stated domain)",
			"sort keys are direct non-set symbols; predicates with rows of unspecified answer are skipped",
		},
		Gen:            genC02,
		Run:            runC02,
		CaseTimeout:    5 * time.Minute,
		QuickChecks:    4000,
		ThoroughFactor: 16,
	})
}
