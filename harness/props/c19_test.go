package props

import (
	"fmt"
	"strings"
	"sync"
	"sync/atomic"
	"testing"
	"time"

	"github.com/openziti/storage/objectz"
	"go.etcd.io/bbolt"
	"pgregory.net/rapid"

	"verif/kit"
)

// C19 — the in-memory object store answers queries like the bolt-backed store (literal differential).

type c19Case struct {
	Data    *kit.Dataset    `json:"data"`
	Queries []kit.QuerySpec `json:"queries"`
	// Overlap: the queries are run once more from four goroutines at the same time on the one store instance
	Overlap bool `json:"overlap,omitempty"`
}

type sliceIter struct {
	rows []*kit.Person
	pos  int
}

func (s *sliceIter) IsValid() bool { return s.pos < len(s.rows) }
func (s *sliceIter) Next()         { s.pos++ }
func (s *sliceIter) Current() *kit.Person {
	if s.pos < len(s.rows) {
		return s.rows[s.pos]
	}
	return nil
}

func newObjectStore(d *kit.Dataset, order []int) *objectz.ObjectStore[*kit.Person] {
	return newObjectStoreOf[*kit.Person](d, func() objectz.ObjectIterator[*kit.Person] {
		it := &sliceIter{}
		for _, i := range order {
			it.rows = append(it.rows, &d.People[i])
		}
		return it
	}, func(p *kit.Person) *kit.Person { return p })
}

// newObjectStoreOf builds the object store over objects of type T (pointers, or the structs themselves), each of which
// stands for one person of the dataset.
func newObjectStoreOf[T any](d *kit.Dataset, iterF func() objectz.ObjectIterator[T], person func(T) *kit.Person) *objectz.ObjectStore[T] {
	store := objectz.NewObjectStore[T](iterF)
	// string accessors hand out a pointer into the live object (one string per object and field, kept for the life
	// of the store), as an application's accessor returning &entity.Name does
	live := map[string]*string{} // filled here, only read afterwards (queries may run concurrently)
	for i := range d.People {
		for f, v := range d.People[i].F {
			if v.K == "s" {
				s := v.S
				live[d.People[i].ID+"\x00"+f] = &s
			}
		}
	}
	str := func(f string) func(p *kit.Person) *string {
		return func(p *kit.Person) *string {
			if v := p.F[f]; v.K == "s" {
				return live[p.ID+"\x00"+f]
			}
			return nil
		}
	}
	i64 := func(f string) func(p *kit.Person) *int64 {
		return func(p *kit.Person) *int64 {
			if v := p.F[f]; v.K == "i" || v.K == "i32" {
				i := v.I
				return &i
			}
			return nil
		}
	}
	store.AddStringSymbol("id", func(o T) *string { s := person(o).ID; return &s })
	for _, f := range []string{"sa", "sb", "boss", "home"} {
		get := str(f)
		store.AddStringSymbol(f, func(o T) *string { return get(person(o)) })
	}
	for _, f := range []string{"ia", "ib"} {
		get := i64(f)
		store.AddInt64Symbol(f, func(o T) *int64 { return get(person(o)) })
	}
	store.AddFloat64Symbol("fa", func(o T) *float64 {
		if v := person(o).F["fa"]; v.K == "f" {
			f := v.F
			return &f
		}
		return nil
	})
	store.AddBoolSymbol("ba", func(o T) *bool {
		if v := person(o).F["ba"]; v.K == "b" {
			b := v.B
			return &b
		}
		return nil
	})
	store.AddDatetimeSymbol("ta", func(o T) *time.Time {
		if v := person(o).F["ta"]; v.K == "t" {
			t := v.Time()
			return &t
		}
		return nil
	})
	return store
}

func genC19(t *rapid.T) c19Case {
	d := kit.GenDataset(t, 10, 0)
	// the object store has no sets/maps: drop them from the mirrored data to keep the case small
	for i := range d.People {
		p := &d.People[i]
		p.Roles, p.Nums, p.Places = kit.StrSet{}, kit.StrSet{}, kit.StrSet{}
		p.Tags, p.NoTags = nil, true
	}
	if rapid.IntRange(0, 1).Draw(t, "lowcard") > 0 {
		lowCardinality(t, d)
	}
	c := c19Case{Data: d, Overlap: rapid.IntRange(0, 7).Draw(t, "overlap") == 0}
	nq := rapid.IntRange(3, 8).Draw(t, "nQueries")
	for i := 0; i < nq; i++ {
		l := fmt.Sprintf("q%d", i)
		q := kit.QuerySpec{Kind: "people"}
		switch rapid.IntRange(0, 4).Draw(t, l+"_predkind") {
		case 0:
		case 1:
			q.Pred = &kit.Expr{Op: "true"}
		default:
			q.Pred = kit.GenExpr(t, l+"_p", "people", rapid.IntRange(0, 2).Draw(t, l+"_depth"),
				&kit.GenOpts{NoSets: true, NoMaps: true, NoDotted: true, NoSubQuery: true})
		}
		q.Sort = genSort(t, l, c02SortSyms, 7)
		q.Page = genPaging(t, l, len(d.People))
		c.Queries = append(c.Queries, q)
		// sometimes followed, on the same store instance, by a twin that differs only in the letter case of its
		// string literals (and by an exact repeat): every query is answered on its own
		if q.Pred != nil && rapid.IntRange(0, 3).Draw(t, l+"_twin") == 0 {
			twin := q
			twin.Pred = q.Pred.Clone()
			flipped := false
			twin.Pred.Walk(func(e *kit.Expr) {
				for i := range e.C {
					if e.C[i].K == "s" && e.C[i].S != "" {
						s := e.C[i].S
						if i < len(e.Txt) {
							e.Txt[i] = "" // render the flipped value, not the original spelling
						}
						if up := strings.ToUpper(s); up != s {
							e.C[i].S, flipped = up, true
						} else if lo := strings.ToLower(s); lo != s {
							e.C[i].S, flipped = lo, true
						}
					}
				}
			})
			if flipped {
				c.Queries = append(c.Queries, twin, q)
			}
		}
	}
	return c
}

func runC19(c c19Case) kit.Result {
	res := kit.Result{Sub: len(c.Queries)}
	db := kit.NewRawDB()
	defer db.Close()
	schema := kit.NewScanSchema(0)
	d := *c.Data
	d.Variant = 0
	if err := schema.Write(db.DB, &d); err != nil {
		res.Err = fmt.Errorf("writing dataset: %v", err)
		return res
	}
	// the object store is fed in reverse insertion order: its answer must not depend on iteration order
	var order []int
	for i := len(d.People) - 1; i >= 0; i-- {
		order = append(order, i)
	}
	ostore := newObjectStore(&d, order)
	// a second object store holds the people as struct values (not pointers) in a map and iterates it with the
	// library's own IterateMap
	byID := map[string]kit.Person{}
	for _, p := range d.People {
		byID[p.ID] = p
	}
	vstore := newObjectStoreOf[kit.Person](&d, func() objectz.ObjectIterator[kit.Person] { return objectz.IterateMap(byID) },
		func(p kit.Person) *kit.Person { return &p })
	type answer struct {
		ids   string
		count int64
		err   bool
	}
	serial := make([]answer, len(c.Queries))
	err := db.DB.View(func(tx *bbolt.Tx) error {
		for qi := range c.Queries {
			q := &c.Queries[qi]
			text := q.Render()
			bIds, bCount, bErr := schema.People.QueryIds(tx, text)
			objs, oCount, oErr := ostore.QueryEntities(text)
			var oIds []string
			for _, o := range objs {
				oIds = append(oIds, o.ID)
			}
			serial[qi] = answer{fmt.Sprint(oIds), oCount, oErr != nil}
			if (bErr == nil) != (oErr == nil) {
				return fmt.Errorf("query: %s\n  bolt store error: %v\n  object store error: %v", text, bErr, oErr)
			}
			if bErr != nil {
				res.Classes = append(res.Classes, "both-reject")
				continue
			}
			if fmt.Sprint(bIds) != fmt.Sprint(oIds) || bCount != oCount {
				return fmt.Errorf("query: %s\n  bolt store   -> %v count %d\n  object store -> %v count %d", text, bIds, bCount, oIds, oCount)
			}
			var vIds []string
			var vCount int64
			var vErr error
			if perr := func() (p interface{}) {
				defer func() { p = recover() }()
				var vobjs []kit.Person
				vobjs, vCount, vErr = vstore.QueryEntities(text)
				for _, o := range vobjs {
					vIds = append(vIds, o.ID)
				}
				return nil
			}(); perr != nil {
				return fmt.Errorf("query: %s\n  the object store of struct values iterated with IterateMap panicked: %v", text, perr)
			}
			if vErr != nil || fmt.Sprint(bIds) != fmt.Sprint(vIds) || bCount != vCount {
				return fmt.Errorf("query: %s\n  bolt store   -> %v count %d\n  object store of struct values (IterateMap) -> %v count %d error %v", text, bIds, bCount, vIds, vCount, vErr)
			}
			nullish := false
			if q.Pred != nil {
				q.Pred.Walk(func(e *kit.Expr) {
					if e.Op == "isnull" {
						nullish = true
					}
				})
			}
			paged := q.Page.Skip != nil || q.Page.Limit != nil || q.Page.LimitNone
			if len(oIds) > 0 && (len(q.Sort) > 0 || paged) || nullish {
				res.NonTrivial = true
			}
			if nullish {
				res.Classes = append(res.Classes, "null-test")
			}
			res.Classes = append(res.Classes, fmt.Sprintf("sortkeys:%d", len(q.Sort)))
			if paged {
				res.Classes = append(res.Classes, "paged")
			}
			if q.Page.Skip != nil && *q.Page.Skip < 0 {
				res.Classes = append(res.Classes, "skip:negative")
			}
			if q.Page.Skip != nil && *q.Page.Skip > 0 && (q.Page.Limit == nil || q.Page.LimitNone) {
				res.Classes = append(res.Classes, "skip-without-limit")
			}
		}
		return nil
	})
	res.Err = err
	if err != nil || len(c.Queries) < 2 || !c.Overlap {
		return res
	}
	// the same queries once more, this time overlapping in time on the one store instance (an in-memory store is
	// queried by concurrent requests): every query still gets its own answer
	var wg sync.WaitGroup
	var firstErr atomic.Value
	for g := 0; g < 4; g++ {
		wg.Add(1)
		go func(g int) {
			defer wg.Done()
			defer func() {
				if p := recover(); p != nil {
					firstErr.CompareAndSwap(nil, fmt.Errorf("concurrent query panicked: %v", p))
				}
			}()
			for round := 0; round < 6; round++ {
				for k := range c.Queries {
					qi := (k + g*3 + round) % len(c.Queries)
					text := c.Queries[qi].Render()
					objs, count, qerr := ostore.QueryEntities(text)
					var ids []string
					for _, o := range objs {
						ids = append(ids, o.ID)
					}
					got := answer{fmt.Sprint(ids), count, qerr != nil}
					if got != serial[qi] && !(got.err && serial[qi].err) {
						firstErr.CompareAndSwap(nil, fmt.Errorf("query: %s\n  alone on the store    -> %s count %d (error: %v)\n  beside other queries  -> %s count %d (error: %v)", text, serial[qi].ids, serial[qi].count, serial[qi].err, got.ids, got.count, got.err))
						return
					}
				}
			}
		}(g)
	}
	wg.Wait()
	if e := firstErr.Load(); e != nil {
		res.Err = e.(error)
	}
	res.Classes = append(res.Classes, "queries-overlapping-in-time")
	return res
}

func TestC19(t *testing.T) {
	kit.Execute(t, kit.Spec[c19Case]{
		ID:    "C19",
		Level: "exploration",
		Rule: "rapid draws 0-10 objects (id plus nullable string/int/float/bool/datetime fields), mirrors them into a bolt scan store with the same symbol names and draws 3-8 queries = optional predicate over non-set symbols (depth<=2, incl. = null / != null) x 0-7 sort keys x skip/limit boundary classes. " +
			"ObjectStore.QueryEntities must return the same ids in the same order and the same count as Store.QueryIds (both error or neither). The object store is iterated in reverse insertion order. " +
			"Also generated: the zero time, negative limits below -1, pairs of queries on one store instance differing only in the letter case of a string literal. Also: negative zero; an eighth of the cases run their queries once more from four goroutines on the one store instance. " +
			"Non-trivial case: a non-empty result under a non-default sort or paging, or a null test. Distinct by hash of the case JSON; sub_evaluations counts queries.",
		Assumptions: []string{"literal differential: agreement with the documented semantics is C01/C02's job"},
		Gen:         genC19,
		Run:         runC19,
		CaseTimeout: 5 * time.Minute,
		QuickChecks: 8000, ThoroughFactor: 8,
	})
}
