package props

import (
	"context"
	"fmt"
	"sort"
	"strings"
	"sync/atomic"
	"testing"
	"time"

	"github.com/openziti/storage/ast"
	"github.com/openziti/storage/boltz"
	"pgregory.net/rapid"

	"verif/kit"
)

// C08 — entity events: exactly once per committed change, none for undone work.

type c08CtxKey struct{}

func c08Cfg(extended, second bool) kit.WorldCfg {
	cfg := kit.WorldCfg{
		Stores:   []kit.StoreCfg{{Name: "things", UniqueName: true, RolesIndex: true}},
		Children: []kit.ChildCfg{{Name: "kids", Parent: "things", Extended: extended}},
	}
	if second {
		// a second child type over the same parent (an entity belongs to at most one of them)
		cfg.Children = append(cfg.Children, kit.ChildCfg{Name: "kids2", Parent: "things"})
	}
	return cfg
}

var c08Universe = kit.EntUniverse{
	IDs:    []string{"p1", "p2", "k1", "k2"},
	Names:  []string{"a", "b", "c", "d", "e", "f"},
	Roles:  []string{"r1", "r2"},
	Notes:  []string{"", "n1", "n2"},
	Extras: []string{"", "x1", "x2"},
	Fields: []string{kit.FName, kit.FRoles, kit.FNote, kit.FExtra},
}

func genC08(t *rapid.T) kit.History {
	h := genC08History(t)
	// some transactions are steps of MigrationManager.Migrate: a failed step (error reported on the step) is work
	// that is rolled back like any other
	for i := range h.Txs {
		if !h.Txs[i].Batch && rapid.IntRange(0, 9).Draw(t, fmt.Sprintf("w%d_viaMigration", i)) == 0 {
			h.Txs[i].ViaMigration = true
		}
	}
	return h
}

func genC08History(t *rapid.T) kit.History {
	second := rapid.IntRange(0, 2).Draw(t, "secondChild") == 0
	cfg := c08Cfg(rapid.IntRange(0, 3).Draw(t, "extended") == 0, second)
	return kit.GenHistory(t, cfg, 14, 4, false, 80, func(t *rapid.T, l string, m *kit.Model) kit.Op {
		store := "things"
		if rapid.Bool().Draw(t, l+"_viaChild") {
			store = "kids"
			if second && rapid.Bool().Draw(t, l+"_viaSecond") {
				store = "kids2"
			}
		}
		if rapid.IntRange(0, 9).Draw(t, l+"_resave") == 0 {
			// an update that stores exactly what is stored already (a client re-saving an unchanged entity): it is an
			// update all the same
			for _, id := range c08Universe.IDs {
				if e, ok := m.Ents["things"][id]; ok {
					spec := &kit.EntSpec{Name: e.Name, Roles: append([]string(nil), e.Roles...), Note: e.Note, TagV: e.TagV}
					for _, cc := range m.Cfg.Children {
						if x, has := e.Kid[cc.Name]; has {
							spec.Extra = x
						}
					}
					return kit.Op{Kind: "update", Store: "things", ID: id, Spec: spec}
				}
			}
		}
		return kit.GenEntOpM(t, l, store, c08Universe, m)
	})
}

// expectedEvents derives, from the model, the callbacks a committed transaction must produce.
func expectedEvents(m *kit.Model, tx kit.TxSpec) (evs []kit.Event, commits bool, ignoreKidIDs map[string]bool) {
	trial := m.Clone()
	ignoreKidIDs = map[string]bool{}
	for _, op := range tx.Ops {
		pre := trial.Clone()
		causes := trial.Apply(op, tx.System)
		if len(causes) == 1 && causes[0] == kit.Unspecified {
			*trial = *pre
			continue
		}
		if len(causes) > 0 {
			return nil, false, nil
		}
		var typ string
		var ent *kit.MEnt
		switch op.Kind {
		case "create":
			typ, ent = "created", trial.Ents["things"][op.ID]
		case "update", "patch":
			typ, ent = "updated", trial.Ents["things"][op.ID]
		case "delete":
			typ, ent = "deleted", pre.Ents["things"][op.ID]
		}
		if typ == "updated" {
			// the state before the update, as the constraints of the parent store and of the child store see it
			before := pre.Ents["things"][op.ID]
			evs = append(evs, kit.Event{Store: "things", Style: "typed-constraint-initial", Type: typ, ID: op.ID, Info: kit.MEntInfo(before, "")})
			for _, cc := range m.Cfg.Children {
				if _, isKid := ent.Kid[cc.Name]; isKid {
					evs = append(evs, kit.Event{Store: cc.Name, Style: "typed-constraint-initial", Type: typ, ID: op.ID, Info: kit.MEntInfo(before, cc.Name)})
				}
			}
		}
		for _, cc := range m.Cfg.Children {
			if _, isKid := ent.Kid[cc.Name]; cc.Extended && !isKid {
				// an extended store "sees" every parent entity: whether it reports plain parents is not stated
				ignoreKidIDs[cc.Name+"|"+op.ID] = true
			}
		}
		// two registrations on the parent store that share the slice holding their second change type
		if typ == "created" || typ == "updated" {
			evs = append(evs, kit.Event{Store: "things", Style: "listener-created-or-updated", Type: "?", ID: op.ID})
		}
		if typ == "deleted" || typ == "updated" {
			evs = append(evs, kit.Event{Store: "things", Style: "listener-deleted-or-updated", Type: "?", ID: op.ID})
		}
		styles := append(append(append([]string{}, kit.ListenerStyles...), "listener-async", "listener-async-typed"), kit.MultiStyles...)
		for _, style := range styles {
			info := kit.MEntInfo(ent, "")
			if strings.HasPrefix(style, "id-listener") {
				info = ""
			}
			styleTyp := typ
			if strings.HasSuffix(style, "-multi") {
				styleTyp = "?" // one registration for all change types: the callback does not learn the type
			}
			evs = append(evs, kit.Event{Store: "things", Style: style, Type: styleTyp, ID: op.ID, Info: info})
			for _, cc := range m.Cfg.Children {
				if _, isKid := ent.Kid[cc.Name]; isKid {
					kinfo := kit.MEntInfo(ent, cc.Name)
					if strings.HasPrefix(style, "id-listener") {
						kinfo = ""
					}
					evs = append(evs, kit.Event{Store: cc.Name, Style: style, Type: styleTyp, ID: op.ID, Info: kinfo})
				}
			}
		}
	}
	if tx.Fail {
		return nil, false, nil
	}
	return evs, true, ignoreKidIDs
}

// an entity type without time stamps: saving it again unchanged stores exactly what was there
type c08Plain struct {
	Id   string
	Name string
}

func (p *c08Plain) GetId() string         { return p.Id }
func (p *c08Plain) SetId(id string)       { p.Id = id }
func (p *c08Plain) GetEntityType() string { return "plains" }

type c08PlainStrategy struct{}

func (c08PlainStrategy) NewEntity() *c08Plain { return &c08Plain{} }
func (c08PlainStrategy) FillEntity(p *c08Plain, b *boltz.TypedBucket) {
	p.Name = b.GetStringWithDefault("name", "")
}
func (c08PlainStrategy) PersistEntity(p *c08Plain, ctx *boltz.PersistContext) {
	ctx.SetString("name", p.Name)
}

// c08BatchBesideFailingMember: a batched transaction that succeeds, with a commit action registered on its context before
// the call, runs beside a batched transaction that fails (bbolt merges them, the batch fails, the members are run again
// one by one). The commit action of the one that committed runs.
func c08BatchBesideFailingMember(w *kit.World) error {
	reran := false
	for round := 0; round < 6 && !reran; round++ {
		var ran, calls atomic.Int32
		ctx := kit.NewCtx()
		ctx.AddCommitAction(func() { ran.Add(1) })
		good := make(chan error, 1)
		go func() {
			good <- w.Z.Db.Batch(ctx, func(c boltz.MutateContext) error {
				calls.Add(1)
				b, err := c.Tx().CreateBucketIfNotExists([]byte("zz-c08-batch"))
				if err != nil {
					return err
				}
				return b.Put([]byte(fmt.Sprintf("k%d", round)), []byte("v"))
			})
		}()
		time.Sleep(time.Millisecond) // the failing member joins the batch behind the other one
		bad := w.Z.Db.Batch(kit.NewCtx(), func(c boltz.MutateContext) error { return errInjected })
		if bad == nil {
			<-good
			return fmt.Errorf("a batched transaction whose function fails returned nil")
		}
		if err := <-good; err != nil {
			return fmt.Errorf("a batched transaction that does nothing wrong failed beside a failing one: %v", err)
		}
		deadline := time.Now().Add(5 * time.Second)
		for ran.Load() == 0 && time.Now().Before(deadline) {
			time.Sleep(200 * time.Microsecond)
		}
		if ran.Load() == 0 {
			return fmt.Errorf("a batched transaction committed (beside a failing batch member; its function was called %d time(s)) and the commit action registered on its context before the call never ran", calls.Load())
		}
		reran = calls.Load() > 1
	}
	return nil
}

// c08ReusedContext: one context object is used for two transactions in a row; the first one's commit action is slow and
// still running while the second transaction registers its own. Both actions run (how often is not asserted: a
// context keeps its actions, so the unchanged tree runs the first one again with the second commit, and a commit
// goroutine that starts late may also pick up the second one early).
func c08ReusedContext(w *kit.World) error {
	ctx := kit.NewCtx()
	var first, second atomic.Int32
	if err := w.Z.Db.Update(ctx, func(c boltz.MutateContext) error {
		c.AddCommitAction(func() { time.Sleep(3 * time.Millisecond); first.Add(1) })
		return nil
	}); err != nil {
		return fmt.Errorf("context used twice: first transaction: %v", err)
	}
	if err := w.Z.Db.Update(ctx, func(c boltz.MutateContext) error {
		c.AddCommitAction(func() { second.Add(1) })
		time.Sleep(12 * time.Millisecond) // the first transaction's action finishes while this one is still open
		return nil
	}); err != nil {
		return fmt.Errorf("context used twice: second transaction: %v", err)
	}
	deadline := time.Now().Add(5 * time.Second)
	for (second.Load() == 0 || first.Load() == 0) && time.Now().Before(deadline) {
		time.Sleep(200 * time.Microsecond)
	}
	time.Sleep(5 * time.Millisecond)
	if first.Load() < 1 || second.Load() < 1 {
		return fmt.Errorf("one context used for two committed transactions: the first one's commit action ran %d time(s), the second one's %d time(s) (each has to run)", first.Load(), second.Load())
	}
	return nil
}

// c08UnchangedUpdate: a committed update is reported to the update listeners whether or not it changed anything.
func c08UnchangedUpdate(w *kit.World) error {
	plains := boltz.NewBaseStore(boltz.StoreDefinition[*c08Plain]{EntityType: "plains", EntityStrategy: c08PlainStrategy{}, BasePath: w.Cfg.Base()})
	plains.InitImpl(plains)
	plains.AddIdSymbol("id", ast.NodeTypeString)
	var created, updated atomic.Int32
	plains.AddEntityIdListener(func(string) { created.Add(1) }, boltz.EntityCreated)
	plains.AddEntityIdListener(func(string) { updated.Add(1) }, boltz.EntityUpdated)
	steps := []struct {
		what string
		f    func(ctx boltz.MutateContext) error
	}{
		{"create", func(ctx boltz.MutateContext) error { return plains.Create(ctx, &c08Plain{Id: "pl1", Name: "a"}) }},
		{"update that stores the same values again", func(ctx boltz.MutateContext) error { return plains.Update(ctx, &c08Plain{Id: "pl1", Name: "a"}, nil) }},
		{"update that changes the name", func(ctx boltz.MutateContext) error { return plains.Update(ctx, &c08Plain{Id: "pl1", Name: "b"}, nil) }},
	}
	for i, st := range steps {
		if err := w.Z.Db.Update(kit.NewCtx(), st.f); err != nil {
			return fmt.Errorf("entity without time stamps: %s failed: %v", st.what, err)
		}
		if err := w.Barrier(); err != nil {
			return err
		}
		if c, u := created.Load(), updated.Load(); c != 1 || int(u) != i {
			return fmt.Errorf("entity without time stamps: after the committed %s the created-listener has run %d time(s) (want 1) and the updated-listener %d time(s) (want %d)", st.what, c, u, i)
		}
	}
	return nil
}

func runC08(h kit.History) kit.Result {
	res := kit.Result{Sub: len(h.Txs)}
	extended := h.Cfg.Children[0].Extended
	res.Classes = append(res.Classes, fmt.Sprintf("extended:%v", extended), fmt.Sprintf("child-stores:%d", len(h.Cfg.Children)))
	w, err := kit.NewWorld(h.Cfg)
	if err != nil {
		res.Err = err
		return res
	}
	defer w.Close()
	rec := &kit.Recorder{Committed: &atomic.Bool{}}
	// in a quarter of the cases (by history length) only the parent store has listeners and constraints
	parentOnly := len(h.Txs)%4 == 3
	w.InstallRecordersOn(rec, nil, !parentOnly)
	if parentOnly {
		res.Classes = append(res.Classes, "listeners-on-the-parent-store-only")
	}
	// two registrations whose additional change type comes from one slice with spare capacity (a caller's "and updates" slice)
	andUpdates := append(make([]boltz.EntityEventType, 0, 4), boltz.EntityUpdated)
	w.Stores["things"].AddListener(func(e boltz.Entity) {
		rec.Add(kit.Event{Store: "things", Style: "listener-created-or-updated", Type: "?", ID: e.GetId()})
	}, boltz.EntityCreated, andUpdates...)
	w.Stores["things"].AddListener(func(e boltz.Entity) {
		rec.Add(kit.Event{Store: "things", Style: "listener-deleted-or-updated", Type: "?", ID: e.GetId()})
	}, boltz.EntityDeleted, andUpdates...)
	// asynchronous listener registrations
	w.Stores["things"].AddListener(func(e boltz.Entity) {
		rec.Add(kit.Event{Store: "things", Style: "listener-async", Type: "?", ID: e.GetId()})
	}, boltz.EntityCreatedAsync, boltz.EntityUpdatedAsync, boltz.EntityDeletedAsync)
	// and one asynchronous registration per change type, so that each knows which change it reports
	asyncTypes := []struct {
		t    boltz.EntityEventType
		name string
	}{{boltz.EntityCreatedAsync, "created"}, {boltz.EntityUpdatedAsync, "updated"}, {boltz.EntityDeletedAsync, "deleted"}}
	for _, at := range asyncTypes {
		at := at
		w.Stores["things"].AddListener(func(e boltz.Entity) {
			rec.Add(kit.Event{Store: "things", Style: "listener-async-typed", Type: at.name, ID: e.GetId()})
		}, at.t)
		for _, cc := range h.Cfg.Children {
			if parentOnly {
				break
			}
			name := cc.Name
			w.Kids[name].AddEntityIdListener(func(id string) {
				rec.Add(kit.Event{Store: name, Style: "listener-async-typed", Type: at.name, ID: id})
			}, at.t)
		}
	}
	for _, cc := range h.Cfg.Children {
		if parentOnly {
			break
		}
		name := cc.Name
		w.Kids[name].AddListener(func(e boltz.Entity) {
			rec.Add(kit.Event{Store: name, Style: "listener-async", Type: "?", ID: e.GetId()})
		}, boltz.EntityCreatedAsync, boltz.EntityUpdatedAsync, boltz.EntityDeletedAsync)
	}

	m := kit.NewModel(h.Cfg)
	multiOp, rollbackAfterWork, otherRoute := false, false, false
	for i, tx := range h.Txs {
		want, commits, ignoreKid := expectedEvents(m, tx)
		if parentOnly {
			var onParent []kit.Event
			for _, e := range want {
				if e.Store == "things" {
					onParent = append(onParent, e)
				}
			}
			want = onParent
		}
		var commitActions, earlyActions, derivedActions, systemActions atomic.Int32
		rec.Committed.Store(false)
		rec.Drain()
		out := kit.RunTxHooks(w, m, tx, func(ctx boltz.MutateContext) {
			// a commit action registered on the context before the transaction is opened
			ctx.AddCommitAction(func() { earlyActions.Add(1) })
		}, func(ctx boltz.MutateContext) {
			rec.Committed.Store(false)
			ctx.Tx().OnCommit(func() { rec.Committed.Store(true) })
			ctx.AddCommitAction(func() { commitActions.Add(1) })
			// a context derived with UpdateContext (callers attach request values this way) is the same transaction:
			// a commit action registered through it runs like any other
			derived := ctx.UpdateContext(func(c context.Context) context.Context { return context.WithValue(c, c08CtxKey{}, "v") })
			derived.AddCommitAction(func() { derivedActions.Add(1) })
			// ... and so does one registered through a system context derived from it (twice over)
			ctx.GetSystemContext().GetSystemContext().AddCommitAction(func() { systemActions.Add(1) })
		})
		if out.Violation != nil {
			res.Err = fmt.Errorf("transaction %d: %v\nhistory:\n%s", i, out.Violation, h)
			return res
		}
		if out.Committed != commits {
			res.Err = fmt.Errorf("harness: transaction %d committed=%v but the event model expected %v", i, out.Committed, commits)
			return res
		}
		rec.Committed.Store(true) // the barrier transaction's own callbacks are after its commit by construction
		if err := w.Barrier(); err != nil {
			res.Err = err
			return res
		}
		// commit actions run on their own goroutine: wait for the latch (10 s ceiling)
		if out.Committed {
			latch := time.Now().Add(10 * time.Second)
			for (commitActions.Load() == 0 || earlyActions.Load() == 0 && !tx.UsesNilCtx() || derivedActions.Load() == 0 || systemActions.Load() == 0) && time.Now().Before(latch) {
				time.Sleep(50 * time.Microsecond)
			}
		}
		// asynchronous listeners: wait (bounded) until the expected number has arrived
		wantAsync := 0
		for _, e := range want {
			if strings.HasPrefix(e.Style, "listener-async") && !ignoreKid[e.Store+"|"+e.ID] {
				wantAsync++
			}
		}
		deadline := time.Now().Add(5 * time.Second)
		for {
			n := 0
			for _, e := range rec.Snapshot() {
				if strings.HasPrefix(e.Style, "listener-async") && !ignoreKid[e.Store+"|"+e.ID] {
					n++
				}
			}
			if n >= wantAsync || time.Now().After(deadline) {
				break
			}
			time.Sleep(time.Millisecond)
		}
		time.Sleep(300 * time.Microsecond)
		got := rec.Drain()
		label := fmt.Sprintf("transaction %d %s (committed=%v)", i, tx, out.Committed)
		var gotKeys, wantKeys []string
		txComplete := 0
		for _, e := range got {
			if e.Type == "tx-complete" {
				txComplete++
				continue
			}
			if e.BeforeCommit {
				res.Err = fmt.Errorf("%s: callback fired before the transaction committed: %+v\nhistory:\n%s", label, e, h)
				return res
			}
			if ignoreKid[e.Store+"|"+e.ID] {
				continue
			}
			if e.Style == "listener-async" {
				gotKeys = append(gotKeys, e.Store+"|"+e.Style+"|"+e.ID)
			} else if e.Style == "listener-async-typed" {
				gotKeys = append(gotKeys, e.Store+"|"+e.Style+"|"+e.Type+"|"+e.ID)
			} else {
				k := e.Key()
				if e.Info != "" {
					k += " {" + e.Info + "}"
				}
				gotKeys = append(gotKeys, k)
			}
		}
		for _, e := range want {
			if ignoreKid[e.Store+"|"+e.ID] {
				continue
			}
			if e.Style == "listener-async" {
				wantKeys = append(wantKeys, e.Store+"|"+e.Style+"|"+e.ID)
			} else if e.Style == "listener-async-typed" {
				wantKeys = append(wantKeys, e.Store+"|"+e.Style+"|"+e.Type+"|"+e.ID)
			} else {
				k := e.Key()
				if e.Info != "" {
					k += " {" + e.Info + "}"
				}
				wantKeys = append(wantKeys, k)
			}
		}
		sort.Strings(gotKeys)
		sort.Strings(wantKeys)
		if d := diffMultiset(wantKeys, gotKeys); d != "" {
			res.Err = fmt.Errorf("%s: events differ from the committed changes (- missing, + unexpected):\n%s\nhistory:\n%s", label, d, h)
			return res
		}
		// commit action: exactly once per committed transaction, never otherwise
		wantActions := int32(0)
		if out.Committed {
			wantActions = 1
		}
		if n := commitActions.Load(); n != wantActions && !tx.Batch {
			res.Err = fmt.Errorf("%s: commit action ran %d times, want %d\nhistory:\n%s", label, n, wantActions, h)
			return res
		}
		if n := commitActions.Load(); tx.Batch && (out.Committed && n < 1 || !out.Committed && n != 0) {
			// Db.Batch may invoke the function twice, registering the in-transaction action twice
			res.Err = fmt.Errorf("%s: commit action ran %d times for a Db.Batch transaction (committed=%v)\nhistory:\n%s", label, n, out.Committed, h)
			return res
		}
		if n := derivedActions.Load(); !tx.Batch && n != wantActions || tx.Batch && (out.Committed && n < 1 || !out.Committed && n != 0) {
			res.Err = fmt.Errorf("%s: the commit action registered through a context derived with UpdateContext ran %d times (committed=%v)\nhistory:\n%s", label, n, out.Committed, h)
			return res
		}
		if n := systemActions.Load(); !tx.Batch && n != wantActions || tx.Batch && (out.Committed && n < 1 || !out.Committed && n != 0) {
			res.Err = fmt.Errorf("%s: the commit action registered through a derived system context ran %d times (committed=%v)\nhistory:\n%s", label, n, out.Committed, h)
			return res
		}
		if tx.UsesNilCtx() {
			earlyActions.Add(wantActions) // no context existed before the transaction: nothing was registered on it
		}
		if n := earlyActions.Load(); n != wantActions {
			res.Err = fmt.Errorf("%s: the commit action registered before the transaction was opened ran %d times, want %d\nhistory:\n%s", label, n, wantActions, h)
			return res
		}
		// tx-complete: one for the barrier transaction, plus exactly one for a committed Db.Update (at most one for Db.Batch)
		extra := txComplete - 1
		switch {
		case !out.Committed && extra != 0:
			res.Err = fmt.Errorf("%s: tx-complete listener ran for a transaction that did not commit\nhistory:\n%s", label, h)
			return res
		case out.Committed && !tx.Batch && extra != 1:
			res.Err = fmt.Errorf("%s: tx-complete listener ran %d times for a committed Db.Update, want 1\nhistory:\n%s", label, extra, h)
			return res
		case out.Committed && tx.Batch && extra > 1:
			res.Err = fmt.Errorf("%s: tx-complete listener ran %d times for one Db.Batch\nhistory:\n%s", label, extra, h)
			return res
		}
		// features
		if out.Committed && len(tx.Ops) >= 2 {
			multiOp = true
		}
		if !out.Committed && len(tx.Ops) >= 2 {
			rollbackAfterWork = true
		}
		if out.Committed {
			for _, e := range want {
				if e.Store != "things" {
					for _, op := range tx.Ops {
						if op.ID == e.ID && op.Store == "things" {
							otherRoute = true
						}
					}
				}
			}
			res.Classes = append(res.Classes, "committed-tx")
		} else {
			res.Classes = append(res.Classes, "rolled-back-tx")
		}
		if err := w.CheckAll(m); err != nil {
			res.Err = fmt.Errorf("after %s: %v", label, err)
			return res
		}
	}
	if err := c08UnchangedUpdate(w); err != nil {
		res.Err = err
		return res
	}
	if len(h.Txs)%3 == 2 {
		if err := c08BatchBesideFailingMember(w); err != nil {
			res.Err = err
			return res
		}
		res.Classes = append(res.Classes, "batch-beside-failing-member")
	}
	if len(h.Txs)%3 == 1 {
		if err := c08ReusedContext(w); err != nil {
			res.Err = err
			return res
		}
		res.Classes = append(res.Classes, "context-used-for-two-transactions")
	}
	res.NonTrivial = multiOp || rollbackAfterWork || otherRoute
	for name, on := range map[string]bool{"multi-op-committed-tx": multiOp, "rollback-after-queued-events": rollbackAfterWork, "child-entity-changed-through-parent": otherRoute} {
		if on {
			res.Classes = append(res.Classes, name)
		}
	}
	return res
}

func diffMultiset(want, got []string) string {
	count := map[string]int{}
	for _, w := range want {
		count[w]++
	}
	for _, g := range got {
		count[g]--
	}
	var keys []string
	for k, n := range count {
		if n != 0 {
			keys = append(keys, k)
		}
	}
	sort.Strings(keys)
	var out []string
	for _, k := range keys {
		n := count[k]
		sign := "-"
		if n < 0 {
			sign, n = "+", -n
		}
		out = append(out, fmt.Sprintf("  %s %s  (x%d)", sign, k, n))
	}
	if len(out) > 24 {
		out = append(out[:24], fmt.Sprintf("  … %d more", len(out)-24))
	}
	return strings.Join(out, "\n")
}

func TestC08(t *testing.T) {
	kit.Execute(t, kit.Spec[kit.History]{
		ID:    "C08",
		Level: "exploration",
		Rule: "rapid draws histories (1-14 transactions of 1-4 create / update / patch / delete operations through a parent store and its plain (3/4) or extended (1/4) child store, committed, aborted by the caller or containing a rejected operation, Db.Update or Db.Batch). Listeners of every registration style (AddListener, AddEntityIdListener, AddEntityEventListenerF, AddEntityEventListener, AddEntityConstraint, AddUntypedEntityConstraint, asynchronous AddListener) are registered for every change type on both stores, plus a commit action per transaction and a tx-complete listener. " +
			"For every transaction the observed multiset of (store, style, change type, id, delivered entity state) must EQUAL the multiset derived from the model (child entity: one event per style on the child store and one on the parent store; plain parent: parent store only; rolled-back or rejected: none), no callback may fire before the commit handler, the commit action runs exactly once iff committed, the tx-complete listener exactly once per committed Db.Update. " +
			"Also generated: a second child store over the same parent, listener registrations naming all change types in one call, commit actions registered before the transaction, from nested updates and through a context derived with UpdateContext. Also: one asynchronous registration per change type, and the initial state handed to entity constraints on update (parent and child store). " +
			"Non-trivial history: a committed transaction with >= 2 operations, a rollback after >= 1 operation queued events, or a child entity changed through the parent store. Distinct by hash of the history JSON.",
		Assumptions: []string{"what a transaction emits after its caller ignored a failed operation and committed anyway is not asserted (every generated transaction returns the first error)",
			"callbacks are awaited with a barrier transaction (its commit action) and a bounded poll for asynchronous listeners; timing never decides a verdict except 'not delivered within 5 s'",
			"for an extended child store, events on the child store for parent entities without extended data are not asserted either way"},
		Gen: genC08, Run: runC08,
		QuickChecks: 600, ThoroughFactor: 10,
	})
}
