package props

import (
	"fmt"
	"testing"

	"go.etcd.io/bbolt"
	"pgregory.net/rapid"

	"verif/kit"
)

// C15 — parent and child (extension) stores stay consistent.

func c15Cfg(extended, uniqueExtra, second bool) kit.WorldCfg {
	cfg := kit.WorldCfg{
		Stores:   []kit.StoreCfg{{Name: "emps", UniqueName: true, RolesIndex: true}},
		Children: []kit.ChildCfg{{Name: "mgrs", Parent: "emps", Extended: extended, UniqueExtra: uniqueExtra}},
	}
	if second {
		// a second child type over the same parent; an entity belongs to at most one of the two. The index of its
		// own (if any) then lives on the later-registered store
		cfg.Children[0].UniqueExtra = false
		cfg.Children = append(cfg.Children, kit.ChildCfg{Name: "ctrs", Parent: "emps", UniqueExtra: uniqueExtra})
	}
	return cfg
}

var c15Universe = kit.EntUniverse{
	IDs:    []string{"p1", "p2", "k1", "k2", "k3"},
	Names:  []string{"a", "b", "c", "d", "e", "f", ""},
	Roles:  []string{"r1", "r2"},
	Notes:  []string{"", "n1"},
	Extras: []string{"", "x1", "x2"},
	Fields: []string{kit.FName, kit.FRoles, kit.FNote, kit.FExtra},
	// occasionally a shared field holds a value the parent's own setters refuse (oversized set element, oversized
	// name): the refusal has to reach the caller whichever store the write goes through
	Hostile: true,
}

func genC15(t *rapid.T) kit.History {
	// half of the child stores have an index of their own (nullable unique index over the child-only field)
	second := rapid.IntRange(0, 2).Draw(t, "secondChild") == 0
	cfg := c15Cfg(rapid.IntRange(0, 2).Draw(t, "extended") == 0, rapid.Bool().Draw(t, "uniqueExtra"), second)
	return kit.GenHistory(t, cfg, 20, 3, true, 60, func(t *rapid.T, l string, m *kit.Model) kit.Op {
		store := "emps"
		if rapid.Bool().Draw(t, l+"_viaChild") {
			store = "mgrs"
			if second && rapid.IntRange(0, 2).Draw(t, l+"_viaSecond") == 0 {
				store = "ctrs"
			}
		}
		if rapid.IntRange(0, 11).Draw(t, l+"_deleteWhere") == 0 {
			return kit.Op{Kind: "deletewhere", Store: store, Spec: &kit.EntSpec{Name: c15Universe.Names[rapid.IntRange(0, len(c15Universe.Names)-2).Draw(t, l+"_dwName")]}}
		}
		return kit.GenEntOpM(t, l, store, c15Universe, m)
	})
}

func runC15(h kit.History) kit.Result {
	res := kit.Result{Sub: len(h.Txs)}
	extended := h.Cfg.Children[0].Extended
	res.Classes = append(res.Classes, fmt.Sprintf("extended:%v", extended), fmt.Sprintf("child-index:%v", h.Cfg.Children[0].UniqueExtra), fmt.Sprintf("child-stores:%d", len(h.Cfg.Children)))
	st, err := kit.RunHistory(h, func(w *kit.World, m *kit.Model, i int, tx kit.TxSpec, out kit.TxOutcome) error {
		if !out.Committed {
			return nil
		}
		// after a committed delete through either store the id occurs nowhere
		for _, op := range tx.Ops {
			if op.Kind != "delete" {
				continue
			}
			if _, still := m.Ents["emps"][op.ID]; still {
				continue
			}
			var hits []string
			_ = w.Z.Db.View(func(btx *bbolt.Tx) error {
				hits = kit.FindBytesInTx(btx, []byte(op.ID))
				return nil
			})
			if len(hits) > 0 {
				return fmt.Errorf("after the committed delete of %q through %s the id still occurs: %v", op.ID, op.Store, hits)
			}
		}
		return nil
	})
	res.Err = err
	// features: both populations present at some point and an operation routed through the "other" store
	m := kit.NewModel(h.Cfg)
	mixed, otherRoute := false, false
	for _, tx := range h.Txs {
		trial := m.Clone()
		ok := true
		for _, op := range tx.Ops {
			pre := trial.Clone()
			c := trial.Apply(op, false)
			if len(c) > 0 {
				ok = false
				break
			}
			if e, exists := pre.Ents["emps"][op.ID]; exists && op.Kind != "create" {
				_, isChild := e.Kid["mgrs"]
				if isChild && op.Store == "emps" || !isChild && op.Store == "mgrs" {
					otherRoute = true
					res.Classes = append(res.Classes, "other-route:"+op.Kind+":via-"+op.Store)
				}
			}
		}
		if ok && !tx.Fail {
			m = trial
			plain, child := 0, 0
			for _, e := range m.Ents["emps"] {
				if _, isChild := e.Kid["mgrs"]; isChild {
					child++
				} else {
					plain++
				}
			}
			if plain > 0 && child > 0 {
				mixed = true
			}
		}
	}
	res.NonTrivial = mixed && otherRoute
	if mixed {
		res.Classes = append(res.Classes, "mixed-population")
	}
	if st.SkippedOps > 0 {
		res.Classes = append(res.Classes, "has-skipped-unspecified-op")
	}
	return res
}

func TestC15(t *testing.T) {
	kit.Execute(t, kit.Spec[kit.History]{
		ID:    "C15",
		Level: "exploration",
		Rule: "rapid draws histories (1-20 transactions, 1-3 operations) of create / update / patch / delete issued through the parent store or the child store over ids shared by both, for a plain child store (2/3) or an extended one (1/3); the parent has a unique name index and a set index on roles. " +
			"After every transaction FindById / LoadById / QueryIds / IterateIds / IterateValidIds / IsEntityPresent through both stores must return exactly the populations the property states, shared fields and child fields must equal the model, the parent's indexes must mirror every entity (child or not), parent constraints must reject child creates, and after a committed delete the id occurs nowhere in the file. " +
			"Also generated: delete-where through either store, an optional second child store, the child index on the earlier or the later child store, hostile shared-field values, system contexts. Also: every child store is queried through a caller-supplied cursor over all parent ids and through an inherited map element (kit.CheckKids). " +
			"Non-trivial history: plain and child entities coexist and some operation on an existing entity is routed through the 'other' store. Distinct by hash of the history JSON.",
		Assumptions: []string{
			"the update mapper registered by the harness routes by IsEntityPresent and copies the shared fields of the entity being written (the repository's test mapper re-loads the stored entity and would make updates through the parent a no-op)",
			"skipped as unspecified: creating a child over an existing plain parent, writing child data of an extended store for a parent that has none, deleting a plain parent through the child store",
		},
		Gen: genC15, Run: runC15,
		QuickChecks: 1000, ThoroughFactor: 10,
	})
}
