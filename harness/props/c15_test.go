package props

import (
	"fmt"
	"sort"
	"strings"
	"sync/atomic"
	"testing"

	"github.com/openziti/storage/boltz"
	"go.etcd.io/bbolt"
	"pgregory.net/rapid"

	"verif/kit"
)

// C15 — parent and child (extension) stores stay consistent.

func c15Cfg(extended, uniqueExtra, second, clash bool) kit.WorldCfg {
	cfg := kit.WorldCfg{
		Stores: []kit.StoreCfg{{Name: "emps", UniqueName: true, RolesIndex: true, Keyed: clash}, {Name: "teams"}},
		// a relation the child store owns: managers lead teams
		Links:    []kit.LinkCfg{{A: "mgrs", FieldA: "leads", B: "teams", FieldB: "leaders"}},
		Children: []kit.ChildCfg{{Name: "mgrs", Parent: "emps", Extended: extended, UniqueExtra: uniqueExtra, Clash: clash}},
	}
	if second {
		// a second child type over the same parent; an entity belongs to at most one of the two. The index of its
		// own (if any) then lives on the later-registered store
		cfg.Children[0].UniqueExtra = false
		cfg.Children = append(cfg.Children, kit.ChildCfg{Name: "ctrs", Parent: "emps", UniqueExtra: uniqueExtra})
	}
	return cfg
}

var c15Universe = kit.EntUniverse{
	IDs:    []string{"p1", "p2", "k1", "k2", "k3"},
	Names:  []string{"a", "b", "c", "d", "e", "f", ""},
	Roles:  []string{"r1", "r2"},
	Notes:  []string{"", "n1"},
	Extras: []string{"", "x1", "x2"},
	Fields: []string{kit.FName, kit.FRoles, kit.FNote, kit.FExtra},
	// occasionally a shared field holds a value the parent's own setters refuse (oversized set element, oversized
	// name): the refusal has to reach the caller whichever store the write goes through
	Hostile: true,
}

func genC15(t *rapid.T) kit.History {
	// half of the child stores have an index of their own (nullable unique index over the child-only field)
	second := rapid.IntRange(0, 2).Draw(t, "secondChild") == 0
	// a third of the cases: the parent's fields live under other bucket keys than their names, the child keeps its own
	// field under the key the parent uses for its note, and both levels declare field overrides
	cfg := c15Cfg(rapid.IntRange(0, 2).Draw(t, "extended") == 0, rapid.Bool().Draw(t, "uniqueExtra"), second, rapid.IntRange(0, 2).Draw(t, "clash") == 0)
	return kit.GenHistory(t, cfg, 20, 3, true, 60, func(t *rapid.T, l string, m *kit.Model) kit.Op {
		store := "emps"
		if rapid.Bool().Draw(t, l+"_viaChild") {
			store = "mgrs"
			if second && rapid.IntRange(0, 2).Draw(t, l+"_viaSecond") == 0 {
				store = "ctrs"
			}
		}
		if x := rapid.IntRange(0, 9).Draw(t, l+"_teams"); x == 0 {
			return kit.Op{Kind: []string{"create", "create", "delete"}[rapid.IntRange(0, 2).Draw(t, l+"_tk")], Store: "teams", ID: []string{"t1", "t2"}[rapid.IntRange(0, 1).Draw(t, l+"_tid")], Spec: &kit.EntSpec{Name: "team"}}
		} else if x == 1 {
			// link operations on the child store's collection, from either side
			op := kit.Op{Kind: []string{"addlinks", "addlinks", "removelinks", "setlinks"}[rapid.IntRange(0, 3).Draw(t, l+"_lk")]}
			mgr := c15Universe.IDs[rapid.IntRange(0, len(c15Universe.IDs)-1).Draw(t, l+"_lmgr")]
			team := []string{"t1", "t2"}[rapid.IntRange(0, 1).Draw(t, l+"_lteam")]
			if rapid.Bool().Draw(t, l+"_lside") {
				op.Store, op.Field, op.ID, op.Keys = "mgrs", "leads", mgr, []string{team}
			} else {
				op.Store, op.Field, op.ID, op.Keys = "teams", "leaders", team, []string{mgr}
			}
			return op
		}
		if rapid.IntRange(0, 11).Draw(t, l+"_deleteWhere") == 0 {
			return kit.Op{Kind: "deletewhere", Store: store, Spec: &kit.EntSpec{Name: c15Universe.Names[rapid.IntRange(0, len(c15Universe.Names)-2).Draw(t, l+"_dwName")]}}
		}
		return kit.GenEntOpM(t, l, store, c15Universe, m)
	})
}

// c15Rule is a rule of the parent store about the state an entity ends up in (registered on the parent store only, the
// child stores have no constraints or listeners of their own): no entity may carry the note "forbidden".
type c15Rule struct{ withoutState atomic.Int32 }

const c15Forbidden = "forbidden"

func (r *c15Rule) ProcessPreCommit(state *boltz.EntityChangeState[*kit.Ent]) error {
	if state.ChangeType.IsDelete() {
		return nil
	}
	if state.FinalState == nil {
		r.withoutState.Add(1)
		return nil
	}
	if state.FinalState.Note == c15Forbidden {
		return fmt.Errorf("rule of the parent store: the note %q is not allowed (entity %s)", c15Forbidden, state.EntityId)
	}
	return nil
}

func (r *c15Rule) ProcessPostCommit(*boltz.EntityChangeState[*kit.Ent]) {}

func runC15(h kit.History) kit.Result {
	res := kit.Result{Sub: len(h.Txs)}
	extended := h.Cfg.Children[0].Extended
	res.Classes = append(res.Classes, fmt.Sprintf("extended:%v", extended), fmt.Sprintf("child-index:%v", h.Cfg.Children[0].UniqueExtra), fmt.Sprintf("child-stores:%d", len(h.Cfg.Children)))
	rule := &c15Rule{}
	probes := 0
	st, err := kit.RunHistorySetup(h, func(w *kit.World) { w.Stores["emps"].AddEntityConstraint(rule) }, func(w *kit.World, m *kit.Model, i int, tx kit.TxSpec, out kit.TxOutcome) error {
		if n := rule.withoutState.Load(); n > 0 {
			return fmt.Errorf("the parent store's rule was asked about %d create/update(s) without being given the state the entity ends up in", n)
		}
		if i%4 == 3 {
			// the parent store's rule binds every entity, through whichever store the update comes
			ids := make([]string, 0, len(m.Ents["emps"]))
			for id := range m.Ents["emps"] {
				ids = append(ids, id)
			}
			sort.Strings(ids)
			for _, id := range ids {
				e := m.Ents["emps"][id]
				routes := []string{"emps"}
				for _, cc := range h.Cfg.Children {
					if _, has := e.Kid[cc.Name]; has {
						routes = append(routes, cc.Name)
					}
				}
				for _, route := range routes {
					for _, kind := range []string{"update", "patch"} {
						op := kit.Op{Kind: kind, Store: route, ID: id, Fields: []string{kit.FNote},
							Spec: &kit.EntSpec{Name: e.Name, Alias: e.Alias, Roles: e.Roles, Note: c15Forbidden, Ref: e.Ref, Serial: e.Serial, TagV: e.TagV, Extra: e.Kid[route]}}
						before := w.Dump()
						err := w.Z.Db.Update(kit.NewCtx(), func(ctx boltz.MutateContext) error {
							_, err := w.Exec(ctx, op)
							return err
						})
						if err == nil || !strings.Contains(err.Error(), "rule of the parent store") {
							return fmt.Errorf("%s, which gives %s/%s (child data in %v) a note the parent store's rule forbids, was not refused by that rule (error: %v)", op, "emps", id, routes[1:], err)
						}
						if d := kit.DiffDumps(before, w.Dump()); d != "" {
							return fmt.Errorf("%s was refused by the parent store's rule but changed the database:\n%s", op, d)
						}
						probes++
					}
				}
			}
		}
		if !out.Committed {
			return nil
		}
		// after a committed delete through either store the id occurs nowhere
		for _, op := range tx.Ops {
			if op.Kind != "delete" || op.Store == "teams" {
				continue
			}
			if _, still := m.Ents["emps"][op.ID]; still {
				continue
			}
			var hits []string
			_ = w.Z.Db.View(func(btx *bbolt.Tx) error {
				hits = kit.FindBytesInTx(btx, []byte(op.ID))
				return nil
			})
			if len(hits) > 0 {
				return fmt.Errorf("after the committed delete of %q through %s the id still occurs: %v", op.ID, op.Store, hits)
			}
		}
		return nil
	})
	res.Err = err
	// features: both populations present at some point and an operation routed through the "other" store
	m := kit.NewModel(h.Cfg)
	mixed, otherRoute := false, false
	for _, tx := range h.Txs {
		trial := m.Clone()
		ok := true
		for _, op := range tx.Ops {
			pre := trial.Clone()
			c := trial.Apply(op, false)
			if len(c) > 0 {
				ok = false
				break
			}
			if e, exists := pre.Ents["emps"][op.ID]; exists && op.Kind != "create" {
				_, isChild := e.Kid["mgrs"]
				if isChild && op.Store == "emps" || !isChild && op.Store == "mgrs" {
					otherRoute = true
					res.Classes = append(res.Classes, "other-route:"+op.Kind+":via-"+op.Store)
				}
			}
		}
		if ok && !tx.Fail {
			m = trial
			plain, child := 0, 0
			for _, e := range m.Ents["emps"] {
				if _, isChild := e.Kid["mgrs"]; isChild {
					child++
				} else {
					plain++
				}
			}
			if plain > 0 && child > 0 {
				mixed = true
			}
		}
	}
	res.NonTrivial = mixed && otherRoute
	if mixed {
		res.Classes = append(res.Classes, "mixed-population")
	}
	if st.SkippedOps > 0 {
		res.Classes = append(res.Classes, "has-skipped-unspecified-op")
	}
	if probes > 0 {
		res.Classes = append(res.Classes, "parent-rule-probed")
	}
	return res
}

func TestC15(t *testing.T) {
	kit.Execute(t, kit.Spec[kit.History]{
		ID:    "C15",
		Level: "exploration",
		Rule: "rapid draws histories (1-20 transactions, 1-3 operations) of create / update / patch / delete issued through the parent store or the child store over ids shared by both, for a plain child store (2/3) or an extended one (1/3); the parent has a unique name index and a set index on roles. " +
			"After every transaction FindById / LoadById / QueryIds / IterateIds / IterateValidIds / IsEntityPresent through both stores must return exactly the populations the property states, shared fields and child fields must equal the model, the parent's indexes must mirror every entity (child or not), parent constraints must reject child creates, and after a committed delete the id occurs nowhere in the file. " +
			"Also generated: delete-where through either store, an optional second child store, the child index on the earlier or the later child store, hostile shared-field values, system contexts. Also: every child store is queried through a caller-supplied cursor over all parent ids and through an inherited map element (kit.CheckKids). " +
			"Non-trivial history: plain and child entities coexist and some operation on an existing entity is routed through the 'other' store. Distinct by hash of the history JSON.",
		Assumptions: []string{
			"the update mapper registered by the harness routes by IsEntityPresent and copies the shared fields of the entity being written (the repository's test mapper re-loads the stored entity and would make updates through the parent a no-op)",
			"skipped as unspecified: creating a child over an existing plain parent, writing child data of an extended store for a parent that has none, deleting a plain parent through the child store",
		},
		Gen: genC15, Run: runC15,
		QuickChecks: 1000, ThoroughFactor: 10,
	})
}
