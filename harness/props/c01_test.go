package props

import (
	"fmt"
	"sort"
	"strings"
	"testing"
	"time"

	"github.com/openziti/storage/ast"
	"go.etcd.io/bbolt"
	"pgregory.net/rapid"

	"verif/kit"
)

// C01 — filter evaluation returns exactly the entities satisfying the predicate.

type c01Filter struct {
	Kind    string    `json:"kind"` // store queried: people | places
	Expr    *kit.Expr `json:"expr"`
	Classes []string  `json:"classes,omitempty"`
}

type c01Case struct {
	Data    *kit.Dataset `json:"data"`
	Filters []c01Filter  `json:"filters"`
}

// classes excluded by construction because they fall under a recorded known finding (none at present:
// every defect met so far was repaired by a fix: commit, see known_findings.json)
var c01Exclude = map[string]bool{}

func genC01(t *rapid.T) c01Case {
	c := c01Case{Data: kit.GenDataset(t, 8, 4)}
	n := rapid.IntRange(4, 10).Draw(t, "nFilters")
	for i := 0; i < n; i++ {
		var classes []string
		kind := "people"
		if rapid.IntRange(0, 9).Draw(t, fmt.Sprintf("f%d_kind", i)) == 0 {
			kind = "places"
		}
		depth := rapid.IntRange(0, 3).Draw(t, fmt.Sprintf("f%d_depth", i))
		e := kit.GenExpr(t, fmt.Sprintf("f%d", i), kind, depth, &kit.GenOpts{Classes: &classes, Exclude: c01Exclude})
		c.Filters = append(c.Filters, c01Filter{Kind: kind, Expr: e, Classes: classes})
	}
	return c
}

func idsOf(d *kit.Dataset, kind string) []string {
	var out []string
	if kind == "people" {
		for _, p := range d.People {
			out = append(out, p.ID)
		}
	} else {
		for _, p := range d.Places {
			out = append(out, p.ID)
		}
	}
	sort.Strings(out)
	return out
}

func sortedCopy(x []string) []string {
	y := append([]string(nil), x...)
	sort.Strings(y)
	return y
}

func sameSet(a, b []string) bool {
	return fmt.Sprint(sortedCopy(a)) == fmt.Sprint(sortedCopy(b))
}

// seekRewrites returns, for every seekable-shaped atom (anyOf(S) = "v" / != "v"), a copy of the filter in which
// that atom is replaced by a logically equivalent form that cannot take the seek shortcut.
func seekRewrites(e *kit.Expr) []*kit.Expr {
	var out []*kit.Expr
	idx := 0
	var count int
	e.Walk(func(n *kit.Expr) {
		if isSeekShape(n) {
			count++
		}
	})
	for target := 0; target < count; target++ {
		c := e.Clone()
		idx = 0
		c.Walk(func(n *kit.Expr) {
			if !isSeekShape(n) {
				return
			}
			if idx == target {
				if n.Cmp == "=" {
					// anyOf(S) = "v"  ==  anyOf(S) in ["v"]
					n.Op, n.Cmp = "in", ""
				} else {
					// anyOf(S) != "v"  ==  not (allOf(S) = "v")
					inner := &kit.Expr{Op: "cmp", Cmp: "=", L: &kit.LHS{Fn: "allOf", Sym: n.L.Sym}, C: n.C, Txt: n.Txt}
					*n = kit.Expr{Op: "not", Kids: []*kit.Expr{inner}}
				}
			}
			idx++
		})
		out = append(out, c)
	}
	return out
}

func isSeekShape(n *kit.Expr) bool {
	return n.Op == "cmp" && n.L != nil && n.L.Fn == "anyOf" && (n.Cmp == "=" || n.Cmp == "!=") && n.C[0].K == "s"
}

func runC01(c c01Case) kit.Result {
	res := kit.Result{Sub: len(c.Filters)}
	db := kit.NewRawDB()
	defer db.Close()
	schema := kit.NewScanSchema(c.Data.Variant)
	if err := schema.Write(db.DB, c.Data); err != nil {
		res.Err = fmt.Errorf("writing dataset: %v", err)
		return res
	}
	res.Classes = append(res.Classes, fmt.Sprintf("variant:%d", c.Data.Variant))
	err := db.DB.View(func(tx *bbolt.Tx) error {
		for _, f := range c.Filters {
			res.Classes = append(res.Classes, f.Classes...)
			store := schema.People
			if f.Kind == "places" {
				store = schema.Places
			}
			text := f.Expr.Render()
			must, may := kit.RefMatch(c.Data, f.Kind, f.Expr)
			all := idsOf(c.Data, f.Kind)
			check := func(route string, got []string, count int64, err error) error {
				if err != nil {
					return fmt.Errorf("filter: %s\n  %s returned error: %v", text, route, err)
				}
				if cerr := kit.CheckAnswer(got, must, may); cerr != nil {
					return fmt.Errorf("filter: %s\n  %s -> %v (count %d)\n  reference: must match %v, unspecified %v\n  %v", text, route, sortedCopy(got), count, must, may, cerr)
				}
				if count >= 0 && int(count) != len(got) {
					return fmt.Errorf("filter: %s\n  %s -> %v but count %d", text, route, sortedCopy(got), count)
				}
				return nil
			}

			// the same text is first put to a store whose like-named symbols have other types (it may well be ill-typed
			// there); what it means for this store must not depend on that
			if f.Kind == "people" {
				_, _, _ = schema.Twin.QueryIds(tx, text)
			}
			// route 1: QueryIds from text
			ids, count, err := store.QueryIds(tx, text)
			if err != nil {
				return fmt.Errorf("well-typed filter rejected by QueryIds: %s\n  error: %v", text, err)
			}
			if len(may) > 0 {
				res.Classes = append(res.Classes, "rows-with-unspecified-answer")
			}
			if len(may) == len(all) && len(all) > 0 {
				res.Classes = append(res.Classes, "filter-fully-unspecified")
			}
			if len(must) > 0 && len(must) < len(all) || hasInteresting(f.Classes) {
				res.NonTrivial = true
			}
			if err := check("QueryIds", ids, count, nil); err != nil {
				return err
			}
			// route 2: pre-parsed query
			q, err := ast.Parse(store, text)
			if err != nil {
				return fmt.Errorf("ast.Parse rejected %s: %v", text, err)
			}
			ids2, count2, err := store.QueryIdsC(tx, q)
			if err := check("QueryIdsC", ids2, count2, err); err != nil {
				return err
			}
			// route 3: cursor-style iteration
			q3, _ := ast.Parse(store, text)
			var ids3 []string
			for cur := store.IterateIds(tx, q3); cur.IsValid(); cur.Next() {
				ids3 = append(ids3, string(cur.Current()))
			}
			if err := check("IterateIds", ids3, -1, nil); err != nil {
				return err
			}
			// route 5: the application narrows the parsed filter to a set of ids with a condition it builds from nodes
			// itself (AND of the parsed predicate and an untyped "id in [...]", typed by PostProcess), either way round
			{
				in := map[string]bool{}
				var subset []string
				for i, id := range all {
					if i%2 == 0 {
						subset = append(subset, id)
						in[id] = true
					}
				}
				subset = append(subset, "zz-not-stored")
				var must5, may5 []string
				for _, id := range must {
					if in[id] {
						must5 = append(must5, id)
					}
				}
				for _, id := range may {
					if in[id] {
						may5 = append(may5, id)
					}
				}
				for _, parsedFirst := range []bool{true, false} {
					q5, _ := ast.Parse(store, text)
					var restrict ast.BoolNode = ast.NewInArrayExprNode(ast.NewUntypedSymbolNode("id"), ast.NewStringArrayNode(subset))
					var pred ast.BoolNode = ast.NewAndExprNode(q5.GetPredicate(), restrict)
					if !parsedFirst {
						pred = ast.NewAndExprNode(restrict, q5.GetPredicate())
					}
					route := fmt.Sprintf("QueryIdsC of (the parsed filter AND id in %q) composed from nodes and typed by PostProcess (parsed filter first: %v)", subset, parsedFirst)
					if err := ast.PostProcess(store, &pred); err != nil {
						return fmt.Errorf("filter: %s\n  %s: PostProcess: %v", text, route, err)
					}
					q5.SetPredicate(pred)
					ids5, count5, err := store.QueryIdsC(tx, q5)
					if err != nil {
						return fmt.Errorf("filter: %s\n  %s returned error: %v", text, route, err)
					}
					if cerr := kit.CheckAnswer(ids5, must5, may5); cerr != nil {
						return fmt.Errorf("filter: %s\n  %s -> %v (count %d)\n  reference: must match %v, unspecified %v\n  %v", text, route, sortedCopy(ids5), count5, must5, may5, cerr)
					}
				}
			}
			// route 4: ast alone over the harness's in-memory symbols (both cursor flavours)
			for _, seekable := range []bool{false, true} {
				qm, err := ast.Parse(kit.MemTypes(f.Kind), text)
				if err != nil {
					return fmt.Errorf("ast.Parse with in-memory symbol types rejected %s: %v", text, err)
				}
				var ids4 []string
				for _, id := range all {
					if qm.EvalBool(kit.NewMemSymbols(c.Data, f.Kind, id, seekable)) {
						ids4 = append(ids4, id)
					}
				}
				if err := check(fmt.Sprintf("EvalBool over in-memory symbols (seekable=%v)", seekable), ids4, -1, nil); err != nil {
					return err
				}
			}
			// metamorphic: the answer must not depend on the seek shortcut
			for _, rw := range seekRewrites(f.Expr) {
				rtext := rw.Render()
				idsR, _, err := store.QueryIds(tx, rtext)
				if err != nil {
					return fmt.Errorf("rewritten filter rejected: %s: %v", rtext, err)
				}
				if !sameSet(idsR, ids) {
					return fmt.Errorf("answer depends on the seek shortcut:\n  %s -> %v\n  %s -> %v", text, sortedCopy(ids), rtext, sortedCopy(idsR))
				}
				res.Classes = append(res.Classes, "metamorphic:seek-rewrite")
			}
			// metamorphic: keywords are case-insensitive (all upper case, and capitalised: "NOT IN", "Not In", "AnyOf" ...)
			items := (&kit.QuerySpec{Kind: f.Kind, Pred: f.Expr}).Items()
			for _, style := range []func(string) string{strings.ToUpper, func(w string) string {
				parts := strings.Fields(w)
				for i, p := range parts {
					parts[i] = strings.ToUpper(p[:1]) + p[1:]
				}
				return strings.Join(parts, " ")
			}} {
				style := style
				stext := kit.Spell(items, kit.SpellChoice{Case: func(word string, idx int) string { return style(word) }})
				if stext == text {
					continue
				}
				idsS, _, err := store.QueryIds(tx, stext)
				if err != nil {
					return fmt.Errorf("filter rejected after changing the letter case of its keywords: %s\n  (from %s)\n  error: %v", stext, text, err)
				}
				if !sameSet(idsS, ids) {
					return fmt.Errorf("answer depends on the letter case of keywords:\n  %s -> %v\n  %s -> %v", text, sortedCopy(ids), stext, sortedCopy(idsS))
				}
			}
		}
		return nil
	})
	res.Err = err
	return res
}

func hasInteresting(classes []string) bool {
	for _, c := range classes {
		switch {
		case c == "coercion", c == "null-test", c == "count", c == "isEmpty", c == "sym:dotted", c == "sym:map",
			c == "set:direct", c == "set:dotted", c == "sub-query:count", c == "sub-query:isEmpty":
			return true
		}
	}
	return false
}

func TestC01(t *testing.T) {
	kit.Execute(t, kit.Spec[c01Case]{
		ID:    "C01",
		Level: "exploration",
		Rule: "rapid draws a dataset (0-8 people, 0-4 places, schema variant 0-3, nulls ~25%, empty/missing sets, self/dangling references, typed tag maps) and 4-10 grammar- and type-directed filters (depth <= 3, plus sub-query predicates); " +
			"each filter's id set and count from QueryIds, QueryIdsC, IterateIds and ast-only evaluation over in-memory symbols is compared with an independent reference evaluator, and seek-shaped atoms are re-run in a non-seekable equivalent form. " +
			"A case (dataset + filter list) is non-trivial when some filter's result is neither empty nor everything, or uses a set function, dotted symbol, map element, sub-query, null test or coercion; distinct by hash of the case JSON. sub_evaluations counts filters.",
		Assumptions: []string{
			"well-typed = the generator's type table (every class observed accepted by the engine)",
			"NaN, +-Inf and -0 are not generated (no documented ordering or rendering)",
			"where the property does not pin the semantics (AnyType map element compared across kinds, negated in/between on set functions, count over a dotted multiset with duplicates, dangling member in a sub-query) the filter is asserted only if both readings agree, otherwise counted as skipped",
		},
		Gen:            genC01,
		Run:            runC01,
		CaseTimeout:    5 * time.Minute,
		QuickChecks:    2500,
		ThoroughFactor: 12,
	})
}
