package props

import (
	"bytes"
	"errors"
	"fmt"
	"sort"
	"strings"
	"sync"
	"sync/atomic"
	"testing"
	"time"

	"github.com/openziti/storage/ast"
	"github.com/openziti/storage/boltz"
	"go.etcd.io/bbolt"
	"pgregory.net/rapid"

	"verif/kit"
)

// C18 — concurrent use: snapshot-isolated reads and no data races (built with -race).

type c18Case struct {
	Things    int      `json:"things"`
	Targets   int      `json:"targets"`
	Readers   int      `json:"readers"`
	Helpers   int      `json:"helpers"`
	WriterTxs int      `json:"writerTxs"`
	Templates []string `json:"templates"` // query templates each reader runs inside every read transaction
	PauseUs   int      `json:"pauseUs"`   // writer pause between transactions
}

var c18Cfg = kit.WorldCfg{
	BasePath: []string{"root", "zone"}, // a nested base path
	Stores:   []kit.StoreCfg{{Name: "things", UniqueName: true, RolesIndex: true}, {Name: "targets", UniqueName: true}},
	Links:    []kit.LinkCfg{{A: "things", FieldA: "tlinks", B: "targets", FieldB: "plinks"}},
}

// every template renders a filter for version v and computes the reference answer for (version, #things, #targets)
type c18Template struct {
	text   func(v, n, t int) string
	expect func(v, n, t int) []string
}

func c18All(n int) []string {
	var out []string
	for i := 0; i < n; i++ {
		out = append(out, fmt.Sprintf("e%d", i))
	}
	return out
}

func c18LinkedTarget(v, i, t int) int { return (v + i) % t }

var c18Templates = map[string]c18Template{
	"by-name": {
		text:   func(v, n, t int) string { return fmt.Sprintf(`name = "%s"`, genName(v, 0)) },
		expect: func(v, n, t int) []string { return []string{"e0"} },
	},
	"old-name": {
		text: func(v, n, t int) string {
			return fmt.Sprintf(`name = "%s" or name = "%s"`, genName(v-1, 0), genName(v+1, 0))
		},
		expect: func(v, n, t int) []string { return nil },
	},
	"by-role": {
		text:   func(v, n, t int) string { return fmt.Sprintf(`anyOf(roles) = "%s"`, genRole(v)) },
		expect: func(v, n, t int) []string { return c18All(n) },
	},
	"all-roles": {
		text: func(v, n, t int) string {
			return fmt.Sprintf(`allOf(roles) = "%s" and not isEmpty(roles) and count(roles) = 1`, genRole(v))
		},
		expect: func(v, n, t int) []string { return c18All(n) },
	},
	"note-sorted": {
		text: func(v, n, t int) string { return fmt.Sprintf(`note = "%d" sort by name desc limit 2`, v) },
		expect: func(v, n, t int) []string {
			all := c18All(n)
			sort.Sort(sort.Reverse(sort.StringSlice(all)))
			if len(all) > 2 {
				all = all[:2]
			}
			return all
		},
	},
	"by-link": {
		text: func(v, n, t int) string { return `anyOf(tlinks) = "t0"` },
		expect: func(v, n, t int) []string {
			var out []string
			for i := 0; i < n; i++ {
				if c18LinkedTarget(v, i, t) == 0 {
					out = append(out, fmt.Sprintf("e%d", i))
				}
			}
			return out
		},
	},
	"dotted-link": {
		text: func(v, n, t int) string { return `anyOf(tlinks.name) = "target-0" and count(tlinks) = 1` },
		expect: func(v, n, t int) []string {
			var out []string
			for i := 0; i < n; i++ {
				if c18LinkedTarget(v, i, t) == 0 {
					out = append(out, fmt.Sprintf("e%d", i))
				}
			}
			return out
		},
	},
	// elements of a map symbol registered under a two-segment prefix, reached through nested keys: different readers
	// resolve different nested element symbols of the same map at the same time
	"map-nested-a": {
		text:   func(v, n, t int) string { return `meta.a.x >= 0 and meta.a.x < 1000` },
		expect: func(v, n, t int) []string { return c18All(n) },
	},
	"map-nested-b": {
		text:   func(v, n, t int) string { return `meta.b.y = 100` },
		expect: func(v, n, t int) []string { return []string{"e0"} },
	},
	"map-nested-c": {
		text:   func(v, n, t int) string { return `meta.c.deeper.z = "zed" and meta.a.x != null` },
		expect: func(v, n, t int) []string { return c18All(n) },
	},
	// function-backed symbols (external_symbol.go) are shared by all concurrent queries
	"func-bool-true": {
		text: func(v, n, t int) string { return `oddId = true` },
		expect: func(v, n, t int) []string {
			var out []string
			for i := 1; i < n; i += 2 {
				out = append(out, fmt.Sprintf("e%d", i))
			}
			return out
		},
	},
	"func-bool-false": {
		text: func(v, n, t int) string { return `oddId = false and idCopy != "nobody"` },
		expect: func(v, n, t int) []string {
			var out []string
			for i := 0; i < n; i += 2 {
				out = append(out, fmt.Sprintf("e%d", i))
			}
			return out
		},
	},
	"func-string": {
		text: func(v, n, t int) string { return `idCopy = "e0" or idCopy = "e3"` },
		expect: func(v, n, t int) []string {
			out := []string{"e0"}
			if n > 3 {
				out = append(out, "e3")
			}
			return out
		},
	},
	"sub-query": {
		text:   func(v, n, t int) string { return `not isEmpty(from tlinks where name contains "target")` },
		expect: func(v, n, t int) []string { return c18All(n) },
	},
}

func c18TemplateNames() []string {
	var out []string
	for k := range c18Templates {
		out = append(out, k)
	}
	sort.Strings(out)
	return out
}

func genC18(t *rapid.T) c18Case {
	names := c18TemplateNames()
	c := c18Case{
		Things:    rapid.IntRange(1, 4).Draw(t, "things"),
		Targets:   rapid.IntRange(1, 3).Draw(t, "targets"),
		Readers:   rapid.IntRange(2, 8).Draw(t, "readers"),
		Helpers:   rapid.IntRange(0, 4).Draw(t, "helpers"),
		WriterTxs: rapid.IntRange(3, 25).Draw(t, "writerTxs"),
		PauseUs:   rapid.IntRange(0, 300).Draw(t, "pauseUs"),
	}
	k := rapid.IntRange(1, 4).Draw(t, "nTemplates")
	for i := 0; i < k; i++ {
		c.Templates = append(c.Templates, names[rapid.IntRange(0, len(names)-1).Draw(t, fmt.Sprintf("tpl%d", i))])
	}
	return c
}

// writeVersion moves the whole database to version v in one multi-operation transaction.
func writeVersion(w *kit.World, c c18Case, v int, create bool) error {
	return w.Z.Db.Update(kit.NewCtx(), func(ctx boltz.MutateContext) error {
		for i := 0; i < c.Things; i++ {
			id := fmt.Sprintf("e%d", i)
			e := (&kit.EntSpec{Name: genName(v, i), Roles: []string{genRole(v)}, Note: fmt.Sprint(v)}).ToEnt("things", id)
			var err error
			if create {
				err = w.Stores["things"].Create(ctx, e)
			} else {
				err = w.Stores["things"].Update(ctx, e, nil)
			}
			if err != nil {
				return err
			}
			if err := w.Links["things.tlinks"].SetLinks(ctx.Tx(), id, []string{fmt.Sprintf("t%d", c18LinkedTarget(v, i, c.Targets))}); err != nil {
				return err
			}
		}
		return nil
	})
}

// readVersion checks, inside one read transaction, that entities, unique index, set index, links (both sides) and the
// drawn queries all show one and the same version; it returns that version.
func readVersion(w *kit.World, c c18Case) (int, error) {
	v, _, err := readVersionKeep(w, c)
	return v, err
}

// readVersionKeep also hands back the id list of an unsorted query exactly as the store returned it: callers keep
// query results after the read transaction has ended, so the strings must stay what they were.
func readVersionKeep(w *kit.World, c c18Case) (int, []string, error) {
	version := -1
	var kept []string
	err := w.Z.Db.View(func(tx *bbolt.Tx) error {
		st := w.Stores["things"]
		var qerr error
		if kept, _, qerr = st.QueryIds(tx, "true"); qerr != nil {
			return fmt.Errorf("QueryIds(true): %v", qerr)
		}
		for i := 0; i < c.Things; i++ {
			id := fmt.Sprintf("e%d", i)
			e, found, err := st.FindById(tx, id)
			if err != nil || !found {
				return fmt.Errorf("entity %s not readable: found=%v err=%v", id, found, err)
			}
			var v, vi int
			if _, err := fmt.Sscanf(e.Name, "g%04d-e%d", &v, &vi); err != nil {
				return fmt.Errorf("entity %s has unexpected name %q", id, e.Name)
			}
			if version == -1 {
				version = v
			}
			if v != version {
				return fmt.Errorf("one read transaction shows version %d (e0) and version %d (%s)", version, v, id)
			}
			if e.Note != fmt.Sprint(version) || len(e.Roles) != 1 || e.Roles[0] != genRole(version) {
				return fmt.Errorf("entity %s at version %d has note %q roles %q", id, version, e.Note, e.Roles)
			}
			if got := w.Unique["things.name"].Read(tx, []byte(genName(version, i))); string(got) != id {
				return fmt.Errorf("version %d: unique index maps %q to %q, expected %s", version, genName(version, i), got, id)
			}
			wantT := fmt.Sprintf("t%d", c18LinkedTarget(version, i, c.Targets))
			if links := w.Links["things.tlinks"].GetLinks(tx, id); len(links) != 1 || links[0] != wantT {
				return fmt.Errorf("version %d: %s is linked to %q, expected [%s]", version, id, links, wantT)
			}
			if !w.Links["targets.plinks"].IsLinked(tx, []byte(wantT), []byte(id)) {
				return fmt.Errorf("version %d: link %s -> %s has no reverse entry", version, id, wantT)
			}
		}
		count := 0
		w.SetIdx["things.roles"].Read(tx, []byte(genRole(version)), func([]byte) { count++ })
		if count != c.Things {
			return fmt.Errorf("version %d: set index lists %d entities for %s, expected %d", version, count, genRole(version), c.Things)
		}
		for _, sym := range []string{"roles", "tlinks", "tlinks.name", "name", "tags.x", "meta.a.x", "meta.c.deeper.z"} {
			if st.GetSymbol(sym) == nil {
				return fmt.Errorf("GetSymbol(%q) returned nil", sym)
			}
		}
		// paging set programmatically on a query parsed from the empty filter (what a REST layer does for "list
		// everything, page k"): each request works on its own query object
		if pq, perr := ast.Parse(st, ""); perr != nil {
			return fmt.Errorf("ast.Parse of the empty filter: %v", perr)
		} else {
			skip := c18PageCounter.Add(1) % int64(c.Things)
			pq.SetSkip(skip)
			pq.SetLimit(1)
			page, _, qerr := st.QueryIdsC(tx, pq)
			if qerr != nil || len(page) != 1 || page[0] != fmt.Sprintf("e%d", skip) {
				return fmt.Errorf("empty filter with skip %d limit 1 set on the parsed query returned %v (err %v), expected [e%d]", skip, page, qerr, skip)
			}
			if all, _, aerr := st.QueryIds(tx, ""); aerr != nil || len(all) != c.Things {
				return fmt.Errorf("the empty filter returned %v (err %v), expected all %d entities", all, aerr, c.Things)
			}
		}
		for _, name := range c.Templates {
			tpl := c18Templates[name]
			text := tpl.text(version, c.Things, c.Targets)
			q, err := ast.Parse(st, text)
			if err != nil {
				return fmt.Errorf("ast.Parse(%s): %v", text, err)
			}
			if err := boltz.ValidateSymbolsArePublic(q, st); err != nil && !strings.Contains(text, "tlinks") && !strings.Contains(text, "roles") && !strings.Contains(text, "oddId") && !strings.Contains(text, "idCopy") {
				return fmt.Errorf("ValidateSymbolsArePublic(%s): %v", text, err)
			}
			ids, _, err := st.QueryIdsC(tx, q)
			if err != nil {
				return fmt.Errorf("query %s: %v", text, err)
			}
			want := tpl.expect(version, c.Things, c.Targets)
			if name != "note-sorted" {
				sort.Strings(ids)
			}
			if fmt.Sprint(ids) != fmt.Sprint(want) && !(len(ids) == 0 && len(want) == 0) {
				return fmt.Errorf("version %d: query %s returned %v, a serial execution on that version returns %v", version, text, ids, want)
			}
		}
		return nil
	})
	return version, kept, err
}

var c18PageCounter atomic.Int64

var errHelperLookup = errors.New("lookup failed inside a read transaction")

var sharedRefErr = boltz.NewReferenceByIdError("a", "1", "b", "2", "f")
var sharedDupErr error = &boltz.UniqueIndexDuplicateError{Field: "f", Value: "v", EntityType: "t"}
var sharedNotFound = boltz.NewNotFoundError("t", "id", "x")

// helperRound hammers the package-level helpers; results must be right, and the race detector watches the rest.
func helperRound(w *kit.World, i int) error {
	fresh := boltz.NewReferenceByIdError("things", fmt.Sprint(i), "deps", "d", "ref")
	wrapped := fmt.Errorf("wrapped: %w", fresh)
	plain := errors.New("plain")
	if !boltz.IsReferenceExistsError(fresh) || !boltz.IsReferenceExistsError(wrapped) || !boltz.IsReferenceExistsError(sharedRefErr) || boltz.IsReferenceExistsError(plain) || boltz.IsReferenceExistsError(sharedDupErr) {
		return fmt.Errorf("IsReferenceExistsError misclassified an error")
	}
	dup := &boltz.UniqueIndexDuplicateError{Field: "name", Value: fmt.Sprint(i), EntityType: "things"}
	if !boltz.IsUniqueIndexDuplicateError(dup) || !boltz.IsUniqueIndexDuplicateError(sharedDupErr) || boltz.IsUniqueIndexDuplicateError(plain) || boltz.IsUniqueIndexDuplicateError(sharedRefErr) {
		return fmt.Errorf("IsUniqueIndexDuplicateError misclassified an error")
	}
	if !boltz.IsErrNotFoundErr(boltz.NewNotFoundError("things", "id", fmt.Sprint(i))) || !boltz.IsErrNotFoundErr(sharedNotFound) || boltz.IsErrNotFoundErr(plain) {
		return fmt.Errorf("IsErrNotFoundErr misclassified an error")
	}
	// a read transaction whose callback fails: the error comes back and the transaction is released like any other
	if verr := w.Z.Db.View(func(tx *bbolt.Tx) error {
		if _, found, _ := w.Stores["things"].FindById(tx, "no-such-id"); !found {
			return errHelperLookup
		}
		return nil
	}); !errors.Is(verr, errHelperLookup) {
		return fmt.Errorf("Db.View returned %v for a callback that returned an error", verr)
	}
	if i%7 == 3 {
		// a migration of a component of its own whose second step fails: the whole migration is one transaction, so the
		// component is afterwards at the version it was at before (0), whoever asks
		mm := boltz.NewMigratorManager(w.Z.Db)
		comp := fmt.Sprintf("helper-component-%d", i)
		merr := mm.Migrate(comp, 2, func(step *boltz.MigrationStep) int {
			if step.CurrentVersion == 0 {
				return 1
			}
			step.SetError(errHelperLookup)
			return step.CurrentVersion
		})
		if !errors.Is(merr, errHelperLookup) {
			return fmt.Errorf("a migration whose second step fails returned %v", merr)
		}
		if v, verr := mm.GetComponentVersion(comp); verr != nil || v != 0 {
			return fmt.Errorf("after a migration whose second step failed (and was rolled back) the component is reported at version %d (error %v), want 0", v, verr)
		}
	}
	if i%5 == 0 {
		// a batched transaction that fails after its first write (beside the writer and other helpers, whose batches
		// bbolt may merge with it): the caller gets the error and nothing of it is ever visible
		doomed := fmt.Sprintf("doomed-%d", i)
		// started just before it, so that bbolt is likely to merge the two: a batched transaction that succeeds. Part of
		// its work is done by a pre-commit action registered on the context before the call. When the merged batch
		// fails because of the other member, bbolt runs this one again on its own: all of its work is committed
		put := func(tx *bbolt.Tx, key string) error {
			b, err := tx.CreateBucketIfNotExists([]byte("zz-batch"))
			if err != nil {
				return err
			}
			return b.Put([]byte(key), []byte("x"))
		}
		goodDone := make(chan error, 1)
		go func() {
			ctx := kit.NewCtx()
			ctx.AddPreCommitAction(func(c boltz.MutateContext) error { return put(c.Tx(), fmt.Sprintf("action-%d", i)) })
			goodDone <- w.Z.Db.Batch(ctx, func(c boltz.MutateContext) error { return put(c.Tx(), fmt.Sprintf("body-%d", i)) })
		}()
		defer func() { <-goodDone }()
		berr := w.Z.Db.Batch(kit.NewCtx(), func(ctx boltz.MutateContext) error {
			if err := w.Stores["targets"].Create(ctx, (&kit.EntSpec{Name: "name-of-" + doomed}).ToEnt("targets", doomed)); err != nil {
				return err
			}
			return errHelperLookup
		})
		if !errors.Is(berr, errHelperLookup) {
			return fmt.Errorf("Db.Batch returned %v for a function that returned an error after writing", berr)
		}
		var visible bool
		_ = w.Z.Db.View(func(tx *bbolt.Tx) error {
			visible = w.Stores["targets"].IsEntityPresent(tx, doomed)
			return nil
		})
		if visible {
			return fmt.Errorf("entity %s, created by a batched transaction that failed, is visible", doomed)
		}
		if gerr := <-goodDone; gerr != nil {
			goodDone <- gerr
			return fmt.Errorf("a batched transaction whose function and pre-commit action succeed returned %v (another batched transaction failed beside it)", gerr)
		}
		goodDone <- nil
		var bodyThere, actionThere bool
		_ = w.Z.Db.View(func(tx *bbolt.Tx) error {
			if b := tx.Bucket([]byte("zz-batch")); b != nil {
				bodyThere = b.Get([]byte(fmt.Sprintf("body-%d", i))) != nil
				actionThere = b.Get([]byte(fmt.Sprintf("action-%d", i))) != nil
			}
			return nil
		})
		if !bodyThere || !actionThere {
			return fmt.Errorf("a batched transaction returned nil (another batched transaction failed beside it); of its work, the function's write is committed: %v, the write of its pre-commit action: %v", bodyThere, actionThere)
		}
	}
	st := w.Stores["things"]
	q, err := ast.Parse(st, fmt.Sprintf(`name = "n%d" and (anyOf(roles) in ["a", "b"] or note != null) sort by name limit %d`, i, i%7))
	if err != nil {
		return fmt.Errorf("ast.Parse in helper: %v", err)
	}
	_ = boltz.ValidateSymbolsArePublic(q, st)
	if _, err := ast.Parse(st, `name = `); err == nil {
		return fmt.Errorf("ast.Parse accepted an incomplete filter")
	}
	if st.GetSymbol("tlinks.name") == nil || st.GetSymbol("roles") == nil || st.GetSymbol("nope") != nil {
		return fmt.Errorf("GetSymbol gave a wrong answer")
	}
	return nil
}

func runC18(c c18Case) kit.Result {
	res := kit.Result{Classes: []string{fmt.Sprintf("readers:%d", c.Readers), fmt.Sprintf("helpers:%d", c.Helpers)}}
	for _, tname := range c.Templates {
		res.Classes = append(res.Classes, "query:"+tname)
	}
	w, err := kit.NewWorld(c18Cfg)
	if err != nil {
		res.Err = err
		return res
	}
	// closing a bbolt database waits for open transactions: when the verdict is "transactions are stuck / leaked"
	// the database is abandoned instead (its temporary directory is removed with the run)
	abandon := false
	defer func() {
		if !abandon {
			w.Close()
		}
	}()
	// grow the file and bbolt's memory map once (then free the pages): the workload never makes bbolt re-map the file
	if err := w.Z.Db.Update(kit.NewCtx(), func(ctx boltz.MutateContext) error {
		pad, err := ctx.Tx().CreateBucket([]byte("zz-pad"))
		if err != nil {
			return err
		}
		chunk := bytes.Repeat([]byte("p"), 2048)
		for i := 0; i < 300; i++ {
			if err := pad.Put([]byte(fmt.Sprintf("k%04d", i)), chunk); err != nil {
				return err
			}
		}
		return nil
	}); err == nil {
		err = w.Z.Db.Update(kit.NewCtx(), func(ctx boltz.MutateContext) error { return ctx.Tx().DeleteBucket([]byte("zz-pad")) })
	}
	// the prefix is assembled the way configuration code does it: a slice with spare capacity
	metaPrefix := append(make([]string, 0, 8), "edge", "deep")
	w.Stores["things"].AddMapSymbol("meta", ast.NodeTypeAnyType, "meta", metaPrefix...)
	w.Stores["things"].MakeSymbolPublic("meta")
	w.Stores["things"].AddEntitySymbol(boltz.NewBoolFuncSymbol(w.Stores["things"], "oddId", func(id string) bool {
		return len(id) > 0 && (id[len(id)-1]-'0')%2 == 1
	}))
	w.Stores["things"].AddEntitySymbol(boltz.NewStringFuncSymbol(w.Stores["things"], "idCopy", func(id string) *string {
		s := id
		return &s
	}))
	err = w.Z.Db.Update(kit.NewCtx(), func(ctx boltz.MutateContext) error {
		for i := 0; i < c.Targets; i++ {
			if err := w.Stores["targets"].Create(ctx, (&kit.EntSpec{Name: fmt.Sprintf("target-%d", i)}).ToEnt("targets", fmt.Sprintf("t%d", i))); err != nil {
				return err
			}
		}
		return nil
	})
	if err == nil {
		err = writeVersion(w, c, 1, true)
	}
	if err == nil {
		// version-independent map data under things/<id>/edge/deep/meta/...
		err = w.Z.Db.Update(kit.NewCtx(), func(ctx boltz.MutateContext) error {
			for i := 0; i < c.Things; i++ {
				b := boltz.GetOrCreatePath(ctx.Tx(), c18Cfg.PathOf("things", fmt.Sprintf("e%d", i), "edge", "deep", "meta")...)
				b.GetOrCreatePath("a").SetInt64("x", int64(i), nil)
				b.GetOrCreatePath("b").SetInt64("y", int64(100+i), nil)
				b.GetOrCreatePath("c", "deeper").SetString("z", "zed", nil)
				if b.HasError() {
					return b.GetError()
				}
			}
			return nil
		})
	}
	if err != nil {
		res.Err = fmt.Errorf("setup: %v", err)
		return res
	}
	// a restriction parsed once and AND-ed onto the filter of every request (all readers share the parsed predicate):
	// an id list long enough for any shortcut the engine may take with longer lists
	var idList []string
	for i := 0; i < 40; i++ {
		idList = append(idList, fmt.Sprintf("%q", fmt.Sprintf("e%d", i)))
	}
	restrictQ, err := ast.Parse(w.Stores["things"], "id in ["+strings.Join(idList, ", ")+"]")
	if err != nil {
		res.Err = fmt.Errorf("setup: parsing the shared restriction: %v", err)
		return res
	}
	restriction := restrictQ.GetPredicate()
	var firstErr atomic.Value
	fail := func(err error) { firstErr.CompareAndSwap(nil, err) }
	stop := make(chan struct{})
	var wg sync.WaitGroup
	var reads atomic.Int64
	versionsSeen := make([]map[int]bool, c.Readers)
	for r := 0; r < c.Readers; r++ {
		versionsSeen[r] = map[int]bool{}
		wg.Add(1)
		go func(r int) {
			defer wg.Done()
			defer func() {
				if p := recover(); p != nil {
					fail(fmt.Errorf("reader %d panicked: %v", r, p))
				}
			}()
			last := 0
			type keptResult struct{ ids, copies []string }
			var keep []keptResult
			for {
				select {
				case <-stop:
					return
				default:
				}
				v, ids, err := readVersionKeep(w, c)
				if err != nil {
					fail(fmt.Errorf("reader %d: %v", r, err))
					return
				}
				if err := w.Z.Db.View(func(tx *bbolt.Tx) error {
					own, err := ast.Parse(w.Stores["things"], "true")
					if err != nil {
						return err
					}
					own.SetPredicate(ast.NewAndExprNode(own.GetPredicate(), restriction))
					got, _, err := w.Stores["things"].QueryIdsC(tx, own)
					if err != nil || len(got) != c.Things {
						return fmt.Errorf("the request's filter AND the shared restriction (every id is on its list) returned %v (err %v), expected all %d entities", got, err, c.Things)
					}
					return nil
				}); err != nil {
					fail(fmt.Errorf("reader %d: %v", r, err))
					return
				}
				// results of earlier read transactions are still held: they must not change under the caller while
				// the writer keeps committing
				for _, k := range keep {
					for i := range k.ids {
						if k.ids[i] != k.copies[i] {
							fail(fmt.Errorf("reader %d: an id returned by an earlier query changed after its read transaction ended: was %q, is now %q", r, k.copies[i], k.ids[i]))
							return
						}
					}
				}
				copies := make([]string, len(ids))
				for i := range ids {
					copies[i] = strings.Clone(ids[i])
				}
				if keep = append(keep, keptResult{ids, copies}); len(keep) > 6 {
					keep = keep[1:]
				}
				if v < last {
					fail(fmt.Errorf("reader %d saw version %d after version %d", r, v, last))
					return
				}
				last = v
				versionsSeen[r][v] = true
				reads.Add(1)
			}
		}(r)
	}
	for h := 0; h < c.Helpers; h++ {
		wg.Add(1)
		go func(h int) {
			defer wg.Done()
			defer func() {
				if p := recover(); p != nil {
					fail(fmt.Errorf("helper %d panicked: %v", h, p))
				}
			}()
			for i := 0; ; i++ {
				select {
				case <-stop:
					return
				default:
				}
				if err := helperRound(w, h*100000+i); err != nil {
					fail(fmt.Errorf("helper %d: %v", h, err))
					return
				}
			}
		}(h)
	}
	// the writer runs on this goroutine
	for v := 2; v < 2+c.WriterTxs && firstErr.Load() == nil; v++ {
		if err := writeVersion(w, c, v, false); err != nil {
			fail(fmt.Errorf("writer: version %d: %v", v, err))
			break
		}
		if c.PauseUs > 0 {
			time.Sleep(time.Duration(c.PauseUs) * time.Microsecond)
		}
	}
	time.Sleep(300 * time.Microsecond)
	close(stop)
	done := make(chan struct{})
	go func() { wg.Wait(); close(done) }()
	select {
	case <-done:
	case <-time.After(60 * time.Second):
		abandon = true
		res.Err = fmt.Errorf("the goroutines of a millisecond-scale workload are still stuck after 60 s (deadlock)")
		return res
	}
	if e := firstErr.Load(); e != nil {
		res.Err = fmt.Errorf("%v\nworkload: %+v", e, c)
		return res
	}
	if v, err := readVersion(w, c); err != nil || v != 1+c.WriterTxs {
		res.Err = fmt.Errorf("final state: version %d err %v, the writer committed up to %d", v, err, 1+c.WriterTxs)
		return res
	}
	// every goroutine has finished and one more read transaction has been opened and closed on this goroutine, so
	// bbolt's open-transaction count is exact now (while transactions end concurrently the statistic can lag)
	if n := w.Z.Db.Stats().OpenTxN; n != 0 {
		abandon = true
		res.Err = fmt.Errorf("%d read transaction(s) are still open after every reader, helper and the writer have finished\nworkload: %+v", n, c)
		return res
	}
	// a snapshot of the database streams back in (RestoreFromReader) while a reader asks for the version: the reader is
	// served while the transfer is under way (it does not have to wait for the end of the stream)
	{
		var snap bytes.Buffer
		if err := w.Z.Db.StreamToWriter(&snap); err != nil {
			res.Err = fmt.Errorf("streaming the database out: %v", err)
			return res
		}
		blocked := false
		var rerr error
		func() {
			defer func() {
				if p := recover(); p != nil {
					rerr = fmt.Errorf("RestoreFromReader panicked: %v", p)
				}
			}()
			w.Z.Db.RestoreFromReader(&midStreamReader{data: snap.Bytes(), at: snap.Len() / 2, hook: func() {
				done := make(chan error, 1)
				go func() {
					_, err := readVersion(w, c)
					done <- err
				}()
				select {
				case err := <-done:
					if err != nil {
						rerr = fmt.Errorf("a read made while a snapshot was streaming in: %v", err)
					}
				case <-time.After(5 * time.Second):
					blocked = true
				}
			}})
		}()
		if rerr != nil {
			abandon = true
			res.Err = rerr
			return res
		}
		if blocked {
			res.Err = fmt.Errorf("a read transaction started while a snapshot was streaming in for RestoreFromReader did not return within 5 s: readers are locked out for the whole transfer")
			return res
		}
		if v, err := readVersion(w, c); err != nil || v != 1+c.WriterTxs {
			res.Err = fmt.Errorf("after restoring the database from its own snapshot: version %d err %v, want %d", v, err, 1+c.WriterTxs)
			return res
		}
	}
	// the database has no timeline id yet: four requests at once agree on one id, generated once
	{
		var calls atomic.Int32
		idF := func() (string, error) {
			n := calls.Add(1)
			time.Sleep(2 * time.Millisecond)
			return fmt.Sprintf("timeline-%d", n), nil
		}
		ids := make([]string, 4)
		errs := make([]error, 4)
		var twg sync.WaitGroup
		for g := range ids {
			twg.Add(1)
			go func(g int) {
				defer twg.Done()
				ids[g], errs[g] = w.Z.Db.GetTimelineId(boltz.TimelineModeInitIfEmpty, idF)
			}(g)
		}
		twg.Wait()
		stored, serr := w.Z.Db.GetTimelineId(boltz.TimelineModeInitIfEmpty, idF)
		for g := range ids {
			if errs[g] != nil || ids[g] != stored {
				res.Err = fmt.Errorf("four GetTimelineId requests at once on a database without a timeline id: answers %q (errors %v), the id function ran %d time(s), the database now holds %q (error %v)", ids, errs, calls.Load(), stored, serr)
				return res
			}
		}
		if calls.Load() != 1 {
			res.Err = fmt.Errorf("four GetTimelineId requests at once on a database without a timeline id: the id function ran %d times, want once (answers %q)", calls.Load(), ids)
			return res
		}
	}
	for r := range versionsSeen {
		if len(versionsSeen[r]) >= 2 {
			res.NonTrivial = true
		}
	}
	if res.NonTrivial {
		res.Classes = append(res.Classes, "reader-saw-several-versions")
	}
	return res
}

func TestC18(t *testing.T) {
	kit.Execute(t, kit.Spec[c18Case]{
		ID:    "C18",
		Level: "exploration",
		Rule: "rapid draws a workload: 1-4 entities linked to 1-3 targets, 2-8 reader goroutines, 0-4 helper goroutines, a writer committing 3-25 multi-operation transactions each of which moves the WHOLE database (entity fields, unique value, role, link pattern) from version v to v+1, and 1-4 query templates (by unique value, stale values, anyOf/allOf/count over the set index field, sorted+limited, link set, dotted link symbol, sub-query). Built with -race. " +
			"Every reader loop iteration opens one View and requires entities, unique index, set index, both link sides and every query (parsed inside the transaction, checked against the reference answer for that version) to show one and the same version, never going backwards; helpers hammer IsReferenceExistsError / IsUniqueIndexDuplicateError / IsErrNotFoundErr on shared and fresh errors, ast.Parse, GetSymbol and ValidateSymbolsArePublic and check the answers. Any race-detector report fails the check. " +
			"Also: query results are held across read transactions and must not change, helpers run failing read transactions and failing batched transactions, and no read transaction may be left open at the end. Also: readers set skip / limit on a query parsed from the empty filter; helpers run failing batched transactions. " +
			"Non-trivial: some reader observed >= 2 different versions (the writer really interleaved). Distinct by hash of the workload JSON.",
		Assumptions: []string{"schedules are sampled by the Go scheduler, not enumerated; a race needing one specific preemption can be missed"},
		Gen:         genC18, Run: runC18,
		QuickChecks: 150, ThoroughFactor: 4,
	})
}
