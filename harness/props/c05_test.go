package props

import (
	"fmt"
	"testing"

	"pgregory.net/rapid"

	"verif/kit"
)

// C05 — link collections stay symmetric; ref-counted links agree on both sides.

var c05Cfg = kit.WorldCfg{
	Stores: []kit.StoreCfg{{Name: "as"}, {Name: "bs"}},
	Links: []kit.LinkCfg{
		{A: "as", FieldA: "blinks", B: "bs", FieldB: "alinks"},
		{A: "as", FieldA: "rcb", B: "bs", FieldB: "rca", RefCounted: true},
	},
}

var c05A = []string{"a1", "a2", "a3"}
var c05B = []string{"b1", "b2", "b3", "b4"}

func genC05(t *rapid.T) kit.History {
	// most histories start from a populated database so that link operations dominate
	var setup []kit.TxSpec
	if rapid.IntRange(0, 4).Draw(t, "prepopulate") > 0 {
		tx := kit.TxSpec{}
		for _, id := range c05A {
			if rapid.IntRange(0, 4).Draw(t, "pre_"+id) > 0 {
				tx.Ops = append(tx.Ops, kit.Op{Kind: "create", Store: "as", ID: id, Spec: &kit.EntSpec{Name: "n"}})
			}
		}
		for _, id := range c05B {
			if rapid.IntRange(0, 4).Draw(t, "pre_"+id) > 0 {
				tx.Ops = append(tx.Ops, kit.Op{Kind: "create", Store: "bs", ID: id, Spec: &kit.EntSpec{Name: "n"}})
			}
		}
		if len(tx.Ops) > 0 {
			setup = append(setup, tx)
		}
	}
	return kit.GenHistoryFrom(t, c05Cfg, setup, 25, 3, false, 50, func(t *rapid.T, l string, m *kit.Model) kit.Op {
		x := rapid.IntRange(0, 99).Draw(t, l+"_what")
		missing := func(store string, ids []string) []string {
			var out []string
			for _, id := range ids {
				if _, ok := m.Ents[store][id]; !ok {
					out = append(out, id)
				}
			}
			return out
		}
		ma, mb := missing("as", c05A), missing("bs", c05B)
		wantCreate := x < 8 || len(ma) == len(c05A) || len(mb) == len(c05B)
		if wantCreate && len(ma)+len(mb) > 0 {
			store, ids := "as", ma
			if len(ma) == 0 || len(mb) > 0 && (len(mb) == len(c05B) || rapid.Bool().Draw(t, l+"_side")) && len(ma) < len(c05A) {
				store, ids = "bs", mb
			}
			if x >= 97 { // occasionally create an id that already exists
				ids = map[string][]string{"as": c05A, "bs": c05B}[store]
			}
			return kit.Op{Kind: "create", Store: store, ID: ids[rapid.IntRange(0, len(ids)-1).Draw(t, l+"_cid")], Spec: &kit.EntSpec{Name: "n"}}
		}
		if x >= 15 && x < 24 {
			store, ids := "as", c05A
			if rapid.Bool().Draw(t, l+"_dside") {
				store, ids = "bs", c05B
			}
			return kit.Op{Kind: "delete", Store: store, ID: ids[rapid.IntRange(0, len(ids)-1).Draw(t, l+"_did")]}
		}
		// link operation, from either side
		fromA := rapid.Bool().Draw(t, l+"_fromA")
		rc := rapid.IntRange(0, 2).Draw(t, l+"_rc") == 0
		op := kit.Op{}
		self, other := c05A, c05B
		if fromA {
			op.Store, op.Field = "as", "blinks"
			if rc {
				op.Field = "rcb"
			}
		} else {
			op.Store, op.Field = "bs", "alinks"
			if rc {
				op.Field = "rca"
			}
			self, other = c05B, c05A
		}
		op.ID = self[rapid.IntRange(0, len(self)-1).Draw(t, l+"_lid")]
		key := func(i int) string {
			return other[rapid.IntRange(0, len(other)-1).Draw(t, fmt.Sprintf("%s_key%d", l, i))]
		}
		if rc {
			op.Kind = []string{"rcinc", "rcinc", "rcdec", "rcdec", "rcset"}[rapid.IntRange(0, 4).Draw(t, l+"_rckind")]
			op.Keys = []string{key(0)}
			if op.Kind == "rcset" {
				op.Count = rapid.IntRange(0, 3).Draw(t, l+"_count")
			}
			return op
		}
		op.Kind = []string{"addlinks", "removelinks", "setlinks", "setlinks", "addlink", "removelink"}[rapid.IntRange(0, 5).Draw(t, l+"_lkind")]
		switch op.Kind {
		case "addlink", "removelink":
			op.Keys = []string{key(0)}
		case "setlinks":
			n := rapid.IntRange(0, 5).Draw(t, l+"_nkeys")
			op.Keys = []string{}
			for i := 0; i < n; i++ {
				op.Keys = append(op.Keys, key(i))
			}
		default:
			n := rapid.IntRange(1, 3).Draw(t, l+"_nkeys")
			for i := 0; i < n; i++ {
				op.Keys = append(op.Keys, key(i))
			}
		}
		return op
	})
}

func hasDup(xs []string) bool {
	seen := map[string]bool{}
	for _, x := range xs {
		if seen[x] {
			return true
		}
		seen[x] = true
	}
	return false
}

func runC05(h kit.History) kit.Result {
	res := kit.Result{Sub: len(h.Txs)}
	st, err := kit.RunHistory(h, nil)
	res.Err = err
	// features from a pure model replay
	var setMixed, setDup, countToZero, deleteLinked bool
	m := kit.NewModel(h.Cfg)
	for _, tx := range h.Txs {
		trial := m.Clone()
		ok := true
		for _, op := range tx.Ops {
			pre := trial.Clone()
			c := trial.Apply(op, false)
			if len(c) > 0 {
				ok = false
				break
			}
			switch op.Kind {
			case "setlinks":
				coll, flipped, _ := pre.Canonical(op.Store, op.Field)
				cur := pre.LinkedFrom(coll, flipped, op.ID)
				want := map[string]bool{}
				for _, k := range op.Keys {
					want[k] = true
				}
				adds, removes := false, false
				for k := range want {
					found := false
					for _, c := range cur {
						if c == k {
							found = true
						}
					}
					if !found {
						adds = true
					}
				}
				for _, c := range cur {
					if !want[c] {
						removes = true
					}
				}
				if adds && removes {
					setMixed = true
				}
				if hasDup(op.Keys) {
					setDup = true
				}
			case "rcdec", "rcset":
				coll, flipped, _ := pre.Canonical(op.Store, op.Field)
				a, b := op.ID, op.Keys[0]
				if flipped {
					a, b = b, a
				}
				if pre.LinkCount(coll, a, b) > 0 && trial.LinkCount(coll, a, b) == 0 {
					countToZero = true
				}
			case "delete":
				for _, lc := range h.Cfg.Links {
					coll := lc.A + "." + lc.FieldA
					if len(pre.LinkedFrom(coll, op.Store == lc.B, op.ID)) > 0 {
						deleteLinked = true
					}
				}
			}
		}
		if ok && !tx.Fail {
			m = trial
		}
	}
	res.NonTrivial = setMixed || setDup || countToZero || deleteLinked
	for name, on := range map[string]bool{"setlinks-adds-and-removes": setMixed, "setlinks-with-duplicates": setDup, "count-reaches-zero": countToZero, "delete-of-linked-entity": deleteLinked, "reject-then-commit": st.RejectThenCommit} {
		if on {
			res.Classes = append(res.Classes, name)
		}
	}
	for _, tx := range h.Txs {
		for _, op := range tx.Ops {
			res.Classes = append(res.Classes, "op:"+op.Kind)
		}
	}
	return res
}

// exhaustive: every (current set, requested list) pair for SetLinks over a universe of n linked ids; one history per
// current set, alternating "set to current" / "set to requested" so one database serves all requests
func exhaustiveC05(n, maxLen int) func(yield func(h kit.History) bool) {
	return func(yield func(h kit.History) bool) {
		universe := []string{"b1", "b2", "b3", "b4", "b5"}[:n]
		var lists [][]string
		var rec func(prefix []string)
		rec = func(prefix []string) {
			lists = append(lists, append([]string{}, prefix...))
			if len(prefix) == maxLen {
				return
			}
			for _, u := range universe {
				rec(append(prefix[:len(prefix):len(prefix)], u))
			}
		}
		rec(nil)
		for mask := 0; mask < 1<<uint(n); mask++ {
			cur := []string{}
			for i, u := range universe {
				if mask&(1<<uint(i)) != 0 {
					cur = append(cur, u)
				}
			}
			for _, fromA := range []bool{true, false} {
				h := kit.History{Cfg: c05Cfg}
				setup := kit.TxSpec{}
				store, field, self, otherStore := "as", "blinks", "a1", "bs"
				if !fromA {
					store, field, self, otherStore = "bs", "alinks", "b1", "as"
				}
				setup.Ops = append(setup.Ops, kit.Op{Kind: "create", Store: store, ID: self, Spec: &kit.EntSpec{Name: "n"}})
				for _, u := range universe {
					if !(otherStore == store) {
						setup.Ops = append(setup.Ops, kit.Op{Kind: "create", Store: otherStore, ID: u, Spec: &kit.EntSpec{Name: "n"}})
					}
				}
				h.Txs = append(h.Txs, setup)
				for _, req := range lists {
					h.Txs = append(h.Txs,
						kit.TxSpec{Ops: []kit.Op{{Kind: "setlinks", Store: store, Field: field, ID: self, Keys: cur}}},
						kit.TxSpec{Ops: []kit.Op{{Kind: "setlinks", Store: store, Field: field, ID: self, Keys: req}}})
				}
				if !yield(h) {
					return
				}
			}
		}
	}
}

func TestC05(t *testing.T) {
	kit.Execute(t, kit.Spec[kit.History]{
		ID:    "C05",
		Level: "exploration",
		Rule: "rapid draws histories (1-25 transactions, 1-3 operations) over stores as{a1..a3} and bs{b1..b4} joined by a plain link collection and a ref-counted one: AddLinks / RemoveLinks / SetLinks (0-5 keys, unsorted, with duplicates) / AddLink / RemoveLink / Increment / Decrement / SetLinkCount(0..3) issued from either side, entity creates and deletes, links to missing entities. " +
			"After every transaction both sides of every collection are read (GetLinks, IterateLinks, IsLinked, GetLinkCount(s), raw buckets) and compared with an adjacency/count model and with each other; AddLink/RemoveLink's boolean must equal 'state changed'; failures must leave the dump unchanged. " +
			"Exhaustive part: every (current set, requested list) pair for SetLinks over 3 linked ids with lists up to length 3 (quick) / 4 ids, length 4 (thorough), from both sides. " +
			"Non-trivial history: a SetLinks that both adds and removes or has duplicates, a count reaching zero, or a delete of a linked entity. Distinct by hash of the history JSON.",
		Assumptions: []string{"negative counts are not generated (no caller does; semantics unspecified)",
			"link collections are declared over AddFkSetSymbol symbols (storage path = [symbol name]), as everywhere in the repository; an entity has child data in at most one child store of its parent"},
		Gen: genC05, Run: runC05,
		QuickChecks: 1000, ThoroughFactor: 10,
		ExhaustiveQuick: exhaustiveC05(3, 3),
		Exhaustive:      exhaustiveC05(4, 4),
	})
}
