package props

import (
	"fmt"
	"strings"
	"testing"

	"pgregory.net/rapid"

	"verif/kit"
)

// C05 — link collections stay symmetric; ref-counted links agree on both sides.

var c05Cfg = kit.WorldCfg{
	Stores: []kit.StoreCfg{{Name: "as"}, {Name: "bs"}},
	Links: []kit.LinkCfg{
		{A: "as", FieldA: "blinks", B: "bs", FieldB: "alinks"},
		{A: "as", FieldA: "rcb", B: "bs", FieldB: "rca", RefCounted: true},
	},
}

// The generated histories use a richer schema than the exhaustive part: three stores, a child store over "as",
// plain and ref-counted collections, two collections of bs whose remote symbols have the same name, a collection
// declared on the child store, and ids that are proper prefixes of other ids.
var c05RichCfg = c05RichCfgFor(false)

// c05RichCfgFor: "ds" has ref-counted collections only; the child store "ak" may be an extended one.
func c05RichCfgFor(extendedChild bool) kit.WorldCfg {
	return kit.WorldCfg{
		Stores:   []kit.StoreCfg{{Name: "as"}, {Name: "bs"}, {Name: "cs"}, {Name: "ds"}},
		Children: []kit.ChildCfg{{Name: "ak", Parent: "as", Extended: extendedChild}},
		Links: []kit.LinkCfg{
			{A: "as", FieldA: "blinks", B: "bs", FieldB: "alinks"},
			{A: "as", FieldA: "rcb", B: "bs", FieldB: "rca", RefCounted: true},
			{A: "cs", FieldA: "blinks", B: "bs", FieldB: "clinks"},
			{A: "cs", FieldA: "rcb", B: "bs", FieldB: "rcc", RefCounted: true},
			{A: "ak", FieldA: "klinks", B: "bs", FieldB: "kback"},
			{A: "ds", FieldA: "rcb", B: "bs", FieldB: "rcd", RefCounted: true},
			{A: "ak", FieldA: "krc", B: "bs", FieldB: "krcb", RefCounted: true}, // a ref-counted collection declared on the child store
		},
	}
}

// ids: prefixes of other ids, one id of exactly 64 bytes, and one id ("shared") used in several stores (ids are
// unique per store only)
var c05Long64 = "id64-" + strings.Repeat("x", 59)

// ... one of 128 and one of 300 bytes, and ids that differ only in letter case
var c05Long128 = "id128-" + strings.Repeat("y", 122)
var c05Long300 = "id300-" + strings.Repeat("w", 294)

var c05IDs = map[string][]string{
	"as": {"a1", "a10", "a2", "A1", "shared", c05Long128},
	"ak": {"a1", "a10", "a2", "A1", "shared", c05Long128},
	"bs": {"b1", "b10", "b2", "b", "B1", "shared", c05Long64, c05Long128, c05Long300},
	"cs": {"c1", "c10", "shared"},
	"ds": {"d1", c05Long64},
}

type c05Side struct {
	store, field, other string
	rc                  bool
}

var c05Sides = func() []c05Side {
	var out []c05Side
	for _, l := range c05RichCfg.Links {
		out = append(out, c05Side{l.A, l.FieldA, l.B, l.RefCounted}, c05Side{l.B, l.FieldB, l.A, l.RefCounted})
	}
	return out
}()

func genC05(t *rapid.T) kit.History {
	// most histories start from a populated database so that link operations dominate
	var setup []kit.TxSpec
	if rapid.IntRange(0, 4).Draw(t, "prepopulate") > 0 {
		tx := kit.TxSpec{}
		for _, store := range []string{"as", "bs", "cs", "ds"} {
			for _, id := range c05IDs[store] {
				if rapid.IntRange(0, 4).Draw(t, "pre_"+store+"_"+id) > 0 {
					via := store
					if store == "as" && rapid.Bool().Draw(t, "prekid_"+id) {
						via = "ak" // created through the child store: has child data
					}
					tx.Ops = append(tx.Ops, kit.Op{Kind: "create", Store: via, ID: id, Spec: &kit.EntSpec{Name: "n"}})
				}
			}
		}
		if len(tx.Ops) > 0 {
			setup = append(setup, tx)
		}
	}
	pickID := func(t *rapid.T, l, store string) string {
		ids := c05IDs[store]
		return ids[rapid.IntRange(0, len(ids)-1).Draw(t, l)]
	}
	cfg := c05RichCfgFor(rapid.IntRange(0, 2).Draw(t, "extendedChild") == 0)
	h := genC05Random(t, cfg, setup, pickID)
	if rapid.IntRange(0, 3).Draw(t, "caseTwins") == 0 {
		// one entity is linked, with single AddLink calls, to two entities whose ids differ only in letter case:
		// the lower-case one first (it sorts after the other), then the upper-case one
		dir := [][5]string{{"bs", "alinks", "b", "a1", "A1"}, {"as", "blinks", "a2", "b1", "B1"}}[rapid.IntRange(0, 1).Draw(t, "caseTwinSide")]
		other := map[string]string{"bs": "as", "as": "bs"}[dir[0]]
		m0 := replayModel(h)
		var create []kit.Op
		if !m0.LinkEndExists(dir[0], dir[2]) {
			create = append(create, kit.Op{Kind: "create", Store: dir[0], ID: dir[2], Spec: &kit.EntSpec{Name: "n"}})
		}
		for _, id := range dir[3:] {
			if !m0.LinkEndExists(other, id) {
				create = append(create, kit.Op{Kind: "create", Store: other, ID: id, Spec: &kit.EntSpec{Name: "n"}})
			}
		}
		if len(create) > 0 {
			h.Txs = append(h.Txs, kit.TxSpec{Ops: create})
		}
		h.Txs = append(h.Txs, kit.TxSpec{Ops: []kit.Op{{Kind: "setlinks", Store: dir[0], Field: dir[1], ID: dir[2], Keys: []string{}}}},
			kit.TxSpec{Ops: []kit.Op{{Kind: "addlink", Store: dir[0], Field: dir[1], ID: dir[2], Keys: []string{dir[3]}}}},
			kit.TxSpec{Ops: []kit.Op{{Kind: "addlink", Store: dir[0], Field: dir[1], ID: dir[2], Keys: []string{dir[4]}}}})
	}
	if rapid.IntRange(0, 3).Draw(t, "prefixRemove") == 0 {
		// an entity is linked to an id that starts with another id (b10 / b1) and not to that other one; removing the
		// link to the shorter id changes nothing
		dir := [][5]string{{"as", "blinks", "a2", "b10", "b1"}, {"bs", "alinks", "b2", "a10", "a1"}}[rapid.IntRange(0, 1).Draw(t, "prefixRemoveSide")]
		other := map[string]string{"bs": "as", "as": "bs"}[dir[0]]
		m0 := replayModel(h)
		var create []kit.Op
		if !m0.LinkEndExists(dir[0], dir[2]) {
			create = append(create, kit.Op{Kind: "create", Store: dir[0], ID: dir[2], Spec: &kit.EntSpec{Name: "n"}})
		}
		for _, id := range dir[3:] {
			if !m0.LinkEndExists(other, id) {
				create = append(create, kit.Op{Kind: "create", Store: other, ID: id, Spec: &kit.EntSpec{Name: "n"}})
			}
		}
		if len(create) > 0 {
			h.Txs = append(h.Txs, kit.TxSpec{Ops: create})
		}
		h.Txs = append(h.Txs, kit.TxSpec{Ops: []kit.Op{{Kind: "setlinks", Store: dir[0], Field: dir[1], ID: dir[2], Keys: []string{dir[3]}}}},
			kit.TxSpec{Ops: []kit.Op{{Kind: "removelink", Store: dir[0], Field: dir[1], ID: dir[2], Keys: []string{dir[4]}}}})
	}
	if rapid.IntRange(0, 2).Draw(t, "shrinkTx") > 0 {
		return h
	}
	// "grow then shrink in one transaction": the entity's link bucket is written, then most of it removed again,
	// inside the same transaction (through the collection API, from the other side, or with the entity itself)
	m := replayModel(h)
	var plain []c05Side
	for _, sd := range c05Sides {
		if !sd.rc {
			plain = append(plain, sd)
		}
	}
	sd := plain[rapid.IntRange(0, len(plain)-1).Draw(t, "shrinkSide")]
	var selfIDs, others []string
	for _, id := range c05IDs[sd.store] {
		if m.LinkEndExists(sd.store, id) {
			selfIDs = append(selfIDs, id)
		}
	}
	for _, id := range c05IDs[sd.other] {
		if m.LinkEndExists(sd.other, id) {
			others = append(others, id)
		}
	}
	if len(selfIDs) == 0 || len(others) < 3 {
		return h
	}
	id := selfIDs[rapid.IntRange(0, len(selfIDs)-1).Draw(t, "shrinkID")]
	keep := []string{}
	if rapid.Bool().Draw(t, "shrinkKeepOne") {
		keep = append(keep, others[rapid.IntRange(0, len(others)-1).Draw(t, "shrinkKeep")])
	}
	tx := kit.TxSpec{}
	switch rapid.IntRange(0, 2).Draw(t, "shrinkHow") {
	case 0:
		tx.Ops = []kit.Op{{Kind: "addlinks", Store: sd.store, Field: sd.field, ID: id, Keys: others},
			{Kind: "setlinks", Store: sd.store, Field: sd.field, ID: id, Keys: keep}}
	case 1:
		// the first write comes from the other side of the collection
		var otherField string
		for _, o := range c05Sides {
			if o.store == sd.other && o.other == sd.store && !o.rc {
				coll1, _, _ := m.Canonical(o.store, o.field)
				coll2, _, _ := m.Canonical(sd.store, sd.field)
				if coll1 == coll2 {
					otherField = o.field
				}
			}
		}
		tx.Ops = []kit.Op{{Kind: "setlinks", Store: sd.store, Field: sd.field, ID: id, Keys: others}}
		tx2 := kit.TxSpec{Ops: []kit.Op{{Kind: "addlinks", Store: sd.other, Field: otherField, ID: others[0], Keys: []string{id}},
			{Kind: "setlinks", Store: sd.store, Field: sd.field, ID: id, Keys: keep}}}
		h.Txs = append(h.Txs, tx)
		tx = tx2
	default:
		// with the entity: update with the full list, then update with (almost) none
		tx.Ops = []kit.Op{{Kind: "update", Store: sd.store, ID: id, Spec: &kit.EntSpec{Name: "n", LinkField: sd.field, LinkIDs: others}},
			{Kind: "update", Store: sd.store, ID: id, Spec: &kit.EntSpec{Name: "n", LinkField: sd.field, LinkIDs: keep}}}
	}
	h.Txs = append(h.Txs, tx)
	return h
}

func genC05Random(t *rapid.T, cfg kit.WorldCfg, setup []kit.TxSpec, pickID func(t *rapid.T, l, store string) string) kit.History {
	return kit.GenHistoryFrom(t, cfg, setup, 25, 3, false, 50, func(t *rapid.T, l string, m *kit.Model) kit.Op {
		x := rapid.IntRange(0, 99).Draw(t, l+"_what")
		switch {
		case x < 8:
			store := []string{"as", "ak", "bs", "bs", "cs", "ds"}[rapid.IntRange(0, 5).Draw(t, l+"_cstore")]
			return kit.Op{Kind: "create", Store: store, ID: pickID(t, l+"_cid", store), Spec: &kit.EntSpec{Name: "n"}}
		case x < 16:
			store := []string{"as", "ak", "bs", "bs", "cs", "ds"}[rapid.IntRange(0, 5).Draw(t, l+"_dstore")]
			return kit.Op{Kind: "delete", Store: store, ID: pickID(t, l+"_did", store)}
		case x < 30:
			// the link set is persisted together with the entity: PersistContext.SetLinkedIds from PersistEntity,
			// on create / update / patch, through the store itself or (for "as") through the child store or the parent
			var plain []c05Side
			for _, sd := range c05Sides {
				if !sd.rc {
					plain = append(plain, sd)
				}
			}
			sd := plain[rapid.IntRange(0, len(plain)-1).Draw(t, l+"_pside")]
			via := sd.store
			if m.BaseStore(sd.store) == "as" {
				via = []string{"as", "ak"}[rapid.IntRange(0, 1).Draw(t, l+"_pvia")]
			}
			id := pickID(t, l+"_pid", via)
			n := rapid.IntRange(0, 4).Draw(t, l+"_pn")
			keys := []string{}
			for i := 0; i < n; i++ {
				keys = append(keys, pickID(t, fmt.Sprintf("%s_pk%d", l, i), sd.other))
			}
			spec := &kit.EntSpec{Name: "n", Note: []string{"", "x"}[rapid.IntRange(0, 1).Draw(t, l+"_pnote")], LinkField: sd.field, LinkIDs: keys}
			_, exists := m.Ents[m.BaseStore(via)][id]
			switch k := rapid.IntRange(0, 9).Draw(t, l+"_pkind"); {
			case !exists && k < 9:
				return kit.Op{Kind: "create", Store: via, ID: id, Spec: spec}
			case k < 5:
				return kit.Op{Kind: "update", Store: via, ID: id, Spec: spec}
			default:
				fields := []string{}
				if rapid.IntRange(0, 3).Draw(t, l+"_psel") > 0 {
					fields = append(fields, sd.field)
				}
				if rapid.Bool().Draw(t, l+"_pselnote") {
					fields = append(fields, kit.FNote)
				}
				return kit.Op{Kind: "patch", Store: via, ID: id, Spec: spec, Fields: fields}
			}
		}
		// link operation through the collection API, from either side of any collection
		sd := c05Sides[rapid.IntRange(0, len(c05Sides)-1).Draw(t, l+"_side")]
		op := kit.Op{Store: sd.store, Field: sd.field, ID: pickID(t, l+"_lid", sd.store)}
		// mostly work on an entity that exists, and (for the keys) mostly on links that exist
		var existing []string
		for _, id := range c05IDs[sd.store] {
			if m.LinkEndExists(sd.store, id) {
				existing = append(existing, id)
			}
		}
		if len(existing) > 0 && rapid.IntRange(0, 9).Draw(t, l+"_lexisting") > 0 {
			op.ID = existing[rapid.IntRange(0, len(existing)-1).Draw(t, l+"_lid2")]
		}
		coll, flipped, _ := m.Canonical(sd.store, sd.field)
		linked := m.LinkedFrom(coll, flipped, op.ID)
		key := func(i int) string {
			if len(linked) > 0 && rapid.IntRange(0, 2).Draw(t, fmt.Sprintf("%s_keylinked%d", l, i)) > 0 {
				return linked[rapid.IntRange(0, len(linked)-1).Draw(t, fmt.Sprintf("%s_keyl%d", l, i))]
			}
			return pickID(t, fmt.Sprintf("%s_key%d", l, i), sd.other)
		}
		if sd.rc {
			op.Kind = []string{"rcinc", "rcinc", "rcdec", "rcdec", "rcset"}[rapid.IntRange(0, 4).Draw(t, l+"_rckind")]
			op.Keys = []string{key(0)}
			if op.Kind == "rcset" {
				op.Count = rapid.IntRange(0, 3).Draw(t, l+"_count")
			}
			return op
		}
		op.Kind = []string{"addlinks", "removelinks", "setlinks", "setlinks", "addlink", "removelink"}[rapid.IntRange(0, 5).Draw(t, l+"_lkind")]
		switch op.Kind {
		case "addlink", "removelink":
			op.Keys = []string{key(0)}
		case "setlinks":
			n := rapid.IntRange(0, 5).Draw(t, l+"_nkeys")
			op.Keys = []string{}
			for i := 0; i < n; i++ {
				op.Keys = append(op.Keys, key(i))
			}
		default:
			n := rapid.IntRange(1, 3).Draw(t, l+"_nkeys")
			for i := 0; i < n; i++ {
				op.Keys = append(op.Keys, key(i))
			}
		}
		return op
	})
}

// c05TwoDatabasesBusy: two databases of one process, each written by its own goroutine with a dense run of link
// operations over ids of its own; afterwards each holds exactly its own links, symmetrically.
func c05TwoDatabasesBusy() error {
	errs := make(chan error, 2)
	for g := 0; g < 2; g++ {
		go func(g int) {
			errs <- func() error {
				w, err := kit.NewWorld(c05Cfg)
				if err != nil {
					return err
				}
				defer w.Close()
				m := kit.NewModel(c05Cfg)
				prefix := []string{"left-", "right-"}[g]
				var bids []string
				setup := kit.TxSpec{Ops: []kit.Op{{Kind: "create", Store: "as", ID: prefix + "a", Spec: &kit.EntSpec{Name: "n"}}}}
				for i := 0; i < 6; i++ {
					bids = append(bids, fmt.Sprintf("%sb%d", prefix, i))
					setup.Ops = append(setup.Ops, kit.Op{Kind: "create", Store: "bs", ID: bids[i], Spec: &kit.EntSpec{Name: "n"}})
				}
				if out := kit.RunTx(w, m, setup); out.Violation != nil || !out.Committed {
					return fmt.Errorf("setup: %v", out.Violation)
				}
				for round := 0; round < 120; round++ {
					keys := []string{bids[round%6], bids[(round+1)%6], bids[(round*5+2)%6]}
					tx := kit.TxSpec{Ops: []kit.Op{{Kind: "setlinks", Store: "as", Field: "blinks", ID: prefix + "a", Keys: keys},
						{Kind: "addlinks", Store: "bs", Field: "alinks", ID: bids[(round+3)%6], Keys: []string{prefix + "a"}}}}
					if out := kit.RunTx(w, m, tx); out.Violation != nil || !out.Committed {
						return fmt.Errorf("round %d: %v", round, out.Violation)
					}
					if round%20 == 19 {
						if err := w.CheckAll(m); err != nil {
							return fmt.Errorf("after round %d: %v", round, err)
						}
					}
				}
				return w.CheckAll(m)
			}()
		}(g)
	}
	var first error
	for g := 0; g < 2; g++ {
		if e := <-errs; e != nil && first == nil {
			first = fmt.Errorf("two databases written at the same time by two goroutines (dense link operations): %v", e)
		}
	}
	return first
}

func hasDup(xs []string) bool {
	seen := map[string]bool{}
	for _, x := range xs {
		if seen[x] {
			return true
		}
		seen[x] = true
	}
	return false
}

func runC05(h kit.History) kit.Result {
	res := kit.Result{Sub: len(h.Txs)}
	st, err := kit.RunHistory(h, nil)
	res.Err = err
	if err == nil && len(h.Txs)%8 == 5 {
		// the same history once more, in two databases of one process written at the same time by two goroutines:
		// each database is its own world
		errs := make(chan error, 2)
		for g := 0; g < 2; g++ {
			go func() {
				_, e := kit.RunHistory(h, nil)
				errs <- e
			}()
		}
		for g := 0; g < 2; g++ {
			if e := <-errs; e != nil && res.Err == nil {
				res.Err = fmt.Errorf("the history run in two databases at the same time: %v", e)
			}
		}
		res.Classes = append(res.Classes, "two-databases-written-concurrently")
		if res.Err == nil {
			res.Err = c05TwoDatabasesBusy()
		}
	}
	// features from a pure model replay
	var setMixed, setDup, countToZero, deleteLinked bool
	m := kit.NewModel(h.Cfg)
	for _, tx := range h.Txs {
		trial := m.Clone()
		ok := true
		for _, op := range tx.Ops {
			pre := trial.Clone()
			c := trial.Apply(op, false)
			if len(c) > 0 {
				ok = false
				break
			}
			switch op.Kind {
			case "setlinks":
				coll, flipped, _ := pre.Canonical(op.Store, op.Field)
				cur := pre.LinkedFrom(coll, flipped, op.ID)
				want := map[string]bool{}
				for _, k := range op.Keys {
					want[k] = true
				}
				adds, removes := false, false
				for k := range want {
					found := false
					for _, c := range cur {
						if c == k {
							found = true
						}
					}
					if !found {
						adds = true
					}
				}
				for _, c := range cur {
					if !want[c] {
						removes = true
					}
				}
				if adds && removes {
					setMixed = true
				}
				if hasDup(op.Keys) {
					setDup = true
				}
			case "rcdec", "rcset":
				coll, flipped, _ := pre.Canonical(op.Store, op.Field)
				a, b := op.ID, op.Keys[0]
				if flipped {
					a, b = b, a
				}
				if pre.LinkCount(coll, a, b) > 0 && trial.LinkCount(coll, a, b) == 0 {
					countToZero = true
				}
			case "delete":
				for _, lc := range h.Cfg.Links {
					coll := lc.A + "." + lc.FieldA
					if pre.BaseStore(op.Store) != pre.BaseStore(lc.A) && op.Store != lc.B {
						continue
					}
					if len(pre.LinkedFrom(coll, op.Store == lc.B, op.ID)) > 0 {
						deleteLinked = true
					}
				}
			}
		}
		if ok && !tx.Fail {
			m = trial
		}
	}
	res.NonTrivial = setMixed || setDup || countToZero || deleteLinked
	for name, on := range map[string]bool{"setlinks-adds-and-removes": setMixed, "setlinks-with-duplicates": setDup, "count-reaches-zero": countToZero, "delete-of-linked-entity": deleteLinked, "reject-then-commit": st.RejectThenCommit} {
		if on {
			res.Classes = append(res.Classes, name)
		}
	}
	for _, tx := range h.Txs {
		for _, op := range tx.Ops {
			res.Classes = append(res.Classes, "op:"+op.Kind)
			if op.Spec != nil && op.Spec.LinkField != "" {
				res.Classes = append(res.Classes, "persist-links:"+op.Kind+":via-"+op.Store)
			}
		}
	}
	return res
}

// exhaustive: every (current set, requested list) pair for SetLinks over a universe of n linked ids; one history per
// current set, alternating "set to current" / "set to requested" so one database serves all requests
func exhaustiveC05(n, maxLen int) func(yield func(h kit.History) bool) {
	return func(yield func(h kit.History) bool) {
		universe := []string{"b1", "b2", "b3", "b4", "b5"}[:n]
		var lists [][]string
		var rec func(prefix []string)
		rec = func(prefix []string) {
			lists = append(lists, append([]string{}, prefix...))
			if len(prefix) == maxLen {
				return
			}
			for _, u := range universe {
				rec(append(prefix[:len(prefix):len(prefix)], u))
			}
		}
		rec(nil)
		for mask := 0; mask < 1<<uint(n); mask++ {
			cur := []string{}
			for i, u := range universe {
				if mask&(1<<uint(i)) != 0 {
					cur = append(cur, u)
				}
			}
			for _, fromA := range []bool{true, false} {
				h := kit.History{Cfg: c05Cfg}
				setup := kit.TxSpec{}
				store, field, self, otherStore := "as", "blinks", "a1", "bs"
				if !fromA {
					store, field, self, otherStore = "bs", "alinks", "b1", "as"
				}
				setup.Ops = append(setup.Ops, kit.Op{Kind: "create", Store: store, ID: self, Spec: &kit.EntSpec{Name: "n"}})
				for _, u := range universe {
					if !(otherStore == store) {
						setup.Ops = append(setup.Ops, kit.Op{Kind: "create", Store: otherStore, ID: u, Spec: &kit.EntSpec{Name: "n"}})
					}
				}
				h.Txs = append(h.Txs, setup)
				for _, req := range lists {
					h.Txs = append(h.Txs,
						kit.TxSpec{Ops: []kit.Op{{Kind: "setlinks", Store: store, Field: field, ID: self, Keys: cur}}},
						kit.TxSpec{Ops: []kit.Op{{Kind: "setlinks", Store: store, Field: field, ID: self, Keys: req}}})
				}
				if !yield(h) {
					return
				}
			}
		}
	}
}

func TestC05(t *testing.T) {
	kit.Execute(t, kit.Spec[kit.History]{
		ID:    "C05",
		Level: "exploration",
		Rule: "rapid draws histories (1-25 transactions, 1-3 operations) over stores as{a1..a3} and bs{b1..b4} joined by a plain link collection and a ref-counted one: AddLinks / RemoveLinks / SetLinks (0-5 keys, unsorted, with duplicates) / AddLink / RemoveLink / Increment / Decrement / SetLinkCount(0..3) issued from either side, entity creates and deletes, links to missing entities. " +
			"After every transaction both sides of every collection are read (GetLinks, IterateLinks, IsLinked, GetLinkCount(s), raw buckets) and compared with an adjacency/count model and with each other; AddLink/RemoveLink's boolean must equal 'state changed'; failures must leave the dump unchanged. " +
			"Exhaustive part: every (current set, requested list) pair for SetLinks over 3 linked ids with lists up to length 3 (quick) / 4 ids, length 4 (thorough), from both sides. " +
			"The generated histories use three stores and a child store with five collections (one on the child store, two whose remote symbols share a name), ids that are prefixes of other ids, link sets persisted together with the entity (SetLinkedIds on create / update / patch through either store) and grow-then-shrink transactions. Also: a store with ref-counted collections only, one 64-byte id, one id used in several stores, an extended variant of the child store. " +
			"Non-trivial history: a SetLinks that both adds and removes or has duplicates, a count reaching zero, or a delete of a linked entity. Distinct by hash of the history JSON.",
		Assumptions: []string{"negative counts are not generated (no caller does; semantics unspecified)",
			"link collections are declared over AddFkSetSymbol symbols (storage path = [symbol name]), as everywhere in the repository; an entity has child data in at most one child store of its parent"},
		Gen: genC05, Run: runC05,
		QuickChecks: 1000, ThoroughFactor: 10,
		ExhaustiveQuick: exhaustiveC05(3, 3),
		Exhaustive:      exhaustiveC05(4, 4),
	})
}
