package props

import (
	"fmt"
	"os"
	"path/filepath"
	"regexp"
	"runtime/debug"
	"strings"
	"sync"
	"sync/atomic"
	"testing"

	"github.com/openziti/storage/ast"
	"github.com/openziti/storage/boltz"
	"github.com/openziti/storage/objectz"
	"github.com/openziti/storage/zitiql"
	"go.etcd.io/bbolt"
	"pgregory.net/rapid"

	"verif/kit"
)

// C10 — parsing and evaluation are total: no panics, invalid input is rejected.

type c10Case struct {
	Kind string `json:"kind"` // sentence | mutant | tokens | bytes | foreign
	Text string `json:"text"`
	// foreign: Base is a valid sentence and Text is Base with one foreign character inserted at a token boundary
	Base string `json:"base,omitempty"`
}

// ---- fixed datasets the parsed queries are evaluated against (built once, read-only afterwards) ----

type c10Env struct {
	dbs    []*kit.RawDB
	data   []*kit.Dataset
	schema *kit.ScanSchema
	ostore *objectz.ObjectStore[*kit.Person]
	// ostore2 iterates the same objects in another order: the one with the null fields comes first
	ostore2 *objectz.ObjectStore[*kit.Person]
}

var (
	c10Once sync.Once
	c10E    *c10Env
)

func c10Datasets() []*kit.Dataset {
	empty := &kit.Dataset{}
	allNull := &kit.Dataset{}
	for _, id := range []string{"p1", "p2"} {
		allNull.People = append(allNull.People, kit.Person{ID: id, F: map[string]kit.Val{"sa": kit.NullV(), "ia": kit.NullV(), "boss": kit.NullV()}, NoTags: id == "p1",
			Roles: kit.StrSet{Present: id == "p2"}, Nums: kit.StrSet{Present: true}})
	}
	allNull.Places = []kit.Place{{ID: "q1", Name: kit.NullV(), N: kit.AbsentV()}}
	rich := &kit.Dataset{}
	for i, id := range []string{"p1", "p2", "p3", "p4", "p5"} {
		p := kit.Person{ID: id, F: map[string]kit.Val{
			"sa": kit.SV(kit.UStr[(i*3)%len(kit.UStr)]), "sb": kit.SV(kit.UStr[(i*5+1)%len(kit.UStr)]),
			"ia": kit.IV(kit.UInt[i%len(kit.UInt)]), "ib": kit.I32V(kit.UInt32[i%len(kit.UInt32)]),
			"fa": kit.FV(kit.UFloat[i%len(kit.UFloat)]), "ba": kit.BV(i%2 == 0), "ta": kit.TV(kit.UTime[i%len(kit.UTime)]),
			"boss": kit.SV([]string{"p2", "p3", "zz", "p1", "p5"}[i]), "home": kit.SV([]string{"q1", "q2", "zz", "q1", "q2"}[i]),
		},
			Roles:  kit.StrSet{Present: true, Elems: []string{kit.URole[i%len(kit.URole)], kit.URole[(i+3)%len(kit.URole)]}},
			Nums:   kit.StrSet{Present: true, Elems: []string{kit.UNum[i%len(kit.UNum)]}},
			Places: kit.StrSet{Present: true, Elems: []string{"q1", []string{"q2", "zz"}[i%2]}},
			Peers:  kit.StrSet{Present: i%2 == 0, Elems: []string{"p1", "p4"}},
			Tags:   map[string]kit.Val{"k": []kit.Val{kit.SV("a"), kit.IV(3), kit.FV(2.5), kit.BV(true), kit.TV(kit.UTime[0])}[i], "n": kit.IV(int64(i)), "s": kit.SV("Bob")},
		}
		if i%2 == 1 {
			p.Tags["n"] = kit.I32V(int64(i)) // a number stored as a 32-bit integer
			p.SubTags = map[string]kit.Val{"k": kit.I32V(7), "n": kit.FV(0.5)}
		}
		if i == 4 {
			p.F["sa"], p.F["ia"], p.F["fa"], p.F["ba"], p.F["ta"] = kit.NullV(), kit.NullV(), kit.NullV(), kit.NullV(), kit.NullV()
		}
		rich.People = append(rich.People, p)
	}
	rich.Places = []kit.Place{
		{ID: "q1", Name: kit.SV("Hotel"), N: kit.IV(3), Businesses: kit.StrSet{Present: true, Elems: []string{"a", "b"}}, People: kit.StrSet{Present: true, Elems: []string{"p1", "p2"}}},
		{ID: "q2", Name: kit.NullV(), N: kit.NullV(), Businesses: kit.StrSet{Present: true}, People: kit.StrSet{}},
	}
	return []*kit.Dataset{empty, allNull, rich}
}

func c10Environment() *c10Env {
	c10Once.Do(func() {
		e := &c10Env{schema: kit.NewScanSchema(0)}
		for _, d := range c10Datasets() {
			db := kit.NewRawDB()
			if len(d.People)+len(d.Places) > 0 {
				if err := e.schema.Write(db.DB, d); err != nil {
					panic(err)
				}
			}
			e.dbs = append(e.dbs, db)
			e.data = append(e.data, d)
		}
		rich := e.data[2]
		var order []int
		for i := range rich.People {
			order = append(order, i)
		}
		e.ostore = newObjectStore(rich, order)
		e.ostore2 = newObjectStore(rich, []int{4, 2, 0, 3, 1})
		c10E = e
	})
	return c10E
}

func c10Cleanup() {
	if c10E != nil {
		for _, db := range c10E.dbs {
			db.Close()
		}
	}
}

func guarded(what string, f func()) (err error) {
	defer func() {
		if r := recover(); r != nil {
			err = fmt.Errorf("panic in %s: %v\n%s", what, r, shortStack(debug.Stack()))
		}
	}()
	f()
	return nil
}

func shortStack(b []byte) string {
	var keep []string
	lines := strings.Split(string(b), "\n")
	for i := 0; i+1 < len(lines); i++ {
		if strings.Contains(lines[i+1], "/repo/") || strings.Contains(lines[i+1], "openziti/storage") {
			keep = append(keep, strings.TrimSpace(lines[i])+" @ "+strings.TrimSpace(lines[i+1]))
			i++
		}
		if len(keep) >= 8 {
			break
		}
	}
	return strings.Join(keep, "\n")
}

// totalityOracle: parse through every entry point, exactly one of (query, error); every parsed query is evaluated
// against every dataset through every route, under recover. Returns (parsedSomewhere, reachedTyping, violation).
func totalityOracle(text string) (parsed bool, typing bool, violation error) {
	return totalityOracleOpt(text, true)
}

func totalityOracleOpt(text string, withDebugSwitch bool) (parsed bool, typing bool, violation error) {
	e := c10Environment()
	// 1. ast.Parse against the bolt store's symbol types
	var q ast.Query
	var perr error
	if err := guarded("ast.Parse(bolt store types)", func() { q, perr = ast.Parse(e.schema.People, text) }); err != nil {
		return false, false, err
	}
	if (q == nil) == (perr == nil) {
		return false, false, fmt.Errorf("ast.Parse(%q) returned query=%v and err=%v: exactly one must be set", text, q, perr)
	}
	if perr != nil {
		if _, isSyntax := perr.(zitiql.ParseError); !isSyntax {
			typing = true
		}
	} else {
		parsed, typing = true, true
	}
	// 1b. the parser's debug switch only adds diagnostics: it must not change whether the text is accepted
	if !withDebugSwitch {
		goto memTypes
	}
	if err := guarded("ast.Parse with EnableQueryDebug", func() {
		ast.EnableQueryDebug.Store(true)
		defer ast.EnableQueryDebug.Store(false)
		qd, derr := ast.Parse(e.schema.People, text)
		if (qd == nil) == (derr == nil) {
			panic(fmt.Sprintf("query=%v err=%v: exactly one must be set", qd, derr))
		}
		if (derr == nil) != (perr == nil) {
			panic(fmt.Sprintf("accepted=%v with the debug switch on, accepted=%v with it off (errors: %v / %v)", derr == nil, perr == nil, derr, perr))
		}
	}); err != nil {
		return parsed, typing, fmt.Errorf("%q: %v", text, err)
	}
memTypes:
	// 2. harness symbol table (every type incl. AnyType maps), ast only
	var qm ast.Query
	var merr error
	if err := guarded("ast.Parse(in-memory symbol types)", func() { qm, merr = ast.Parse(kit.MemTypes("people"), text) }); err != nil {
		return parsed, typing, err
	}
	if (qm == nil) == (merr == nil) {
		return parsed, typing, fmt.Errorf("ast.Parse(%q) over in-memory types returned query=%v and err=%v", text, qm, merr)
	}
	// 3. evaluation over every dataset
	for di, db := range e.dbs {
		if err := guarded(fmt.Sprintf("QueryIds over dataset %d", di), func() {
			_ = db.DB.View(func(tx *bbolt.Tx) error {
				_, _, _ = e.schema.People.QueryIds(tx, text)
				if q != nil {
					q2, err := ast.Parse(e.schema.People, text)
					if err == nil {
						for cur := e.schema.People.IterateIds(tx, q2); cur.IsValid(); cur.Next() {
						}
					}
					// the same query served from a caller-supplied cursor over a tree set (either direction is requested
					// by the scanner depending on the sort clause)
					if q3, err := ast.Parse(e.schema.People, text); err == nil {
						_, _, _ = e.schema.People.QueryWithCursorC(tx, func(tx *bbolt.Tx, forward bool) ast.SetCursor {
							set := ast.NewTreeSet(forward)
							for _, p := range e.data[di].People {
								set.Add([]byte(p.ID))
							}
							set.Add([]byte("zz-not-stored"))
							return set.ToCursor()
						}, q3)
					}
				}
				return nil
			})
		}); err != nil {
			return parsed, typing, fmt.Errorf("%q: %v", text, err)
		}
		if qm != nil {
			if err := guarded(fmt.Sprintf("EvalBool over in-memory dataset %d", di), func() {
				for _, p := range e.data[di].People {
					qm.EvalBool(kit.NewMemSymbols(e.data[di], "people", p.ID, true))
				}
			}); err != nil {
				return parsed, typing, fmt.Errorf("%q: %v", text, err)
			}
		}
	}
	if q != nil {
		if err := guarded("ValidateSymbolsArePublic", func() { _ = boltz.ValidateSymbolsArePublic(q, e.schema.People) }); err != nil {
			return parsed, typing, fmt.Errorf("%q: %v", text, err)
		}
	}
	// 4. object store; before that the predicate and the sort fields of the parsed query are put on a query parsed
	// from the empty filter (an application narrowing "everything"), and the empty filter is evaluated afterwards
	if q != nil {
		if err := guarded("empty filter after another empty-filter query was given a predicate", func() {
			if e0, err := ast.Parse(e.schema.People, ""); err == nil {
				e0.SetPredicate(q.GetPredicate())
				_ = e0.AdoptSortFields(q)
				e0.SetSkip(1)
			}
			_, _, _ = e.ostore.QueryEntities("")
			_ = e.dbs[2].DB.View(func(tx *bbolt.Tx) error {
				_, _, _ = e.schema.People.QueryIds(tx, "")
				return nil
			})
		}); err != nil {
			return parsed, typing, fmt.Errorf("%q: %v", text, err)
		}
	}
	if err := guarded("ObjectStore.QueryEntities", func() { _, _, _ = e.ostore.QueryEntities(text) }); err != nil {
		return parsed, typing, fmt.Errorf("%q: %v", text, err)
	}
	if err := guarded("ObjectStore.QueryEntities (objects iterated in another order)", func() { _, _, _ = e.ostore2.QueryEntities(text) }); err != nil {
		return parsed, typing, fmt.Errorf("%q: %v", text, err)
	}
	return parsed, typing, nil
}

// c10ConcurrentTexts are parsed alone first and then from many goroutines at once: every text is accepted or
// rejected as before and yields the same typed query (compared through its String rendering).
var c10ConcurrentTexts = []string{`sa = "a" and ia > 1 sort by sa limit 13`, `sb != "b" or fa <= 2.5 skip 2 limit 11`, `anyOf(roles) in ["a", "b"] sort by ia desc`,
	`count(places) > 1 and not (ba)`, `tags.k = 3 limit 7`, `isEmpty(peers) or boss.sa contains "o"`, `ia between 1 and 10 and sa != null`,
	`sa = `, `limit limit`, `(sa = "x"`, `ta > datetime(2020-01-01T00:00:00Z) skip 1`, `not isEmpty(from places where name = "Hotel") limit none`}

func runC10Concurrent() error {
	e := c10Environment()
	type outcome struct {
		ok  bool
		str string
	}
	parse := func(text string) (o outcome) {
		defer func() {
			if p := recover(); p != nil {
				o = outcome{false, fmt.Sprintf("panic: %v", p)}
			}
		}()
		q, err := ast.Parse(e.schema.People, text)
		if err != nil {
			return outcome{false, "rejected"}
		}
		lim, skip := "-", "-"
		if l := q.GetLimit(); l != nil {
			lim = fmt.Sprint(*l)
		}
		if s := q.GetSkip(); s != nil {
			skip = fmt.Sprint(*s)
		}
		var sorts []string
		for _, f := range q.GetSortFields() {
			sorts = append(sorts, fmt.Sprintf("%s:%v", f.Symbol(), f.IsAscending()))
		}
		return outcome{true, fmt.Sprintf("%v | sort %v | skip %s | limit %s", q, sorts, skip, lim)}
	}
	alone := make([]outcome, len(c10ConcurrentTexts))
	for i, text := range c10ConcurrentTexts {
		alone[i] = parse(text)
	}
	var wg sync.WaitGroup
	var firstErr atomic.Value
	for g := 0; g < 12; g++ {
		wg.Add(1)
		go func(g int) {
			defer wg.Done()
			for round := 0; round < 60 && firstErr.Load() == nil; round++ {
				i := (g*5 + round) % len(c10ConcurrentTexts)
				if got := parse(c10ConcurrentTexts[i]); got != alone[i] {
					firstErr.CompareAndSwap(nil, fmt.Errorf("%q parsed beside other requests: %+v; parsed alone: %+v", c10ConcurrentTexts[i], got, alone[i]))
				}
			}
		}(g)
	}
	wg.Wait()
	if err := firstErr.Load(); err != nil {
		return err.(error)
	}
	return nil
}

func runC10(c c10Case) kit.Result {
	res := kit.Result{Classes: []string{"kind:" + c.Kind}}
	if c.Kind == "concurrent-parse" {
		res.NonTrivial = true
		res.Err = runC10Concurrent()
		return res
	}
	parsed, typing, viol := totalityOracleOpt(c.Text, c.Kind != "tokens")
	if viol != nil {
		res.Err = viol
		return res
	}
	if parsed {
		res.Classes = append(res.Classes, "parsed-and-evaluated")
	} else if typing {
		res.Classes = append(res.Classes, "rejected-by-typing")
	} else {
		res.Classes = append(res.Classes, "rejected-by-syntax")
	}
	res.NonTrivial = typing || c.Kind == "foreign" || c.Kind == "digit-in-identifier"
	if c.Kind == "digit-in-identifier" && parsed {
		// rejection oracle, independent of the parser: the grammar's identifiers consist of letters, '_' (and '-' after
		// the first dot); a digit glued to one makes two tokens that no rule allows next to each other
		res.Err = fmt.Errorf("a text in which a digit directly follows an identifier was accepted: %q", c.Text)
	}
	if c.Kind == "foreign" {
		// rejection oracle, independent of the parser: Text contains, outside any string literal, a character that
		// occurs in no lexer rule, so it is not a sentence of the grammar
		if parsed {
			e := c10Environment()
			q1, _ := ast.Parse(e.schema.People, c.Text)
			q2, err2 := ast.Parse(e.schema.People, c.Base)
			same := ""
			if err2 == nil && q1 != nil && q2 != nil && q1.String() == q2.String() {
				same = fmt.Sprintf(" (it was silently read as the base query %q: both print as %q)", c.Base, q1.String())
			}
			res.Err = fmt.Errorf("text with a character the lexer does not recognise was accepted: %q%s", c.Text, same)
		}
	}
	return res
}

// ---- generators ----

var c10Symbols = []string{"id", "sa", "sb", "ia", "ib", "fa", "ba", "ta", "boss", "home", "roles", "nums", "places", "peers", "tags", "tags.k", "tags.n", "tags.zz",
	"boss.sa", "boss.ia", "boss.roles", "places.name", "places.n", "home.name", "boss.tags.k", "zz", "boss.zz", "roles.x", "places.people.sa", "'sa'", "sa.b-c",
	// function symbols: fx answers with a string for some rows and with nothing for the others, bx with a bool
	"fx", "bx", "boss.fx", "peers.fx"}

var c10Datetimes = []string{"datetime(2020-01-01T00:00:00Z)", "datetime(2016-12-31T23:59:60Z)", "datetime(2020-01-01t00:00:00z)", "datetime( 2020-02-29T12:00:00.123456789+23:59 )",
	"datetime(99999-01-01T00:00:00Z)", "datetime(0-01-01T00:00:00-00:00)", "datetime(2021-02-30T00:00:00Z)", "datetime(2020-01-01T00:00:00.5-05:00)"}
var c10Numbers = []string{"0", "1", "-1", "3", "2.5", "-0.5", "1e3", "1E-3", "1e400", "-1e400", "99999999999999999999", "9223372036854775807", "-9223372036854775808", "9223372036854775808", "9223372036854775806", "4611686018427387904", "-9223372036854775807", "0.0000000000000000000001", "-0"}
var c10Strings = []string{`""`, `"a"`, `"Bob"`, `"3"`, `"x y"`, `"\\"`, `"\""`, `"é"`, `"\n"`, `"café \"du monde\""`, `"\\☃\t😀"`}

func c10Literal(t *rapid.T, l string, kinds []string) string {
	switch pickS(t, l+"_lk", kinds) {
	case "s":
		return pickS(t, l+"_s", c10Strings)
	case "n":
		return pickS(t, l+"_n", c10Numbers)
	case "t":
		return pickS(t, l+"_t", c10Datetimes)
	case "b":
		return pickS(t, l+"_b", []string{"true", "false", "TRUE", "False"})
	case "null":
		return pickS(t, l+"_nl", []string{"null", "NULL"})
	}
	return "1"
}

func pickS(t *rapid.T, l string, xs []string) string {
	return xs[rapid.IntRange(0, len(xs)-1).Draw(t, l)]
}

func c10Array(t *rapid.T, l string) string {
	kind := pickS(t, l+"_ak", []string{"s", "n", "t", "mixed"})
	n := rapid.IntRange(1, 3).Draw(t, l+"_an")
	var parts []string
	for i := 0; i < n; i++ {
		k := kind
		if kind == "mixed" {
			k = pickS(t, fmt.Sprintf("%s_am%d", l, i), []string{"s", "n", "t"})
		}
		parts = append(parts, c10Literal(t, fmt.Sprintf("%s_a%d", l, i), []string{k}))
	}
	return "[" + strings.Join(parts, ", ") + "]"
}

// c10Words produces a sentence as a list of words (joined by single blanks), operand types chosen independently of the symbol types
func c10Words(t *rapid.T, l string, depth int) []string {
	return c10WordsOver(t, l, depth, c10Symbols)
}

// symbols of the places store, for the predicate of a sub-query that ranges over places (set symbols in scalar
// positions, dotted paths back into people, unknown names included)
var c10PlaceSymbols = []string{"id", "name", "n", "businesses", "people", "people.sa", "people.ia", "people.roles", "people.boss.sa", "people.tags.k", "people.places.name", "zz", "name.x"}

// c10SubQuery renders "from <entity set> where <predicate over that entity type's symbols> <tail>"
func c10SubQuery(t *rapid.T, l string, depth int, sym string) string {
	inner := c10Symbols
	switch rapid.IntRange(0, 4).Draw(t, l+"_from") {
	case 0, 1:
		sym, inner = "places", c10PlaceSymbols
	case 2:
		sym = "peers"
	case 3:
		sym, inner = "boss.places", c10PlaceSymbols
	}
	return "from " + sym + " where " + strings.Join(append(c10WordsOver(t, l+"sq", depth-1, inner), c10TailOver(t, l+"sqt", inner)...), " ")
}

func c10WordsOver(t *rapid.T, l string, depth int, symbols []string) []string {
	if depth > 0 && rapid.IntRange(0, 2).Draw(t, l+"_conn") == 0 {
		switch rapid.IntRange(0, 3).Draw(t, l+"_ck") {
		case 0:
			return append(append(c10WordsOver(t, l+"l", depth-1, symbols), "and"), c10WordsOver(t, l+"r", depth-1, symbols)...)
		case 1:
			return append(append(c10WordsOver(t, l+"l", depth-1, symbols), "or"), c10WordsOver(t, l+"r", depth-1, symbols)...)
		case 2:
			return append(append([]string{"not", "("}, c10WordsOver(t, l+"n", depth-1, symbols)...), ")")
		default:
			return append(append([]string{"("}, c10WordsOver(t, l+"p", depth-1, symbols)...), ")")
		}
	}
	sym := pickS(t, l+"_sym", symbols)
	var lhs string
	switch rapid.IntRange(0, 9).Draw(t, l+"_lhs") {
	case 0, 1, 2, 3, 4:
		lhs = sym
	case 5:
		lhs = "anyOf(" + sym + ")"
	case 6:
		lhs = "allOf(" + sym + ")"
	case 7:
		lhs = "count(" + sym + ")"
		if depth > 0 && rapid.Bool().Draw(t, l+"_sq7") {
			lhs = "count(" + c10SubQuery(t, l, depth, sym) + ")"
		}
	case 8:
		if depth > 0 {
			lhs = "count(" + c10SubQuery(t, l, depth, sym) + ")"
		} else {
			lhs = "count(" + sym + ")"
		}
	case 9:
		// boolean-valued forms
		switch rapid.IntRange(0, 3).Draw(t, l+"_bf") {
		case 0:
			return []string{"isEmpty(" + sym + ")"}
		case 1:
			if depth > 0 {
				return []string{"isEmpty(" + c10SubQuery(t, l, depth, sym) + ")"}
			}
			return []string{sym}
		case 2:
			return []string{sym}
		default:
			return []string{pickS(t, l+"_bc", []string{"true", "false"})}
		}
	}
	switch rapid.IntRange(0, 7).Draw(t, l+"_op") {
	case 7:
		return []string{lhs, pickS(t, l+"_eqn", []string{"=", "!="}), pickS(t, l+"_nul", []string{"null", "NULL", "true", "false"})}
	case 0:
		return []string{lhs, pickS(t, l+"_eq", []string{"=", "!="}), c10Literal(t, l, []string{"s", "n", "t", "b", "null"})}
	case 1:
		return []string{lhs, pickS(t, l+"_lt", []string{"<", "<=", ">", ">="}), c10Literal(t, l, []string{"s", "n", "t"})}
	case 2:
		return []string{lhs, pickS(t, l+"_in", []string{"in", "not in", "NOT\tIN"}), c10Array(t, l)}
	case 3:
		k := pickS(t, l+"_bk", []string{"n", "t"})
		return []string{lhs, pickS(t, l+"_bt", []string{"between", "not between"}), c10Literal(t, l+"lo", []string{k}), "and", c10Literal(t, l+"hi", []string{k})}
	case 4:
		return []string{lhs, pickS(t, l+"_ct", []string{"contains", "not contains"}), c10Literal(t, l, []string{"s", "n"})}
	case 5:
		return []string{lhs, pickS(t, l+"_ict", []string{"icontains", "not icontains", "iContains"}), c10Literal(t, l, []string{"s"})}
	default:
		return []string{lhs, "=", c10Literal(t, l, []string{"s", "n", "t", "b", "null"})}
	}
}

func c10Tail(t *rapid.T, l string) []string { return c10TailOver(t, l, c10Symbols) }

func c10TailOver(t *rapid.T, l string, symbols []string) []string {
	var out []string
	if rapid.IntRange(0, 3).Draw(t, l+"_sort") == 0 {
		out = append(out, "sort", "by")
		n := rapid.IntRange(1, 6).Draw(t, l+"_ns")
		for i := 0; i < n; i++ {
			w := pickS(t, fmt.Sprintf("%s_ss%d", l, i), symbols)
			if i > 0 {
				out = append(out, ",")
			}
			out = append(out, w)
			if d := pickS(t, fmt.Sprintf("%s_sd%d", l, i), []string{"", "asc", "desc", "DESC"}); d != "" {
				out = append(out, d)
			}
		}
	}
	if rapid.IntRange(0, 3).Draw(t, l+"_skip") == 0 {
		out = append(out, "skip", pickS(t, l+"_skn", c10Numbers))
	}
	if rapid.IntRange(0, 3).Draw(t, l+"_limit") == 0 {
		out = append(out, "limit", pickS(t, l+"_lmn", append([]string{"none", "NONE"}, c10Numbers...)))
	}
	return out
}

var c10Foreign = []string{"~", "#", "$", "%", "^", "&", "*", "{", "}", "|", ";", "?", "@", "`", ":", "+", "/", "\\", "\x00", "\x01", "\v", "\f", "\x7f", "é", "☃", "\u00a0", "\u2028"}

func genC10(t *rapid.T) c10Case {
	switch rapid.IntRange(0, 9).Draw(t, "kind") {
	case 0, 1, 2:
		words := append(c10Words(t, "w", rapid.IntRange(0, 3).Draw(t, "depth")), c10Tail(t, "tail")...)
		return c10Case{Kind: "sentence", Text: strings.Join(words, " ")}
	case 3, 4, 5:
		words := append(c10Words(t, "w", rapid.IntRange(0, 2).Draw(t, "depth")), c10Tail(t, "tail")...)
		other := c10Words(t, "o", 1)
		nm := rapid.IntRange(1, 3).Draw(t, "nMut")
		for i := 0; i < nm && len(words) > 0; i++ {
			l := fmt.Sprintf("m%d", i)
			pos := rapid.IntRange(0, len(words)-1).Draw(t, l+"_pos")
			switch rapid.IntRange(0, 3).Draw(t, l+"_kind") {
			case 0:
				words = append(words[:pos:pos], words[pos+1:]...)
			case 1:
				words = append(words[:pos+1:pos+1], words[pos:]...)
			case 2:
				p2 := rapid.IntRange(0, len(words)-1).Draw(t, l+"_p2")
				words[pos], words[p2] = words[p2], words[pos]
			case 3:
				w := other[rapid.IntRange(0, len(other)-1).Draw(t, l+"_w")]
				words = append(words[:pos:pos], append([]string{w}, words[pos:]...)...)
			}
		}
		return c10Case{Kind: "mutant", Text: strings.Join(words, pickS(t, "sep", []string{" ", " ", "", "  ", "\n"}))}
	case 6, 7:
		// foreign character inserted at a token boundary of a valid, well-typed sentence
		e := kit.GenExpr(t, "f", "people", rapid.IntRange(0, 2).Draw(t, "depth"), &kit.GenOpts{})
		q := kit.QuerySpec{Kind: "people", Pred: e}
		if rapid.Bool().Draw(t, "tail") {
			q.Sort = genSort(t, "fs", c02SortSyms, 2)
			q.Page = genPaging(t, "fp", 4)
		}
		items := q.Items()
		pos := rapid.IntRange(0, len(items)).Draw(t, "pos")
		ch := pickS(t, "foreign", c10Foreign)
		withForeign := append(append(append([]kit.Item{}, items[:pos]...), kit.Item{Text: ch, Kind: 'p'}), items[pos:]...)
		return c10Case{Kind: "foreign", Base: kit.Spell(items, kit.SpellChoice{}), Text: kit.Spell(withForeign, kit.SpellChoice{})}
	default:
		if rapid.Bool().Draw(t, "ascii") {
			return c10Case{Kind: "bytes", Text: rapid.StringOfN(rapid.RuneFrom([]rune(" ()[]\"\\=!<>,.-_'abcdinortsy0123456789\n\t")), 0, 40, -1).Draw(t, "text")}
		}
		return c10Case{Kind: "bytes", Text: rapid.String().Draw(t, "text")}
	}
}

var c10Alphabet = []string{"sa", "ia", "ba", "roles", "tags.k", "boss.sa", "zz", "=", "!=", "<", ">=", "in", "not in", "between", "contains", "not icontains",
	"and", "or", "not", "(", ")", "[1]", `["a"]`, `"a"`, "1", "2.5", "true", "null", "datetime(2020-01-01T00:00:00Z)", "anyOf(roles)", "allOf(nums)", "count(places.name)",
	"isEmpty(roles)", "sort by", "sa desc", "skip", "limit", "none", "from", "where", ","}

func exhaustiveC10(maxLen int) func(yield func(c c10Case) bool) {
	return func(yield func(c c10Case) bool) {
		var rec func(prefix []string, left int) bool
		rec = func(prefix []string, left int) bool {
			if len(prefix) > 0 {
				if !yield(c10Case{Kind: "tokens", Text: strings.Join(prefix, " ")}) {
					return false
				}
			}
			if left == 0 {
				return true
			}
			for _, w := range c10Alphabet {
				if !rec(append(prefix[:len(prefix):len(prefix)], w), left-1) {
					return false
				}
			}
			return true
		}
		if !rec(nil, maxLen) {
			return
		}
		// parsing from several goroutines at once (the parser keeps pooled lexers and parsers)
		for i := 0; i < 5; i++ {
			if !yield(c10Case{Kind: "concurrent-parse", Text: fmt.Sprintf("round %d", i)}) {
				return
			}
		}
		// filters that mention many distinct symbols (nested in parentheses, which keeps the parser fast) before or
		// after a set function, a dotted path or a sub-query
		for _, n := range []int{33, 40, 70} {
			for _, tail := range []string{`anyOf(places.name) = "a"`, `count(places.people.sa) > 0`, `isEmpty(roles)`, `boss.sa = "a"`,
				`not isEmpty(from places where name = "x")`, `allOf(peers.roles) != "a"`} {
				var b strings.Builder
				for i := 0; i < n; i++ {
					fmt.Fprintf(&b, "(tags.k%c%c = %d or ", 'a'+i/26, 'a'+i%26, i)
				}
				text := b.String() + tail + strings.Repeat(")", n)
				if !yield(c10Case{Kind: "many-symbols", Text: text}) {
					return
				}
				if !yield(c10Case{Kind: "many-symbols", Text: tail + " and " + b.String() + "false" + strings.Repeat(")", n)}) {
					return
				}
			}
		}
		// a digit glued to an identifier (the grammar has no digits in identifiers): never a sentence
		for _, text := range []string{`tags.k2 = "a"`, `tags.row2 = 7`, `sa2 = "a"`, `boss.sa1 != "x"`, `true sort by tags.k2`, `true sort by sa, ia2 desc`, `tags.u-1 = 7`,
			`anyOf(roles2) = "a"`, `count(places9) > 1`, `isEmpty(from peers2 where true)`, `not (tags.zz0 = null)`, `sa = "a" and tags.n1 > 3`} {
			if !yield(c10Case{Kind: "digit-in-identifier", Text: text}) {
				return
			}
		}
		// every sortable symbol on its own, in both directions, over rows where it is null and rows where it is not
		for _, pred := range []string{"true", "sa != null", "not (fa = null)"} {
			for _, sym := range []string{"id", "sa", "sb", "ia", "ib", "fa", "ba", "ta", "boss", "home", "fx", "bx", "tags.k", "boss.fa", "roles"} {
				for _, dir := range []string{"", " desc"} {
					for _, page := range []string{"", " skip 1 limit 2", " limit 9223372036854775806", " skip 9223372036854775806"} {
						if !yield(c10Case{Kind: "paging", Text: pred + " sort by " + sym + dir + page}) {
							return
						}
					}
				}
			}
		}
		// paging matrix: every predicate x sort x skip x limit boundary combination is evaluated over every dataset
		for _, pred := range []string{"true", "false", `sa = "a"`, "ia > 1", "sa = null", "isEmpty(roles)", `anyOf(roles) = "a"`} {
			for _, srt := range []string{"", "sort by sa", "sort by sa desc", "sort by ia, sa desc", "sort by ba, fa, ta", "sort by id desc",
				"sort by sa, sb, ia, ib, fa, ba", "sort by sb desc, sa, ia, ib desc, fa, ba, ta, id", "sort by id, sa, sb, ia, ib, fa, ba"} {
				for _, skip := range []string{"", "skip 0", "skip 1", "skip -1", "skip 100", "skip 9223372036854775807"} {
					for _, limit := range []string{"", "limit none", "limit 0", "limit 1", "limit -1", "limit 9223372036854775807"} {
						text := strings.Join(strings.Fields(pred+" "+srt+" "+skip+" "+limit), " ")
						if !yield(c10Case{Kind: "paging", Text: text}) {
							return
						}
					}
				}
			}
		}
	}
}

func TestC10(t *testing.T) {
	defer c10Cleanup()
	kit.Execute(t, kit.Spec[c10Case]{
		ID:    "C10",
		Level: "exploration",
		Rule: "Four generators (class 'kind:*'): grammar sentences whose operand types are chosen independently of the symbol types (every lhs form x operator x literal kind, set functions on non-set symbols, unknown/dotted/map symbols, huge/fractional/exponent numbers in skip/limit, leap-second and odd-offset datetimes); token-level mutants of them (delete, duplicate, swap, splice, varying separators); bounded-exhaustive strings of <= 3 (quick) / <= 4 (thorough) tokens over a 41-token alphabet; random rune strings; plus 'foreign' cases = a well-typed sentence with one character that occurs in no lexer rule inserted at a token boundary. " +
			"Oracle: no panic in ast.Parse (bolt and in-memory symbol types), exactly one of (query, error), no panic evaluating any parsed query via QueryIds / IterateIds / in-memory EvalBool over an empty store, all-null rows and a rich dataset, nor in ValidateSymbolsArePublic and ObjectStore.QueryEntities; a 'foreign' text must be rejected. " +
			"Also generated: sub-query predicates and tails over the sub-query's own symbol table, a paging matrix with sort lists of up to 8 fields, evaluation through a caller-supplied tree-set cursor. Also: filters with 33-70 distinct symbols around set functions / dotted paths / sub-queries, int32 map elements, a fixed set of texts parsed from twelve goroutines at once. " +
			"Non-trivial: the input got past the syntax stage (accepted, or rejected by typing) or is a foreign-character injection. Distinct by hash of the case JSON.",
		Assumptions: []string{"termination is only observed as 'finished within the test deadline' (exit 2 otherwise, not a verdict)"},
		Gen:         genC10, Run: runC10,
		QuickChecks: 6000, ThoroughFactor: 15,
		ExhaustiveQuick: exhaustiveC10(3),
		Exhaustive:      exhaustiveC10(4),
	})
}

var c10TestFilter = regexp.MustCompile("`([^`\n]{3,120})`|\"((?:[^\"\\\\\n]|\\\\.){3,120})\"")

// FuzzC10Parse is the native coverage-guided target (thorough tier): raw strings through the totality oracle.
func FuzzC10Parse(f *testing.F) {
	f.Cleanup(c10Cleanup)
	for _, s := range c10Alphabet {
		f.Add(s)
	}
	for _, s := range []string{`sa = "a" and ia > 1`, `anyOf(roles) in ["a", "b"] sort by sa desc skip 1 limit none`, `count(from places where name = "x") > 1`,
		`tags.k between 1 and 2`, `ta between datetime(2020-01-01T00:00:00Z) and datetime(2021-01-01T00:00:00Z)`, `not (isEmpty(roles)) or ba`, `sa icontains "B"`, `limit 1e400`, `skip 99999999999999999999`} {
		f.Add(s)
	}
	// the repository's own test filters are good seeds
	for _, p := range []string{"ast/bolt_listener_test.go", "boltz/query_test.go", "objectz/object_store_query_test.go"} {
		if b, err := os.ReadFile(filepath.Join("/repo", p)); err == nil {
			for _, m := range c10TestFilter.FindAllStringSubmatch(string(b), 400) {
				if m[1] != "" {
					f.Add(m[1])
				} else {
					f.Add(m[2])
				}
			}
		}
	}
	f.Fuzz(func(t *testing.T, s string) {
		// ANTLR's adaptive prediction is exponential in the length of a mixed and/or chain for this grammar
		// (measured: 27 ms for 9 operands, x2.5 per additional pair); long chains only stall the fuzzer
		if len(s) > 160 || strings.Count(strings.ToLower(s), "and")+strings.Count(strings.ToLower(s), "or") > 8 {
			return
		}
		if _, _, viol := totalityOracle(s); viol != nil {
			t.Fatalf("%v", viol)
		}
	})
}
