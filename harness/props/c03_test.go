package props

import (
	"fmt"
	"sort"
	"testing"

	"github.com/openziti/foundation/v2/errorz"
	"github.com/openziti/storage/boltz"
	"pgregory.net/rapid"

	"verif/kit"
)

// C03 — unique and set indexes mirror entity state; uniqueness is enforced.

var c03Cfg = kit.WorldCfg{Stores: []kit.StoreCfg{{Name: "things", UniqueName: true, UniqueAlias: true, RolesIndex: true}}}

var c03Universe = kit.EntUniverse{
	IDs:     []string{"e1", "e2", "e3", "e4", "e5"},
	Names:   []string{"a", "b", "c", "d", "e", "a", ""},
	Aliases: []*string{nil, kit.Sp("x"), kit.Sp("y"), kit.Sp(""), nil, kit.Sp("x")},
	Roles:   []string{"r1", "r2", "R1", "a", "ab", "b", "bc", "c"}, // two of them differ only in letter case
	Notes:   []string{"", "n1", "n2"},
	Fields:  []string{kit.FName, kit.FAlias, kit.FRoles, kit.FNote},
	Hostile: true,
}

func genC03(t *rapid.T) kit.History {
	// configurations: base path depth 1-4, symbols registered under their own name or with a different persisted key
	cfg := kit.WorldCfg{Stores: []kit.StoreCfg{c03Cfg.Stores[0]}}
	cfg.BasePath = [][]string{nil, {"root", "a"}, {"root", "a", "b"}, {"root", "a", "b", "c"}}[rapid.IntRange(0, 3).Draw(t, "basePathDepth")]
	cfg.Stores[0].Keyed = rapid.IntRange(0, 2).Draw(t, "keyed") == 0
	u := c03Universe
	if rapid.Bool().Draw(t, "uniqueSerial") {
		// a unique index over an int64 field: index keys are not strings
		cfg.Stores[0].UniqueSerial = true
		u.Serials = []int64{0, 1, 2, 7, 1001, -1, 1 << 40}
		u.Fields = append(append([]string{}, u.Fields...), kit.FSerial)
	}
	withKids := rapid.IntRange(0, 2).Draw(t, "children") == 0
	if withKids {
		// two child types over the store: an extended one registered first, then a plain one that has an index of its own
		cfg.Children = []kit.ChildCfg{{Name: "kx", Parent: "things", Extended: true}, {Name: "ky", Parent: "things", UniqueExtra: true}}
		u.Extras = []string{"", "x1", "x2", "x3"}
		u.Fields = append(append([]string{}, u.Fields...), kit.FExtra)
	}
	h := genC03History(t, cfg, u, withKids)
	if rapid.IntRange(0, 3).Draw(t, "successorSwap") == 0 {
		// one transaction: a successor that takes over a role held by exactly one entity is created, then the old
		// holder is deleted; the role stays indexed for the successor
		m := replayModel(h)
		for _, old := range sortedIDs(m.Ents["things"]) {
			e := m.Ents["things"][old]
			if len(e.Roles) == 0 {
				continue
			}
			role := e.Roles[0]
			holders := 0
			for _, o := range m.Ents["things"] {
				for _, r := range o.Roles {
					if r == role {
						holders++
					}
				}
			}
			if _, taken := m.Ents["things"]["successor"]; holders != 1 || taken {
				continue
			}
			h.Txs = append(h.Txs, kit.TxSpec{System: true, Ops: []kit.Op{
				{Kind: "create", Store: "things", ID: "successor", Spec: &kit.EntSpec{Name: "successor-name", Roles: []string{role}, Serial: 424242}},
				{Kind: "delete", Store: "things", ID: old}}})
			break
		}
	}
	return h
}

func genC03History(t *rapid.T, cfg kit.WorldCfg, u kit.EntUniverse, withKids bool) kit.History {
	return kit.GenHistory(t, cfg, 25, 4, true, 60, func(t *rapid.T, l string, m *kit.Model) kit.Op {
		store := "things"
		if withKids {
			store = []string{"things", "things", "things", "ky", "ky", "kx"}[rapid.IntRange(0, 5).Draw(t, l+"_via")]
		}
		op := kit.GenEntOpM(t, l, store, u, m)
		// set values whose concatenation is ambiguous: {a,bc} and {ab,c} have the same size and the same joined bytes
		if op.Spec != nil && rapid.IntRange(0, 5).Draw(t, l+"_regroup") == 0 {
			op.Spec.Roles = []string{"a", "bc"}
			if e, ok := m.Ents["things"][op.ID]; ok && fmt.Sprint(e.Roles) == "[a bc]" {
				op.Spec.Roles = []string{"ab", "c"}
			}
			if op.Kind == "patch" {
				op.Fields = append(op.Fields, kit.FRoles)
			}
		}
		return op
	})
}

// historyFeatures computes the non-triviality features of an index history from the model's point of view.
type c03Features struct {
	valueReuse, patchSkipsIndexed bool
}

func runC03(h kit.History) kit.Result {
	res := kit.Result{}
	feat := c03Features{}
	// holders ever seen per value, to detect reuse after delete / hand-over between entities
	everHeld := map[string]map[string]bool{}
	note := func(val, id string) {
		if val == "" {
			return
		}
		if everHeld[val] == nil {
			everHeld[val] = map[string]bool{}
		}
		for other := range everHeld[val] {
			if other != id {
				feat.valueReuse = true
			}
		}
		everHeld[val][id] = true
	}
	// a change listener on the set index: told, inside the transaction, about every change of an entity's role set
	type roleChange struct {
		id       string
		old, new []string
	}
	var changes []roleChange
	var prev *kit.Model
	vals := func(xs []boltz.FieldTypeAndValue) []string {
		out := []string{}
		for _, x := range xs {
			out = append(out, string(x.Value))
		}
		sort.Strings(out)
		return out
	}
	rolesOf := func(m *kit.Model, id string) []string {
		out := []string{}
		if m != nil {
			if e, ok := m.Ents["things"][id]; ok {
				out = append(out, e.Roles...)
			}
		}
		sort.Strings(out)
		return out
	}
	st, err := kit.RunHistorySetup(h, func(w *kit.World) {
		w.SetIdx["things."+kit.FRoles].AddListener(func(_ boltz.MutateContext, rowId []byte, old []boltz.FieldTypeAndValue, new []boltz.FieldTypeAndValue, _ errorz.ErrorHolder) {
			changes = append(changes, roleChange{string(rowId), vals(old), vals(new)})
		})
	}, func(w *kit.World, m *kit.Model, i int, tx kit.TxSpec, out kit.TxOutcome) error {
		seen := changes
		changes = nil
		before := prev
		prev = m.Clone()
		if out.Committed && !tx.Batch {
			// per entity the reported changes chain from the role set before the transaction to the one after it
			// (a delete is not reported; Db.Batch may run the function twice)
			chain := map[string][]roleChange{}
			for _, ch := range seen {
				chain[ch.id] = append(chain[ch.id], ch)
			}
			ids := map[string]bool{}
			for id := range chain {
				ids[id] = true
			}
			for id := range m.Ents["things"] {
				ids[id] = true
			}
			for id := range ids {
				was, is := rolesOf(before, id), rolesOf(m, id)
				_, existsNow := m.Ents["things"][id]
				evs := chain[id]
				// a delete is not reported (and a re-creation with no roles neither): the chain of an entity that was
				// deleted somewhere in this transaction is only checked for reports of non-changes
				deleted := false
				for _, op := range tx.Ops {
					if op.ID == id && (op.Kind == "delete" || op.Kind == "deletewhere") || op.Kind == "deletewhere" {
						deleted = true
					}
				}
				if len(evs) == 0 {
					if existsNow && !deleted && fmt.Sprint(was) != fmt.Sprint(is) {
						return fmt.Errorf("the role set of %s went from %q to %q and the set index's change listener was not told", id, was, is)
					}
					continue
				}
				for k := 0; k+1 < len(evs) && !deleted; k++ {
					if fmt.Sprint(evs[k].new) != fmt.Sprint(evs[k+1].old) {
						return fmt.Errorf("set index change listener, entity %s: one report ends with %q, the next starts from %q", id, evs[k].new, evs[k+1].old)
					}
				}
				if existsNow && !deleted && fmt.Sprint(evs[0].old) != fmt.Sprint(was) {
					return fmt.Errorf("set index change listener, entity %s: the first report starts from %q, the roles were %q", id, evs[0].old, was)
				}
				if existsNow && !deleted && fmt.Sprint(evs[len(evs)-1].new) != fmt.Sprint(is) {
					return fmt.Errorf("set index change listener, entity %s: the last report says the roles are now %q, they are %q", id, evs[len(evs)-1].new, is)
				}
				for _, ev := range evs {
					if fmt.Sprint(ev.old) == fmt.Sprint(ev.new) {
						return fmt.Errorf("set index change listener, entity %s: told about a change from %q to %q", id, ev.old, ev.new)
					}
				}
			}
		}
		if i%3 == 2 {
			// index look-ups made inside a writing transaction (values held and values nobody holds) find what the
			// model says and leave the indexes as they are
			var lookupErr error
			if err := w.Z.Db.Update(nil, func(ctx boltz.MutateContext) error {
				for _, v := range []string{"r1", "r2", "r-nobody", "zz-nobody", "a"} {
					holders := map[string]bool{}
					for id, e := range m.Ents["things"] {
						for _, r := range e.Roles {
							if r == v {
								holders[id] = true
							}
						}
					}
					var got []string
					w.SetIdx["things."+kit.FRoles].Read(ctx.Tx(), []byte(v), func(val []byte) { got = append(got, string(val)) })
					n := 0
					for cur := w.SetIdx["things."+kit.FRoles].OpenValueCursor(ctx.Tx(), []byte(v), true); cur.IsValid(); cur.Next() {
						n++
					}
					if len(got) != len(holders) || n != len(holders) {
						lookupErr = fmt.Errorf("inside a writing transaction the set index lists %q (cursor: %d elements) for role %q, the model has %d holders", got, n, v, len(holders))
					}
				}
				// the entities that hold all of several roles, asked for in an order that is not the sorted one
				for _, want3 := range [][]string{{"r2", "r1", "R1"}, {"c", "ab", "a"}, {"r2", "r1"}, {"bc", "a", "R1"}} {
					var holders []string
					for id, e := range m.Ents["things"] {
						all := true
						for _, v := range want3 {
							has := false
							for _, r := range e.Roles {
								if r == v {
									has = true
								}
							}
							all = all && has
						}
						if all {
							holders = append(holders, id)
						}
					}
					sort.Strings(holders)
					got := w.Stores["things"].FindMatching(ctx.Tx(), w.SetIdx["things."+kit.FRoles], want3)
					sort.Strings(got)
					if fmt.Sprint(got) != fmt.Sprint(holders) && !(len(got) == 0 && len(holders) == 0) {
						lookupErr = fmt.Errorf("FindMatching(%q) = %q, the model's holders of all of them are %q", want3, got, holders)
					}
				}
				if id := w.Unique["things."+kit.FName].Read(ctx.Tx(), []byte("name-nobody-has")); id != nil {
					lookupErr = fmt.Errorf("inside a writing transaction the unique index maps a name nobody has to %q", id)
				}
				return nil
			}); err != nil {
				return fmt.Errorf("a writing transaction that only reads the indexes failed: %v", err)
			}
			if lookupErr != nil {
				return lookupErr
			}
			if err := w.CheckAll(m); err != nil {
				return fmt.Errorf("after index look-ups inside a writing transaction: %v", err)
			}
		}
		if out.Committed {
			for id, e := range m.Ents["things"] {
				note("name:"+e.Name, id)
				if e.Alias != nil {
					note("alias:"+*e.Alias, id)
				}
			}
			for _, op := range tx.Ops {
				if op.Kind == "patch" {
					sel := map[string]bool{}
					for _, f := range op.Fields {
						sel[f] = true
					}
					if e, ok := m.Ents["things"][op.ID]; ok && !sel[kit.FName] && e.Name != op.Spec.Name {
						feat.patchSkipsIndexed = true
					}
				}
			}
		}
		return nil
	})
	res.Err = err
	res.Sub = len(h.Txs)
	res.NonTrivial = st.RejectThenCommit || feat.valueReuse || feat.patchSkipsIndexed
	if st.RejectThenCommit {
		res.Classes = append(res.Classes, "reject-then-commit")
	}
	if feat.valueReuse {
		res.Classes = append(res.Classes, "value-reused-or-handed-over")
	}
	if feat.patchSkipsIndexed {
		res.Classes = append(res.Classes, "patch-skips-indexed-field")
	}
	res.Classes = append(res.Classes, fmt.Sprintf("committed:%d", bucket(st.Committed)), fmt.Sprintf("rejected:%d", bucket(st.Rejected)))
	for _, tx := range h.Txs {
		for _, op := range tx.Ops {
			res.Classes = append(res.Classes, "op:"+op.Kind)
		}
		if len(tx.Ops) > 1 {
			res.Classes = append(res.Classes, "multi-op-tx")
		}
	}
	return res
}

func bucket(n int) int {
	switch {
	case n == 0:
		return 0
	case n <= 2:
		return 2
	case n <= 5:
		return 5
	case n <= 10:
		return 10
	}
	return 99
}

func TestC03(t *testing.T) {
	kit.Execute(t, kit.Spec[kit.History]{
		ID:    "C03",
		Level: "exploration",
		Rule: "rapid draws histories of 1-25 transactions (1-4 create / full update / field-restricted update / delete operations each, some aborted by the caller, some through Db.Batch) over ids e1..e5, names {a,b,c,''}, aliases {null,x,y,''}, roles within {r1,r2,r3}, plus hostile values (empty role, 40 kB name, 33 kB alias). " +
			"A model predicts each operation's outcome (accepted, duplicate, empty value, not found, already exists, storage error); after every transaction the unique indexes on name (non-nullable) and alias (nullable) and the set index on roles are compared bucket by bucket and through ReadIndex/SetReadIndex with the model-derived state, every entity is re-read, and a failed transaction must leave the full database dump unchanged. " +
			"Also generated: base paths 1-4 segments deep, symbols registered under a key that differs from their name, a unique index over an int64 field (half of the cases), an extended child store plus a plain child store with its own unique index (a third), system contexts. " +
			"Non-trivial history: a rejected transaction followed by a committed one, or a unique value re-used after delete / handed from one entity to another, or a patch that skips the indexed name while its payload differs. Distinct by hash of the history JSON; sub_evaluations counts transactions.",
		Assumptions: []string{"'changes nothing' is asserted at transaction granularity (an error aborts the bbolt transaction; continuing inside a failed transaction is not a documented use)",
			"set indexes are over string sets (the only list type PersistContext writes); sets of other element types need hand-rolled persistence and are outside the domain"},
		Gen: genC03, Run: runC03,
		QuickChecks: 1000, ThoroughFactor: 10,
	})
}
