package kit

import (
	"fmt"
	"strings"
)

// Item is one element of a spelled-out query: a token or a whitespace slot.
// Kind: 'k' keyword / word operator (case-insensitive), 's' symbol, 'l' literal, 'p' punctuation,
// '+' whitespace run of length >= 1, '*' whitespace run of length >= 0, '1' exactly one whitespace character.
type Item struct {
	Text string `json:"t,omitempty"`
	Kind byte   `json:"k"`
}

func kw(s string) Item  { return Item{s, 'k'} }
func sy(s string) Item  { return Item{s, 's'} }
func lit(s string) Item { return Item{s, 'l'} }
func pu(s string) Item  { return Item{s, 'p'} }

var (
	wsPlus = Item{"", '+'}
	wsStar = Item{"", '*'}
	wsOne  = Item{"", '1'}
)

// WsPlus etc. are exported for skeleton renderers in the property files.
func WsPlus() Item        { return wsPlus }
func WsStar() Item        { return wsStar }
func Kw(s string) Item    { return kw(s) }
func Sym(s string) Item   { return sy(s) }
func Punct(s string) Item { return pu(s) }
func Lit(s string) Item   { return lit(s) }

func (l *LHS) subSortItems() []Item {
	if len(l.SubSort) == 0 {
		return nil
	}
	out := []Item{wsPlus, kw("sort"), wsPlus, kw("by"), wsPlus}
	for i, k := range l.SubSort {
		if i > 0 {
			out = append(out, wsStar, pu(","), wsStar)
		}
		out = append(out, sy(k.Sym))
		if k.Dir != "" {
			out = append(out, wsPlus, kw(k.Dir))
		}
	}
	return out
}

func (l *LHS) items() []Item {
	switch l.Fn {
	case "":
		return []Item{sy(l.Sym)}
	case "count":
		if l.Sub != nil {
			out := []Item{kw("count"), pu("("), wsStar, kw("from"), wsPlus, sy(l.Sym), wsPlus, kw("where"), wsPlus}
			out = append(out, l.Sub.Items()...)
			out = append(out, l.subSortItems()...)
			return append(out, wsStar, pu(")"))
		}
		return []Item{kw("count"), pu("("), wsStar, sy(l.Sym), wsStar, pu(")")}
	default:
		return []Item{kw(l.Fn), pu("("), wsStar, sy(l.Sym), wsStar, pu(")")}
	}
}

// Items spells the expression out with the whitespace slots the grammar has (ZitiQl.g4).
func (e *Expr) Items() []Item {
	switch e.Op {
	case "and", "or":
		var out []Item
		for i, k := range e.Kids {
			if i > 0 {
				out = append(out, wsPlus, kw(e.Op), wsPlus)
			}
			out = append(out, pu("("), wsStar)
			out = append(out, k.Items()...)
			out = append(out, wsStar, pu(")"))
		}
		return out
	case "not":
		out := []Item{kw("not"), wsPlus, pu("("), wsStar}
		out = append(out, e.Kids[0].Items()...)
		return append(out, wsStar, pu(")"))
	case "true", "false":
		return []Item{kw(e.Op)}
	case "boolsym":
		return []Item{sy(e.L.Sym)}
	case "cmp":
		out := e.L.items()
		c := lit(e.constText(0))
		if e.C[0].K == "b" {
			c = kw(e.constText(0))
		}
		return append(out, wsStar, pu(e.Cmp), wsStar, c)
	case "in":
		out := e.L.items()
		out = append(out, wsPlus)
		if e.Neg {
			out = append(out, kw("not"), wsOne)
		}
		out = append(out, kw("in"), wsPlus, pu("["), wsStar)
		for i := range e.C {
			if i > 0 {
				out = append(out, wsStar, pu(","), wsStar)
			}
			out = append(out, lit(e.constText(i)))
		}
		return append(out, wsStar, pu("]"))
	case "between":
		out := e.L.items()
		out = append(out, wsPlus)
		if e.Neg {
			out = append(out, kw("not"), wsPlus)
		}
		return append(out, kw("between"), wsPlus, lit(e.constText(0)), wsPlus, kw("and"), wsPlus, lit(e.constText(1)))
	case "contains":
		out := e.L.items()
		// the grammar has WS* before contains, but with zero characters the symbol and the operator fuse into one word
		sep := wsPlus
		if e.L.Fn != "" {
			sep = wsStar
		}
		out = append(out, sep)
		if e.Neg {
			out = append(out, kw("not"), wsPlus)
		}
		op := "contains"
		if e.ICase {
			op = "icontains"
		}
		return append(out, kw(op), wsPlus, lit(e.constText(0)))
	case "isnull":
		op := "="
		if e.Neg {
			op = "!="
		}
		return []Item{sy(e.L.Sym), wsStar, pu(op), wsStar, kw("null")}
	case "isempty":
		if e.L.Sub != nil {
			out := []Item{kw("isEmpty"), pu("("), wsStar, kw("from"), wsPlus, sy(e.L.Sym), wsPlus, kw("where"), wsPlus}
			out = append(out, e.L.Sub.Items()...)
			out = append(out, e.L.subSortItems()...)
			return append(out, wsStar, pu(")"))
		}
		return []Item{kw("isEmpty"), pu("("), wsStar, sy(e.L.Sym), wsStar, pu(")")}
	}
	panic("bad op " + e.Op)
}

// Items spells a whole query.
func (q *QuerySpec) Items() []Item {
	var out []Item
	sep := func() {
		if len(out) > 0 {
			out = append(out, wsPlus)
		}
	}
	if q.Pred != nil {
		out = append(out, q.Pred.Items()...)
	}
	if len(q.Sort) > 0 {
		sep()
		out = append(out, kw("sort"), wsPlus, kw("by"), wsPlus)
		for i, k := range q.Sort {
			if i > 0 {
				out = append(out, wsStar, pu(","), wsStar)
			}
			out = append(out, sy(k.Sym))
			if k.Dir != "" {
				out = append(out, wsPlus, kw(k.Dir))
			}
		}
	}
	if q.Page.Skip != nil {
		sep()
		out = append(out, kw("skip"), wsPlus, lit(fmt.Sprintf("%d", *q.Page.Skip)))
	}
	if q.Page.LimitNone {
		sep()
		out = append(out, kw("limit"), wsPlus, kw("none"))
	} else if q.Page.Limit != nil {
		sep()
		out = append(out, kw("limit"), wsPlus, lit(fmt.Sprintf("%d", *q.Page.Limit)))
	}
	return out
}

// SpellChoice decides how each free slot is spelled. The zero value gives the canonical spelling.
type SpellChoice struct {
	// Ws returns the whitespace for a slot ('+', '*' or '1'); idx is the slot's ordinal.
	Ws func(kind byte, idx int) string
	// Case returns the spelling of a keyword; idx is the keyword's ordinal.
	Case func(word string, idx int) string
}

// Spell joins items into text. The canonical spelling uses one blank for '+' and '1' and nothing for '*',
// except that '*' between a word-like token and '(' ... stays empty; keywords are left as given.
func Spell(items []Item, ch SpellChoice) string {
	var b strings.Builder
	ws, kwi := 0, 0
	for _, it := range items {
		switch it.Kind {
		case '+', '*', '1':
			s := ""
			if ch.Ws != nil {
				s = ch.Ws(it.Kind, ws)
			} else if it.Kind != '*' {
				s = " "
			}
			ws++
			b.WriteString(s)
		case 'k':
			w := it.Text
			if ch.Case != nil {
				w = ch.Case(w, kwi)
			}
			kwi++
			b.WriteString(w)
		default:
			if it.Kind == 'l' && ch.Ws != nil && strings.HasPrefix(it.Text, "datetime(") && strings.HasSuffix(it.Text, ")") {
				// the datetime token has two whitespace slots of its own, inside the parentheses on either side of the timestamp
				b.WriteString("datetime(")
				b.WriteString(ch.Ws('*', ws))
				b.WriteString(it.Text[len("datetime(") : len(it.Text)-1])
				b.WriteString(ch.Ws('*', ws+1))
				b.WriteString(")")
				ws += 2
				continue
			}
			b.WriteString(it.Text)
		}
	}
	return b.String()
}

// WsChars are the characters the grammar's WS rule accepts.
var WsChars = []string{" ", "\t", "\n", "\r"}
