package kit

import (
	"bytes"
	"fmt"
	"os"
	"path/filepath"
	"sort"
	"strings"

	"github.com/openziti/storage/boltz"
	"go.etcd.io/bbolt"
)

// TempDir returns a fresh directory, on /dev/shm when possible (bbolt commits are ~20x faster there).
func TempDir() string {
	base := os.Getenv("VERIF_TMP")
	if base == "" {
		if st, err := os.Stat("/dev/shm"); err == nil && st.IsDir() {
			base = "/dev/shm"
		} else {
			base = os.TempDir()
		}
	}
	dir, err := os.MkdirTemp(base, "verif-db-")
	if err != nil {
		dir, err = os.MkdirTemp("", "verif-db-")
		if err != nil {
			panic(err)
		}
	}
	return dir
}

// RawDB is a plain bbolt database in a private temp dir.
type RawDB struct {
	Dir string
	DB  *bbolt.DB
}

func NewRawDB() *RawDB {
	dir := TempDir()
	opts := *bbolt.DefaultOptions
	opts.NoSync = true
	opts.NoFreelistSync = true
	db, err := bbolt.Open(filepath.Join(dir, "db.bolt"), 0o600, &opts)
	if err != nil {
		panic(err)
	}
	return &RawDB{Dir: dir, DB: db}
}

func (r *RawDB) Close() {
	if r.DB != nil {
		_ = r.DB.Close()
	}
	_ = os.RemoveAll(r.Dir)
}

// ZDB is a boltz.Db in a private temp dir.
type ZDB struct {
	Dir  string
	Path string
	Db   *boltz.DbImpl
}

func NewZDB() *ZDB {
	dir := TempDir()
	p := filepath.Join(dir, "db.bolt")
	db, err := boltz.Open(p, "root")
	if err != nil {
		panic(err)
	}
	return &ZDB{Dir: dir, Path: p, Db: db}
}

func (z *ZDB) Close() {
	if z.Db != nil {
		func() {
			defer func() { _ = recover() }()
			_ = z.Db.Close()
		}()
	}
	_ = os.RemoveAll(z.Dir)
}

// DumpTx produces a deterministic logical dump of a whole bbolt file: one line per bucket and per key.
// It uses raw bbolt iteration only (independent of boltz.Traverse).
func DumpTx(tx *bbolt.Tx) []string {
	var out []string
	_ = tx.ForEach(func(name []byte, b *bbolt.Bucket) error {
		dumpBucket("/"+quoteBytes(name), b, &out)
		return nil
	})
	return out
}

func dumpBucket(path string, b *bbolt.Bucket, out *[]string) {
	*out = append(*out, path+"/")
	_ = b.ForEach(func(k, v []byte) error {
		if v == nil {
			if child := b.Bucket(k); child != nil {
				dumpBucket(path+"/"+quoteBytes(k), child, out)
				return nil
			}
		}
		*out = append(*out, path+"/"+quoteBytes(k)+" = "+quoteBytes(v))
		return nil
	})
}

func quoteBytes(b []byte) string {
	return fmt.Sprintf("%q", string(b))
}

func DumpDB(db *bbolt.DB) []string {
	var out []string
	_ = db.View(func(tx *bbolt.Tx) error {
		out = DumpTx(tx)
		return nil
	})
	return out
}

// DiffDumps returns a short description of the difference between two dumps ("" if equal).
func DiffDumps(a, b []string) string {
	am := map[string]bool{}
	for _, l := range a {
		am[l] = true
	}
	bm := map[string]bool{}
	for _, l := range b {
		bm[l] = true
	}
	var diff []string
	for _, l := range a {
		if !bm[l] {
			diff = append(diff, "- "+l)
		}
	}
	for _, l := range b {
		if !am[l] {
			diff = append(diff, "+ "+l)
		}
	}
	if len(diff) == 0 {
		if len(a) != len(b) {
			return fmt.Sprintf("dump sizes differ: %d vs %d", len(a), len(b))
		}
		return ""
	}
	sort.Strings(diff)
	if len(diff) > 30 {
		diff = append(diff[:30], fmt.Sprintf("… (%d more)", len(diff)-30))
	}
	return strings.Join(diff, "\n")
}

// FindBytesInTx walks the whole file and reports every place where needle occurs as a bucket name,
// a key, a typed key (type tag + needle), a value or a typed value.
func FindBytesInTx(tx *bbolt.Tx, needle []byte) []string {
	var hits []string
	var walk func(path string, b *bbolt.Bucket)
	match := func(x []byte) bool {
		if bytes.Equal(x, needle) {
			return true
		}
		if len(x) == len(needle)+1 && bytes.Equal(x[1:], needle) && x[0] >= 1 && x[0] <= 7 {
			return true
		}
		return false
	}
	walk = func(path string, b *bbolt.Bucket) {
		_ = b.ForEach(func(k, v []byte) error {
			if match(k) {
				hits = append(hits, fmt.Sprintf("key %q under %s", k, path))
			}
			if v == nil {
				if child := b.Bucket(k); child != nil {
					walk(path+"/"+quoteBytes(k), child)
					return nil
				}
			}
			if match(v) {
				hits = append(hits, fmt.Sprintf("value of %s/%q", path, k))
			}
			return nil
		})
	}
	_ = tx.ForEach(func(name []byte, b *bbolt.Bucket) error {
		if match(name) {
			hits = append(hits, fmt.Sprintf("top-level bucket %q", name))
		}
		walk("/"+quoteBytes(name), b)
		return nil
	})
	return hits
}

// DropEmptyEntityBuckets removes from a dump the empty buckets that live inside an entity bucket
// (root/<store>/<id>/<field>/): link and back-reference containers are created lazily, even by reads inside a
// write transaction, and an empty one carries no information. Empty buckets under root/indexes are kept: an empty
// index key is an inconsistency in its own right.
func DropEmptyEntityBuckets(lines []string) []string {
	var out []string
	for i, l := range lines {
		if strings.HasSuffix(l, "/") {
			empty := i+1 >= len(lines) || !strings.HasPrefix(lines[i+1], l)
			depth := strings.Count(l, "/\"")
			if empty && depth >= 4 && !strings.HasPrefix(l, "/\"root\"/\"indexes\"") {
				continue
			}
		}
		out = append(out, l)
	}
	return out
}
