package kit

import (
	"bytes"
	"fmt"
	"strings"

	"go.etcd.io/bbolt"
	"pgregory.net/rapid"
)

// History is a world configuration plus a list of transactions (the Case of the entity-schema properties).
type History struct {
	Cfg WorldCfg `json:"cfg"`
	Txs []TxSpec `json:"txs"`
}

func (h History) String() string {
	var parts []string
	for i, t := range h.Txs {
		parts = append(parts, fmt.Sprintf("  %2d %s", i, t))
	}
	return strings.Join(parts, "\n")
}

// HistoryStats is what the generic runner observed (used for non-triviality rules and class histograms).
type HistoryStats struct {
	Committed, Rejected, CallerAborts, SkippedOps int
	RejectThenCommit                              bool
	Classes                                       []string
}

// RunHistory executes the history against a fresh world and the model, checking all model invariants after every
// transaction. afterTx (optional) adds property-specific checks.
func RunHistory(h History, afterTx func(w *World, m *Model, i int, tx TxSpec, out TxOutcome) error) (HistoryStats, error) {
	return RunHistorySetup(h, nil, afterTx)
}

// RunHistorySetup is RunHistory with a hook that sees the freshly built stores before the first transaction.
func RunHistorySetup(h History, setup func(w *World), afterTx func(w *World, m *Model, i int, tx TxSpec, out TxOutcome) error) (HistoryStats, error) {
	var st HistoryStats
	w, err := NewWorld(h.Cfg)
	if err != nil {
		return st, fmt.Errorf("building stores: %v", err)
	}
	if setup != nil {
		setup(w)
	}
	defer func() { w.Close() }()
	m := NewModel(h.Cfg)
	sawReject := false
	for i, tx := range h.Txs {
		if tx.FreshInstance {
			w2, err := MoveToFreshInstance(w)
			if err != nil {
				return st, fmt.Errorf("before transaction %d: %v\nhistory:\n%s", i, err, h)
			}
			w = w2
			if err := w.CheckAll(m); err != nil {
				return st, fmt.Errorf("before transaction %d, after the data moved into a fresh instance by snapshot restore: %v\nhistory:\n%s", i, err, h)
			}
		}
		out := RunTx(w, m, tx)
		st.SkippedOps += out.Skipped
		if out.Violation != nil {
			return st, fmt.Errorf("transaction %d: %v\nhistory:\n%s", i, out.Violation, h)
		}
		switch {
		case out.Committed:
			st.Committed++
			if sawReject {
				st.RejectThenCommit = true
			}
		case out.Rejected:
			st.Rejected++
			sawReject = true
		default:
			st.CallerAborts++
		}
		if err := w.CheckAll(m); err != nil {
			return st, fmt.Errorf("after transaction %d (%s, committed=%v): %v\nhistory:\n%s", i, tx, out.Committed, err, h)
		}
		if afterTx != nil {
			if err := afterTx(w, m, i, tx, out); err != nil {
				return st, fmt.Errorf("after transaction %d (%s): %v\nhistory:\n%s", i, tx, err, h)
			}
		}
	}
	return st, nil
}

// MoveToFreshInstance streams the database of w out, starts a second instance of the same configuration on an empty
// database (stores built and initialised there), restores the stream into it and closes w.
func MoveToFreshInstance(w *World) (*World, error) {
	var buf bytes.Buffer
	if err := w.Z.Db.View(func(tx *bbolt.Tx) error {
		_, err := tx.WriteTo(&buf)
		return err
	}); err != nil {
		return nil, fmt.Errorf("streaming the database out: %v", err)
	}
	w2, err := NewWorld(w.Cfg)
	if err != nil {
		return nil, fmt.Errorf("building stores of the second instance: %v", err)
	}
	w2.MigSeq = w.MigSeq
	if p := func() (p interface{}) {
		defer func() { p = recover() }()
		w2.Z.Db.RestoreSnapshot(buf.Bytes())
		return nil
	}(); p != nil {
		w2.Close()
		return nil, fmt.Errorf("RestoreSnapshot into the second instance panicked: %v", p)
	}
	w.Close()
	return w2, nil
}

// ---------------------------------------------------------------------------------------------
// op generators over small fixed universes
// ---------------------------------------------------------------------------------------------

type EntUniverse struct {
	IDs     []string
	Names   []string
	Aliases []*string
	Roles   []string
	Notes   []string
	Refs    []*string // candidate ref values (nil = null)
	Extras  []string
	Serials []int64
	Fields  []string // fields a patch checker may select
	System  bool     // draw IsSystem
	Hostile bool     // occasionally draw hostile values (empty role, oversized name)
}

func Sp(s string) *string { return &s }

func GenSpec(t *rapid.T, l string, u EntUniverse) *EntSpec {
	s := &EntSpec{Name: pick(t, l+"_name", u.Names)}
	if len(u.Aliases) > 0 {
		s.Alias = pick(t, l+"_alias", u.Aliases)
	}
	if len(u.Roles) > 0 {
		n := rapid.IntRange(0, 3).Draw(t, l+"_nroles")
		for i := 0; i < n; i++ {
			s.Roles = append(s.Roles, pick(t, fmt.Sprintf("%s_role%d", l, i), u.Roles))
		}
	}
	if len(u.Notes) > 0 {
		s.Note = pick(t, l+"_note", u.Notes)
	}
	if len(u.Refs) > 0 {
		s.Ref = pick(t, l+"_ref", u.Refs)
	}
	if len(u.Extras) > 0 {
		s.Extra = pick(t, l+"_extra", u.Extras)
	}
	if len(u.Serials) > 0 {
		s.Serial = pick(t, l+"_serial", u.Serials)
	}
	if u.System {
		s.IsSystem = chance(t, l+"_sys", 40)
		s.Migrate = chance(t, l+"_migrate", 25)
	}
	if chance(t, l+"_tag", 30) {
		s.TagV = Sp(pick(t, l+"_tagv", []string{"x", "y", ""}))
	}
	if u.Hostile && chance(t, l+"_hostile", 6) {
		switch rapid.IntRange(0, 3).Draw(t, l+"_hk") {
		case 0:
			s.Roles = append(s.Roles, "")
		case 1:
			s.Name = strings.Repeat("n", 40000)
		case 2:
			s.Alias = Sp(strings.Repeat("a", 33000))
		case 3:
			// a set element larger than bbolt's maximum key size: the entity's own list cannot store it
			s.Roles = append(s.Roles, strings.Repeat("r", 33000))
		}
	}
	return s
}

// GenEntOp draws create / update / patch / delete on one store.
func GenEntOp(t *rapid.T, l string, store string, u EntUniverse) Op {
	id := pick(t, l+"_id", u.IDs)
	switch x := rapid.IntRange(0, 99).Draw(t, l+"_kind"); {
	case x < 35:
		return Op{Kind: "create", Store: store, ID: id, Spec: GenSpec(t, l, u)}
	case x < 55:
		return Op{Kind: "update", Store: store, ID: id, Spec: GenSpec(t, l, u)}
	case x < 80:
		var fields []string
		for _, f := range u.Fields {
			if rapid.Bool().Draw(t, l+"_f_"+f) {
				fields = append(fields, f)
			}
		}
		return Op{Kind: "patch", Store: store, ID: id, Spec: GenSpec(t, l, u), Fields: fields}
	default:
		return Op{Kind: "delete", Store: store, ID: id}
	}
}

// GenTx wraps ops into a transaction with the drawn flags.
func GenTx(t *rapid.T, l string, ops []Op, allowSystem bool) TxSpec {
	tx := TxSpec{Ops: ops}
	tx.Fail = chance(t, l+"_fail", 6)
	tx.Batch = chance(t, l+"_batch", 4)
	if allowSystem {
		tx.System = chance(t, l+"_system", 45)
	}
	return tx
}

// GenHistory draws a history. The generator runs the (pure) model alongside so that it can bias the draw towards
// accepted operations: a candidate operation the model would reject is redrawn with probability rejectRedraw%,
// at most 3 times. Every choice still comes from rapid, so shrinking and replay work on the resulting value.
func GenHistory(t *rapid.T, cfg WorldCfg, maxTx, maxOps int, allowSystem bool, rejectRedraw int, opGen func(t *rapid.T, l string, m *Model) Op) History {
	return GenHistoryFrom(t, cfg, nil, maxTx, maxOps, allowSystem, rejectRedraw, opGen)
}

// GenHistoryFrom is GenHistory with setup transactions (assumed to commit) executed first.
func GenHistoryFrom(t *rapid.T, cfg WorldCfg, setup []TxSpec, maxTx, maxOps int, allowSystem bool, rejectRedraw int, opGen func(t *rapid.T, l string, m *Model) Op) History {
	h := History{Cfg: cfg}
	m := NewModel(cfg)
	for _, tx := range setup {
		for _, op := range tx.Ops {
			m.Apply(op, tx.System)
		}
		h.Txs = append(h.Txs, tx)
	}
	n := rapid.IntRange(1, maxTx).Draw(t, "nTx")
	for i := 0; i < n; i++ {
		l := fmt.Sprintf("t%d", i)
		k := 1
		if rapid.IntRange(0, 2).Draw(t, l+"_multi") == 0 {
			k = rapid.IntRange(2, maxOps).Draw(t, l+"_nops")
		}
		tx := TxSpec{}
		tx.Fail = chance(t, l+"_fail", 6)
		tx.Batch = chance(t, l+"_batch", 4)
		tx.Nested = chance(t, l+"_nested", 5)
		tx.LastInPreCommit = chance(t, l+"_lastInPreCommit", 8)
		tx.NilCtx = chance(t, l+"_nilCtx", 15)
		if allowSystem {
			tx.System = chance(t, l+"_system", 45)
			tx.SystemOutside = tx.System && chance(t, l+"_systemOutside", 40)
			tx.DeriveSystemFirst = !tx.System && chance(t, l+"_derive", 35)
		}
		trial := m.Clone()
		ok := true
		for j := 0; j < k; j++ {
			var op Op
			for try := 0; try < 4; try++ {
				op = opGen(t, fmt.Sprintf("%s_o%d_%d", l, j, try), trial)
				probe := trial.Clone()
				if len(probe.Apply(op, tx.System)) == 0 || try == 3 || !chance(t, fmt.Sprintf("%s_o%d_redraw%d", l, j, try), rejectRedraw) {
					break
				}
			}
			tx.Ops = append(tx.Ops, op)
			if ok {
				if c := trial.Apply(op, tx.System); len(c) > 0 && !contains(c, Unspecified) {
					ok = false
				}
			}
		}
		if ok && !tx.Fail {
			m = trial
		}
		h.Txs = append(h.Txs, tx)
	}
	return h
}

// GenEntOpM is GenEntOp biased by the model: existing entities are mostly updated / patched / deleted,
// absent ids mostly created (operations on the "wrong" kind of id stay in, at ~10%).
func GenEntOpM(t *rapid.T, l string, store string, u EntUniverse, m *Model) Op {
	id := pick(t, l+"_id", u.IDs)
	parent := store
	if cc, ok := m.childCfg(store); ok {
		parent = cc.Parent
	}
	_, exists := m.Ents[parent][id]
	x := rapid.IntRange(0, 99).Draw(t, l+"_kind")
	kind := "create"
	if exists {
		switch {
		case x < 35:
			kind = "update"
		case x < 70:
			kind = "patch"
		case x < 90:
			kind = "delete"
		}
	} else {
		switch {
		case x >= 95:
			kind = "delete"
		case x >= 90:
			kind = "patch"
		case x >= 85:
			kind = "update"
		}
	}
	switch kind {
	case "create", "update":
		return Op{Kind: kind, Store: store, ID: id, Spec: GenSpec(t, l, u)}
	case "patch":
		var fields []string
		for _, f := range u.Fields {
			if rapid.Bool().Draw(t, l+"_f_"+f) {
				fields = append(fields, f)
			}
		}
		return Op{Kind: "patch", Store: store, ID: id, Spec: GenSpec(t, l, u), Fields: fields}
	}
	return Op{Kind: "delete", Store: store, ID: id}
}
