package kit

import (
	"errors"
	"fmt"
	"sort"
	"strings"

	"github.com/openziti/storage/ast"
	"github.com/openziti/storage/boltz"
	"go.etcd.io/bbolt"
)

var boolTrue = ast.BoolNodeTrue

// Op is one store operation of a generated history (JSON-serialisable).
type Op struct {
	Kind   string   `json:"kind"` // create update patch delete addlinks removelinks setlinks addlink removelink rcinc rcdec rcset
	Store  string   `json:"store"`
	ID     string   `json:"id"`
	Spec   *EntSpec `json:"spec,omitempty"`
	Fields []string `json:"fields,omitempty"` // patch: fields the checker selects
	Field  string   `json:"field,omitempty"`  // link ops: the link field on Store
	Keys   []string `json:"keys,omitempty"`
	Count  int      `json:"count,omitempty"`
}

func (o Op) String() string {
	switch o.Kind {
	case "create", "update":
		return fmt.Sprintf("%s(%s/%s %+v)", o.Kind, o.Store, o.ID, specStr(o.Spec))
	case "patch":
		return fmt.Sprintf("patch(%s/%s %v %+v)", o.Store, o.ID, o.Fields, specStr(o.Spec))
	case "delete":
		return fmt.Sprintf("delete(%s/%s)", o.Store, o.ID)
	case "deletewhere":
		if o.Field == FNote {
			return fmt.Sprintf("deleteWhere(%s, note = %q)", o.Store, o.Spec.Note)
		}
		return fmt.Sprintf("deleteWhere(%s, name = %q)", o.Store, o.Spec.Name)
	case "rcset":
		return fmt.Sprintf("rcset(%s/%s.%s %v =%d)", o.Store, o.ID, o.Field, o.Keys, o.Count)
	}
	return fmt.Sprintf("%s(%s/%s.%s %q)", o.Kind, o.Store, o.ID, o.Field, o.Keys)
}

func specStr(s *EntSpec) string {
	if s == nil {
		return "<nil>"
	}
	p := func(x *string) string {
		if x == nil {
			return "null"
		}
		return fmt.Sprintf("%q", *x)
	}
	name := s.Name
	if len(name) > 40 {
		name = fmt.Sprintf("%s…(%d bytes)", name[:10], len(name))
	}
	links := ""
	if s.Serial != 0 {
		links = fmt.Sprintf(" serial:%d", s.Serial)
	}
	if s.LinkField != "" {
		links += fmt.Sprintf(" SetLinkedIds(%s, %q)", s.LinkField, s.LinkIDs)
	}
	return fmt.Sprintf("{name:%q alias:%s roles:%q note:%q ref:%s sys:%v extra:%q tag:%s%s}", name, p(s.Alias), s.Roles, s.Note, p(s.Ref), s.IsSystem, s.Extra, p(s.TagV), links)
}

// TxSpec is one transaction of a history.
type TxSpec struct {
	Ops    []Op `json:"ops"`
	System bool `json:"system,omitempty"` // run with ctx.GetSystemContext()
	// DeriveSystemFirst: derive a system context from the ordinary one, discard it, then work with the ordinary one
	DeriveSystemFirst bool `json:"deriveSystemFirst,omitempty"`
	Fail              bool `json:"fail,omitempty"`   // the caller's function returns an error after its operations succeeded
	Batch             bool `json:"batch,omitempty"`  // use Db.Batch instead of Db.Update
	Nested            bool `json:"nested,omitempty"` // run the body through a second Db.Update on the already bound context
	// NilCtx: the caller passes no context to Db.Update (the database supplies a default one)
	NilCtx bool `json:"nilCtx,omitempty"`
	// SystemOutside (with System): the caller hands a system context to Db.Update / Db.Batch instead of deriving one
	// inside the transaction function
	SystemOutside bool `json:"systemOutside,omitempty"`
	// LastInPreCommit: the last operation is not issued by the body itself but from a pre-commit action it registers
	// (the application's "do this just before the commit" hook); a rejection there fails the commit
	LastInPreCommit bool `json:"lastInPreCommit,omitempty"`
	// PreCommitNested (with LastInPreCommit): the pre-commit action does not issue the operation itself but registers a
	// second pre-commit action that does. Whether such a late registration still runs in this transaction is not
	// stated: the operation counts only if it was actually issued, and if it was, a rejection fails the commit
	PreCommitNested bool `json:"preCommitNested,omitempty"`
	// ViaMigration: the transaction is a migration step run by MigrationManager.Migrate with the step's (ordinary)
	// context; a failure is reported with step.SetError while the step returns the version it was heading for (even
	// number of operations) or the version it started from (odd number)
	ViaMigration bool `json:"viaMigration,omitempty"`
	// FreshInstance (RunHistory only): before this transaction the data moves, through a snapshot restore, into a
	// newly started instance whose stores were initialised on an empty database
	FreshInstance bool `json:"freshInstance,omitempty"`
}

// UsesNilCtx reports whether the transaction is run as Db.Update(nil, ...): nothing can be registered on the context
// before the transaction then.
func (t TxSpec) UsesNilCtx() bool { return (t.NilCtx || t.ViaMigration) && !t.System && !t.Batch }

func (t TxSpec) String() string {
	var parts []string
	for _, o := range t.Ops {
		parts = append(parts, o.String())
	}
	flags := ""
	if t.System {
		flags += " [system ctx]"
		if t.SystemOutside {
			flags += " [handed to the transaction from outside]"
		}
	}
	if t.DeriveSystemFirst {
		flags += " [system ctx derived and discarded first]"
	}
	if t.Fail {
		flags += " [caller returns error]"
	}
	if t.Batch {
		flags += " [batch]"
	}
	if t.Nested {
		flags += " [nested Db.Update]"
	}
	if t.LastInPreCommit {
		flags += " [last operation issued from a pre-commit action]"
		if t.PreCommitNested {
			flags += " [registered by another pre-commit action]"
		}
	}
	if t.ViaMigration {
		flags += " [migration step]"
	}
	if t.FreshInstance {
		flags += " [after the data moved into a fresh instance by snapshot restore]"
	}
	if t.NilCtx {
		flags += " [Db.Update(nil, ...)]"
	}
	return "tx{" + strings.Join(parts, "; ") + "}" + flags
}

// ClassifyErr maps an engine error to the model's outcome classes using the exported helpers only.
func ClassifyErr(err error) string {
	switch {
	case err == nil:
		return OK
	case boltz.IsUniqueIndexDuplicateError(err):
		return ErrDuplicate
	case boltz.IsReferenceExistsError(err):
		return ErrRefExists
	case boltz.IsErrNotFoundErr(err):
		return ErrNotFound
	}
	return "other-error"
}

func contains(xs []string, x string) bool {
	for _, y := range xs {
		if y == x {
			return true
		}
	}
	return false
}

// CompareOutcome checks an engine result against the model's predicted causes.
func CompareOutcome(op Op, causes []string, err error) error {
	if len(causes) == 0 {
		if err != nil {
			return fmt.Errorf("%s: model accepts the operation, engine returned error: %v", op, err)
		}
		return nil
	}
	if err == nil {
		return fmt.Errorf("%s: must be rejected (%v) but the engine reported success", op, causes)
	}
	got := ClassifyErr(err)
	specific := func(c string) bool { return c == ErrDuplicate || c == ErrRefExists || c == ErrNotFound }
	allSpecific := true
	for _, c := range causes {
		if !specific(c) {
			allSpecific = false
		}
	}
	if specific(got) && !contains(causes, got) || allSpecific && !contains(causes, got) {
		return fmt.Errorf("%s: rejected with the wrong kind of error: expected %v, got %s (%v)", op, causes, got, err)
	}
	return nil
}

// Apply predicts an operation on the model and applies it when accepted.
func (m *Model) Apply(op Op, system bool) []string {
	switch op.Kind {
	case "create":
		return m.Create(op.Store, op.ID, *op.Spec, system)
	case "update":
		return m.Update(op.Store, op.ID, *op.Spec, nil, system)
	case "patch":
		f := op.Fields
		if f == nil {
			f = []string{}
		}
		return m.Update(op.Store, op.ID, *op.Spec, f, system)
	case "delete":
		return m.Delete(op.Store, op.ID, system)
	case "deletewhere":
		if op.Field == FNote {
			return m.DeleteWhereField(op.Store, FNote, op.Spec.Note, system)
		}
		return m.DeleteWhere(op.Store, op.Spec.Name, system)
	}
	return m.applyLink(op)
}

func (m *Model) otherStore(coll string, flipped bool) (self, other string) {
	lc := m.linkCfg(coll)
	if flipped {
		return lc.B, lc.A
	}
	return lc.A, lc.B
}

func (m *Model) applyLink(op Op) []string {
	coll, flipped, ok := m.Canonical(op.Store, op.Field)
	if !ok {
		panic("no link collection for " + op.Store + "." + op.Field)
	}
	self, other := m.otherStore(coll, flipped)
	if !m.LinkEndExists(self, op.ID) {
		if _, isChild := m.childCfg(self); isChild {
			if _, parentExists := m.Ents[m.BaseStore(self)][op.ID]; parentExists {
				return []string{Unspecified} // link operation on a child store for an entity without child data
			}
		}
		return []string{ErrSome}
	}
	ab := func(key string) (string, string) {
		if flipped {
			return key, op.ID
		}
		return op.ID, key
	}
	exists := func(key string) bool { return m.LinkEndExists(other, key) }
	switch op.Kind {
	case "addlinks", "addlink":
		for _, k := range op.Keys {
			if !exists(k) {
				return []string{ErrNotFound}
			}
		}
		for _, k := range op.Keys {
			a, b := ab(k)
			m.SetLinkCount(coll, a, b, 1)
		}
	case "removelinks", "removelink":
		for _, k := range op.Keys {
			a, b := ab(k)
			m.SetLinkCount(coll, a, b, 0)
		}
	case "setlinks":
		want := map[string]bool{}
		for _, k := range op.Keys {
			want[k] = true
		}
		cur := m.LinkedFrom(coll, flipped, op.ID)
		for k := range want {
			if !exists(k) && !contains(cur, k) {
				return []string{ErrNotFound}
			}
		}
		for _, k := range cur {
			if !want[k] {
				a, b := ab(k)
				m.SetLinkCount(coll, a, b, 0)
			}
		}
		for k := range want {
			a, b := ab(k)
			m.SetLinkCount(coll, a, b, 1)
		}
	case "rcinc":
		k := op.Keys[0]
		if !exists(k) {
			return []string{ErrNotFound}
		}
		a, b := ab(k)
		m.SetLinkCount(coll, a, b, m.LinkCount(coll, a, b)+1)
	case "rcdec":
		k := op.Keys[0]
		a, b := ab(k)
		if n := m.LinkCount(coll, a, b); n > 0 {
			m.SetLinkCount(coll, a, b, n-1)
		}
	case "rcset":
		k := op.Keys[0]
		if !exists(k) {
			return []string{ErrNotFound}
		}
		a, b := ab(k)
		m.SetLinkCount(coll, a, b, op.Count)
	default:
		panic("unknown op kind " + op.Kind)
	}
	return nil
}

// ExecResult carries the extra return values of link operations.
type ExecResult struct {
	Changed *bool // AddLink / RemoveLink
	Count   *int  // Increment / Decrement
}

// Exec runs one operation against the real stores.
func (w *World) Exec(ctx boltz.MutateContext, op Op) (ExecResult, error) {
	var res ExecResult
	kidStore, isKid := w.Kids[op.Store]
	switch op.Kind {
	case "create":
		if isKid {
			cc := w.KidCfgs[op.Store]
			k := &Kid{Ent: *op.Spec.ToEnt(cc.Parent, op.ID), Extra: op.Spec.Extra}
			return res, kidStore.Create(ctx, k)
		}
		return res, w.Stores[op.Store].Create(ctx, op.Spec.ToEnt(op.Store, op.ID))
	case "update", "patch":
		var checker boltz.FieldChecker
		if op.Kind == "patch" {
			keyed := false
			if isKid {
				keyed = w.Cfgs[w.KidCfgs[op.Store].Parent].Keyed
			} else {
				keyed = w.Cfgs[op.Store].Keyed
			}
			fc := boltz.MapFieldChecker{}
			parent := op.Store
			if isKid {
				parent = w.KidCfgs[op.Store].Parent
			}
			for _, f := range op.Fields {
				switch {
				case keyed && w.Cfg.ClashParent(parent) && f == FExtra:
					// the child-only field is named by its bucket key (for a Clash child that is also the key of the parent's note)
					if isKid {
						fc[w.KidCfgs[op.Store].ExtraKey()] = struct{}{}
					} else {
						fc[FExtra] = struct{}{}
					}
				case keyed && w.Cfg.ClashParent(parent):
					// the parent strategy declares overrides: the checker names its fields by their symbol names
					fc[f] = struct{}{}
				default:
					// the checker speaks in persisted field names
					fc[PersistKey(keyed, f)] = struct{}{}
				}
			}
			checker = fc
		}
		if isKid {
			cc := w.KidCfgs[op.Store]
			k := &Kid{Ent: *op.Spec.ToEnt(cc.Parent, op.ID), Extra: op.Spec.Extra}
			return res, kidStore.Update(ctx, k, checker)
		}
		return res, w.Stores[op.Store].Update(ctx, op.Spec.ToEnt(op.Store, op.ID), checker)
	case "delete":
		if isKid {
			return res, kidStore.DeleteById(ctx, op.ID)
		}
		return res, w.Stores[op.Store].DeleteById(ctx, op.ID)
	case "deletewhere":
		filter := "name = " + QuoteZql(op.Spec.Name)
		if op.Field == FNote {
			filter = "note = " + QuoteZql(op.Spec.Note) // a non-unique field: the filter may match several entities
		}
		if isKid {
			return res, kidStore.DeleteWhere(ctx, filter)
		}
		return res, w.Stores[op.Store].DeleteWhere(ctx, filter)
	}
	key := op.Store + "." + op.Field
	tx := ctx.Tx()
	switch op.Kind {
	case "addlinks":
		return res, w.Links[key].AddLinks(tx, op.ID, op.Keys...)
	case "removelinks":
		return res, w.Links[key].RemoveLinks(tx, op.ID, op.Keys...)
	case "setlinks":
		return res, w.Links[key].SetLinks(tx, op.ID, append([]string(nil), op.Keys...))
	case "addlink":
		ch, err := w.Links[key].AddLink(tx, []byte(op.ID), []byte(op.Keys[0]))
		res.Changed = &ch
		return res, err
	case "removelink":
		ch, err := w.Links[key].RemoveLink(tx, []byte(op.ID), []byte(op.Keys[0]))
		res.Changed = &ch
		return res, err
	case "rcinc":
		n, err := w.RcLinks[key].IncrementLinkCount(tx, []byte(op.ID), []byte(op.Keys[0]))
		res.Count = &n
		return res, err
	case "rcdec":
		n, err := w.RcLinks[key].DecrementLinkCount(tx, []byte(op.ID), []byte(op.Keys[0]))
		res.Count = &n
		return res, err
	case "rcset":
		_, _, err := w.RcLinks[key].SetLinkCount(tx, []byte(op.ID), []byte(op.Keys[0]), op.Count)
		return res, err
	}
	panic("unknown op kind " + op.Kind)
}

var errCallerAbort = errors.New("caller aborts the transaction")

type TxOutcome struct {
	Committed bool
	Rejected  bool  // some operation was rejected by the engine as predicted
	Skipped   int   // operations skipped because their outcome is unspecified
	Violation error // disagreement between engine and model
	Err       error // what Db.Update / Db.Batch returned
}

// RunTx executes one transaction against the world and the model and compares outcomes op by op.
func RunTx(w *World, m *Model, tx TxSpec) TxOutcome {
	return RunTxWith(w, m, tx, nil)
}

// RunTxWith is RunTx with a hook called at the start of the transaction function (every time it is invoked).
func RunTxWith(w *World, m *Model, tx TxSpec, pre func(ctx boltz.MutateContext)) TxOutcome {
	return RunTxHooks(w, m, tx, nil, pre)
}

// RunTxHooks additionally calls beforeTx with the fresh context before the transaction is opened.
func RunTxHooks(w *World, m *Model, tx TxSpec, beforeTx func(ctx boltz.MutateContext), pre func(ctx boltz.MutateContext)) TxOutcome {
	var out TxOutcome
	trial := m.Clone()
	before := w.Dump()
	body := func(ctx boltz.MutateContext) error {
		// Db.Batch may call the function more than once (bbolt re-runs a failed batch member on its own)
		trial = m.Clone()
		out = TxOutcome{}
		if pre != nil {
			pre(ctx)
		}
		if tx.System && !tx.SystemOutside {
			ctx = ctx.GetSystemContext()
		} else if tx.DeriveSystemFirst {
			_ = ctx.GetSystemContext()
		}
		step := func(ctx boltz.MutateContext, op Op) error {
			pre := trial.Clone()
			causes := trial.Apply(op, tx.System)
			if contains(causes, Unspecified) {
				*trial = *pre
				out.Skipped++
				return nil
			}
			res, err := w.Exec(ctx, op)
			if v := CompareOutcome(op, causes, err); v != nil {
				out.Violation = v
				if err != nil {
					return err
				}
				return errCallerAbort
			}
			if err != nil {
				out.Rejected = true
				return err
			}
			if v := checkLinkReturn(pre, trial, op, res); v != nil {
				out.Violation = v
				return errCallerAbort
			}
			return nil
		}
		for i, op := range tx.Ops {
			if tx.LastInPreCommit && !tx.Batch && !tx.Fail && i == len(tx.Ops)-1 {
				op := op
				actx := ctx
				if tx.PreCommitNested {
					ctx.AddPreCommitAction(func(boltz.MutateContext) error {
						actx.AddPreCommitAction(func(boltz.MutateContext) error { return step(actx, op) })
						return nil
					})
					continue
				}
				ctx.AddPreCommitAction(func(boltz.MutateContext) error { return step(actx, op) })
				continue
			}
			if err := step(ctx, op); err != nil {
				return err
			}
		}
		if tx.Fail {
			return errCallerAbort
		}
		return nil
	}
	run := body
	if tx.Nested {
		run = func(ctx boltz.MutateContext) error { return w.Z.Db.Update(ctx, body) }
	}
	topCtx := NewCtx()
	if tx.System && tx.SystemOutside {
		topCtx = topCtx.GetSystemContext()
	}
	if beforeTx != nil && !tx.UsesNilCtx() {
		beforeTx(topCtx)
	}
	var txErr error
	switch {
	case tx.Batch:
		txErr = w.Z.Db.Batch(topCtx, run)
	case tx.UsesNilCtx() && tx.ViaMigration:
		// every migration-step transaction is a component of its own, at version 0 heading for version 1
		w.MigSeq++
		txErr = boltz.NewMigratorManager(w.Z.Db).Migrate(fmt.Sprintf("verif-%d", w.MigSeq), 1, func(step *boltz.MigrationStep) int {
			if err := run(step.Ctx); err != nil {
				step.SetError(err)
				if len(tx.Ops)%2 == 1 {
					// the other convention: a step that could not do its work stays at the version it started from
					return step.CurrentVersion
				}
			}
			return 1
		})
	case tx.UsesNilCtx():
		txErr = w.Z.Db.Update(nil, run)
	default:
		txErr = w.Z.Db.Update(topCtx, run)
	}
	out.Err = txErr
	if out.Violation != nil {
		return out
	}
	shouldCommit := !out.Rejected && !tx.Fail
	if shouldCommit && out.Err != nil {
		out.Violation = fmt.Errorf("%s: every operation succeeded but the transaction returned %v", tx, out.Err)
		return out
	}
	if !shouldCommit && out.Err == nil {
		out.Violation = fmt.Errorf("%s: a failure inside the transaction was not returned to the caller (Db.Update returned nil)", tx)
		return out
	}
	if shouldCommit {
		*m = *trial
		out.Committed = true
		return out
	}
	if d := DiffDumps(before, w.Dump()); d != "" {
		out.Violation = fmt.Errorf("%s: failed transaction changed the database:\n%s", tx, d)
	}
	return out
}

func checkLinkReturn(pre, post *Model, op Op, res ExecResult) error {
	switch op.Kind {
	case "addlink", "removelink":
		coll, flipped, _ := pre.Canonical(op.Store, op.Field)
		a, b := op.ID, op.Keys[0]
		if flipped {
			a, b = b, a
		}
		changed := pre.LinkCount(coll, a, b) != post.LinkCount(coll, a, b)
		if res.Changed != nil && *res.Changed != changed {
			return fmt.Errorf("%s returned changed=%v but the link state %s", op, *res.Changed, map[bool]string{true: "changed", false: "did not change"}[changed])
		}
	case "rcinc":
		coll, flipped, _ := pre.Canonical(op.Store, op.Field)
		a, b := op.ID, op.Keys[0]
		if flipped {
			a, b = b, a
		}
		if res.Count != nil && *res.Count != post.LinkCount(coll, a, b) {
			return fmt.Errorf("%s returned count %d, model has %d", op, *res.Count, post.LinkCount(coll, a, b))
		}
	}
	return nil
}

// ---------------------------------------------------------------------------------------------
// Reading the real state back for comparison with the model
// ---------------------------------------------------------------------------------------------

func strp(p *string) string {
	if p == nil {
		return "<null>"
	}
	return fmt.Sprintf("%q", *p)
}

// CheckEntities compares every entity of every store (FindById / LoadById / QueryIds / IterateIds) with the model.
func (w *World) CheckEntities(tx *bbolt.Tx, m *Model) error {
	for name, st := range w.Stores {
		var want []string
		for id := range m.Ents[name] {
			want = append(want, id)
		}
		sort.Strings(want)
		ids, count, err := st.QueryIds(tx, "true")
		if err != nil {
			return fmt.Errorf("store %s: QueryIds(true): %v", name, err)
		}
		if fmt.Sprint(ids) != fmt.Sprint(want) && !(len(ids) == 0 && len(want) == 0) || int(count) != len(want) {
			return fmt.Errorf("store %s: QueryIds(true) = %q (count %d), model has %q", name, ids, count, want)
		}
		var iter []string
		for cur := st.IterateIds(tx, boolTrue); cur.IsValid(); cur.Next() {
			iter = append(iter, string(cur.Current()))
		}
		if fmt.Sprint(iter) != fmt.Sprint(want) && !(len(iter) == 0 && len(want) == 0) {
			return fmt.Errorf("store %s: IterateIds = %q, model has %q", name, iter, want)
		}
		// the sorting scan strategy must see the same population
		byName := append([]string(nil), want...)
		ents := m.Ents[name]
		sort.SliceStable(byName, func(i, j int) bool {
			if ents[byName[i]].Name != ents[byName[j]].Name {
				return ents[byName[i]].Name < ents[byName[j]].Name
			}
			return byName[i] < byName[j]
		})
		sorted, scount, err := st.QueryIds(tx, "true sort by name")
		if err != nil {
			return fmt.Errorf("store %s: QueryIds(true sort by name): %v", name, err)
		}
		if fmt.Sprint(sorted) != fmt.Sprint(byName) && !(len(sorted) == 0 && len(byName) == 0) || int(scount) != len(byName) {
			return fmt.Errorf("store %s: QueryIds(true sort by name) = %q (count %d), model has %q", name, sorted, scount, byName)
		}
		for id, me := range m.Ents[name] {
			e, found, err := st.FindById(tx, id)
			if err != nil || !found {
				return fmt.Errorf("store %s: FindById(%q) found=%v err=%v, model has the entity", name, id, found, err)
			}
			if d := diffEnt(e, me); d != "" {
				return fmt.Errorf("store %s entity %q differs from model: %s", name, id, d)
			}
			if _, err := st.LoadById(tx, id); err != nil {
				return fmt.Errorf("store %s: LoadById(%q): %v", name, id, err)
			}
		}
		// one entity value re-used as the buffer for every load (the "reload into the same struct" idiom): each load
		// shows that entity's own state, nothing is carried over from the previous one
		buf := st.GetEntityStrategy().NewEntity()
		for _, id := range want {
			if found, err := st.LoadEntity(tx, id, buf); err != nil || !found {
				return fmt.Errorf("store %s: LoadEntity(%q) into a re-used entity value: found=%v err=%v", name, id, found, err)
			}
			if d := diffEnt(buf, m.Ents[name][id]); d != "" {
				return fmt.Errorf("store %s entity %q loaded into an entity value that held another entity before differs from model: %s", name, id, d)
			}
		}
	}
	return nil
}

func diffEnt(e *Ent, me *MEnt) string {
	var d []string
	if e.Name != me.Name {
		d = append(d, fmt.Sprintf("name %q vs %q", e.Name, me.Name))
	}
	if strp(e.Alias) != strp(me.Alias) {
		d = append(d, fmt.Sprintf("alias %s vs %s", strp(e.Alias), strp(me.Alias)))
	}
	if fmt.Sprint(SortedSet(e.Roles)) != fmt.Sprint(me.Roles) || len(e.Roles) != len(me.Roles) {
		d = append(d, fmt.Sprintf("roles %q vs %q", e.Roles, me.Roles))
	}
	if e.Note != me.Note {
		d = append(d, fmt.Sprintf("note %q vs %q", e.Note, me.Note))
	}
	if strp(e.Ref) != strp(me.Ref) {
		d = append(d, fmt.Sprintf("ref %s vs %s", strp(e.Ref), strp(me.Ref)))
	}
	if e.Serial != me.Serial {
		d = append(d, fmt.Sprintf("serial %d vs %d", e.Serial, me.Serial))
	}
	if e.IsSystem != me.IsSystem {
		d = append(d, fmt.Sprintf("isSystem %v vs %v", e.IsSystem, me.IsSystem))
	}
	var tag *string
	if v, ok := e.Tags["t"]; ok {
		if s, ok := v.(string); ok {
			tag = &s
		}
	}
	if strp(tag) != strp(me.TagV) {
		d = append(d, fmt.Sprintf("tag %s vs %s", strp(tag), strp(me.TagV)))
	}
	return strings.Join(d, "; ")
}
