package kit

import (
	"encoding/json"
	"flag"
	"fmt"
	"hash/fnv"
	"os"
	"path/filepath"
	"runtime/debug"
	"sort"
	"strconv"
	"strings"
	"sync"
	"testing"
	"time"

	"pgregory.net/rapid"
)

// Result is the verdict of running one case against the real code and the oracle.
type Result struct {
	// Err non-nil: the property is violated on this case. The text explains expected vs. got.
	Err error
	// NonTrivial: the case satisfies the property's stated non-triviality rule.
	NonTrivial bool
	// Classes: labels for the generator distribution histogram.
	Classes []string
	// Skipped: the case was not asserted (unspecified semantics / excluded known signature); counted.
	Skipped string
	// Sub: number of sub-evaluations the case performed (e.g. filters per dataset); 0 means 1.
	Sub int
}

// Spec describes one property check: a generator of JSON-serialisable cases and a runner.
// RuleAddenda holds, per property id, sentences appended to the rule text of the evidence (what later rounds added to
// the generators); the property files fill it in an init function.
var RuleAddenda = map[string]string{}

type Spec[C any] struct {
	ID    string
	Level string // exploration | fault_enumeration
	Rule  string
	// Assumptions recorded in the evidence file.
	Assumptions []string
	Gen         func(t *rapid.T) C
	Run         func(c C) Result
	// CaseTimeout, when set, is the watchdog for one case (see Execute); only for checks whose cases take milliseconds.
	CaseTimeout time.Duration
	// Checks in the quick tier; thorough multiplies by ThoroughFactor (per shard).
	QuickChecks    int
	ThoroughFactor int
	// Exhaustive, if set, enumerates a finite sub-space completely; it is run before the random part.
	Exhaustive func(yield func(c C) bool)
	// ExhaustiveThoroughOnly: when true the exhaustive part only runs in the thorough tier
	ExhaustiveQuick func(yield func(c C) bool)
}

var VerifRoot = envOr("VERIF_ROOT", "/verif")

func envOr(k, d string) string {
	if v := os.Getenv(k); v != "" {
		return v
	}
	return d
}

func Tier() string { return envOr("VERIF_TIER", "quick") }

func envInt(k string, d int) int {
	if v := os.Getenv(k); v != "" {
		if n, err := strconv.Atoi(v); err == nil {
			return n
		}
	}
	return d
}

type collector struct {
	mu          sync.Mutex
	id          string
	evals       int
	sub         int
	nontriv     map[uint64]struct{}
	classes     map[string]int
	samples     []json.RawMessage
	ntSamples   []json.RawMessage
	skipped     map[string]int
	violations  int
	exhaustive  bool
	exhaustiveN int
	start       time.Time
}

func newCollector(id string) *collector {
	return &collector{id: id, nontriv: map[uint64]struct{}{}, classes: map[string]int{}, skipped: map[string]int{}, start: time.Now()}
}

func hash64(b []byte) uint64 {
	h := fnv.New64a()
	_, _ = h.Write(b)
	return h.Sum64()
}

func (c *collector) record(raw []byte, r Result) {
	c.mu.Lock()
	defer c.mu.Unlock()
	c.evals++
	if r.Sub > 0 {
		c.sub += r.Sub
	} else {
		c.sub++
	}
	for _, cl := range r.Classes {
		c.classes[cl]++
	}
	if r.Skipped != "" {
		c.skipped[r.Skipped]++
	}
	if r.Err != nil {
		c.violations++
	}
	if r.NonTrivial {
		h := hash64(raw)
		if _, ok := c.nontriv[h]; !ok {
			c.nontriv[h] = struct{}{}
			if len(c.ntSamples) < 3 && len(raw) < 6000 {
				c.ntSamples = append(c.ntSamples, append([]byte(nil), raw...))
			}
		}
	}
	if len(c.samples) < 2 && len(raw) < 6000 {
		c.samples = append(c.samples, append([]byte(nil), raw...))
	}
}

type evidenceFile struct {
	PropertyID  string         `json:"property_id"`
	Tier        string         `json:"tier"`
	Seed        int64          `json:"seed"`
	Level       string         `json:"level"`
	Coverage    map[string]any `json:"coverage"`
	Assumptions []string       `json:"assumptions,omitempty"`
	WallS       float64        `json:"wall_s"`
	Violations  int            `json:"violations"`
	// shard-only field, dropped by the driver's merge
	NontrivialHashes []string `json:"nontrivial_hashes,omitempty"`
}

func (c *collector) write(spec specMeta, seed int64) {
	c.mu.Lock()
	defer c.mu.Unlock()
	out := os.Getenv("VERIF_EVIDENCE_OUT")
	if out == "" {
		return
	}
	samples := append([]json.RawMessage{}, c.ntSamples...)
	samples = append(samples, c.samples...)
	if len(samples) == 0 {
		samples = append(samples, json.RawMessage(`"no case recorded"`))
	}
	hashes := make([]string, 0, len(c.nontriv))
	for h := range c.nontriv {
		hashes = append(hashes, strconv.FormatUint(h, 16))
	}
	sort.Strings(hashes)
	ev := evidenceFile{
		PropertyID: c.id,
		Tier:       Tier(),
		Seed:       seed,
		Level:      spec.level,
		Coverage: map[string]any{
			"evaluations":         c.evals,
			"sub_evaluations":     c.sub,
			"distinct_nontrivial": len(c.nontriv),
			"rule":                spec.rule,
			"samples":             samples,
			"classes":             c.classes,
			"skipped":             c.skipped,
			"exhaustive":          c.exhaustive,
			"exhaustive_cases":    c.exhaustiveN,
		},
		Assumptions:      spec.assumptions,
		WallS:            time.Since(c.start).Seconds(),
		Violations:       c.violations,
		NontrivialHashes: hashes,
	}
	b, err := json.MarshalIndent(ev, "", " ")
	if err != nil {
		fmt.Fprintf(os.Stderr, "evidence marshal: %v\n", err)
		return
	}
	_ = os.MkdirAll(filepath.Dir(out), 0o755)
	if err := os.WriteFile(out, b, 0o644); err != nil {
		fmt.Fprintf(os.Stderr, "evidence write: %v\n", err)
	}
}

type specMeta struct {
	level, rule string
	assumptions []string
}

func rapidSeed() int64 {
	if f := flag.Lookup("rapid.seed"); f != nil {
		if n, err := strconv.ParseInt(f.Value.String(), 10, 64); err == nil {
			return n
		}
	}
	return 0
}

// safeRun executes the runner converting a panic in the code under test into a violation.
func safeRun[C any](run func(C) Result, c C) (res Result) {
	defer func() {
		if r := recover(); r != nil {
			res.Err = fmt.Errorf("panic: %v\n%s", r, trimStack(debug.Stack()))
		}
	}()
	return run(c)
}

func trimStack(b []byte) string {
	// keep the frames of the code under test, drop the harness and runtime noise
	var keep []string
	lines := strings.Split(string(b), "\n")
	for i := 0; i+1 < len(lines); i++ {
		if strings.Contains(lines[i+1], "/repo/") || strings.Contains(lines[i+1], "openziti/storage") {
			keep = append(keep, lines[i], lines[i+1])
			i++
		}
		if len(keep) >= 16 {
			break
		}
	}
	return strings.Join(keep, "\n")
}

func failureDir(id string) string {
	return filepath.Join(envOr("VERIF_FAILDIR", filepath.Join(VerifRoot, "failures")), id)
}

func saveFailure(id string, name string, raw []byte) string {
	dir := failureDir(id)
	_ = os.MkdirAll(dir, 0o755)
	p := filepath.Join(dir, name+".json")
	_ = os.WriteFile(p, raw, 0o644)
	return p
}

// Execute runs the property: replay corpus first, then the exhaustive sub-space, then rapid.
func Execute[C any](t *testing.T, spec Spec[C]) {
	col := newCollector(spec.ID)
	rule := spec.Rule
	if more := RuleAddenda[spec.ID]; more != "" {
		rule += " " + more
	}
	meta := specMeta{level: spec.Level, rule: rule, assumptions: spec.Assumptions}
	seed := rapidSeed()
	defer col.write(meta, seed)

	runOne := func(c C) (Result, []byte) {
		raw, err := json.Marshal(c)
		if err != nil {
			t.Fatalf("case not serialisable: %v", err)
		}
		var res Result
		if spec.CaseTimeout > 0 {
			// the case runs beside a watchdog: a case of a check whose cases take milliseconds and that has not
			// returned after CaseTimeout is an engine call that does not terminate. The stuck goroutine cannot be
			// stopped, so the verdict is written and the process ends here.
			done := make(chan Result, 1)
			go func() { done <- safeRun(spec.Run, c) }()
			select {
			case res = <-done:
			case <-time.After(spec.CaseTimeout):
				path := saveFailure(spec.ID, fmt.Sprintf("stuck-%016x", hash64(raw)), raw)
				fmt.Printf("property %s violated:\nthe case did not finish within %v (cases of this check take milliseconds): an engine call does not return\ncase: %s\n", spec.ID, spec.CaseTimeout, clip(raw))
				fmt.Printf("VIOLATION property=%s replay=%s\n", spec.ID, path)
				os.Exit(1)
			}
		} else {
			res = safeRun(spec.Run, c)
		}
		col.record(raw, res)
		return res, raw
	}

	// explicit replay of one file
	if rp := os.Getenv("VERIF_REPLAY_FILE"); rp != "" {
		raw, err := os.ReadFile(rp)
		if err != nil {
			t.Fatalf("cannot read replay file: %v", err)
		}
		var c C
		if err := json.Unmarshal(raw, &c); err != nil {
			t.Fatalf("cannot decode replay file %s: %v", rp, err)
		}
		res, _ := runOne(c)
		if res.Err != nil {
			fmt.Printf("VIOLATION property=%s replay=%s\n", spec.ID, rp)
			t.Fatalf("replay %s fails:\n%v", rp, res.Err)
		}
		fmt.Printf("replay %s: property held\n", rp)
		return
	}

	// committed regression corpus
	files, _ := filepath.Glob(filepath.Join(VerifRoot, "replays", spec.ID, "*.json"))
	sort.Strings(files)
	for _, f := range files {
		raw, err := os.ReadFile(f)
		if err != nil {
			continue
		}
		var c C
		if err := json.Unmarshal(raw, &c); err != nil {
			t.Fatalf("cannot decode corpus file %s: %v", f, err)
		}
		res, _ := runOne(c)
		if res.Err != nil {
			fmt.Printf("VIOLATION property=%s replay=%s\n", spec.ID, f)
			t.Fatalf("corpus case %s fails:\n%v", f, res.Err)
		}
	}

	// bounded-exhaustive sub-space
	exh := spec.ExhaustiveQuick
	if Tier() == "thorough" && spec.Exhaustive != nil {
		exh = spec.Exhaustive
	}
	if exh != nil && envInt("VERIF_SHARD", 0) == 0 {
		failed := false
		exh(func(c C) bool {
			res, raw := runOne(c)
			col.exhaustiveN++
			if res.Err != nil {
				p := saveFailure(spec.ID, fmt.Sprintf("exh-%016x", hash64(raw)), raw)
				fmt.Printf("VIOLATION property=%s replay=%s\n", spec.ID, p)
				t.Errorf("exhaustive case fails:\n%v\ncase: %s", res.Err, clip(raw))
				failed = true
				return false
			}
			return true
		})
		if failed {
			t.FailNow()
		}
		col.exhaustive = true
	}

	if spec.Gen == nil {
		return
	}

	checks := spec.QuickChecks
	if Tier() == "thorough" {
		f := spec.ThoroughFactor
		if f <= 0 {
			f = 10
		}
		checks *= f
	}
	checks = envInt("VERIF_CHECKS", checks)
	if checks <= 0 {
		return
	}
	_ = flag.Set("rapid.checks", strconv.Itoa(checks))

	name := fmt.Sprintf("seed%d-shard%d", seed, envInt("VERIF_SHARD", 0))
	var lastPath string
	defer func() {
		if t.Failed() && lastPath != "" {
			fmt.Printf("VIOLATION property=%s replay=%s\n", spec.ID, lastPath)
		}
	}()
	rapid.Check(t, func(rt *rapid.T) {
		c := spec.Gen(rt)
		res, raw := runOne(c)
		if res.Err != nil {
			lastPath = saveFailure(spec.ID, name, raw)
			rt.Fatalf("property %s violated:\n%v\ncase: %s", spec.ID, res.Err, clip(raw))
		}
	})
}

func clip(b []byte) string {
	if len(b) > 4000 {
		return string(b[:4000]) + "…"
	}
	return string(b)
}
