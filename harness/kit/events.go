package kit

import (
	"fmt"
	"sort"
	"sync"
	"sync/atomic"
	"time"

	"github.com/openziti/storage/boltz"
)

// Event is one callback observed by the recorder.
type Event struct {
	Store string // store the listener is registered on
	Style string // listener registration style
	Type  string // created | updated | deleted | commit-action | tx-complete
	ID    string
	Info  string // rendering of the delivered entity (for state checks)
	Tag   string // transaction tag current when the callback fired (commit actions carry their own)
	// BeforeCommit is set when the callback fired while the current transaction had not yet committed
	BeforeCommit bool
}

func (e Event) Key() string { return e.Store + "|" + e.Style + "|" + e.Type + "|" + e.ID }

// Recorder collects callbacks from every listener style. Safe for concurrent use (commit actions and async
// listeners run on other goroutines).
type Recorder struct {
	mu     sync.Mutex
	events []Event
	tag    string
	// Committed, when set, reports whether the transaction currently being executed has committed
	Committed *atomic.Bool
}

func (r *Recorder) SetTag(tag string) {
	r.mu.Lock()
	r.tag = tag
	r.mu.Unlock()
}

func (r *Recorder) Add(e Event) {
	r.mu.Lock()
	if e.Tag == "" {
		e.Tag = r.tag
	}
	if r.Committed != nil && !r.Committed.Load() {
		e.BeforeCommit = true
	}
	r.events = append(r.events, e)
	r.mu.Unlock()
}

func (r *Recorder) Drain() []Event {
	r.mu.Lock()
	defer r.mu.Unlock()
	out := r.events
	r.events = nil
	return out
}

func (r *Recorder) Snapshot() []Event {
	r.mu.Lock()
	defer r.mu.Unlock()
	return append([]Event(nil), r.events...)
}

// Veto arms the pre-commit veto of the recording constraints for one (store, id, change type).
type Veto struct {
	mu    sync.Mutex
	Store string
	ID    string
	Type  string
	// NotFoundTyped: the refusal is a not-found error (a constraint that could not find something it needs)
	NotFoundTyped bool
}

func (v *Veto) Arm(store, id, typ string) {
	v.mu.Lock()
	v.Store, v.ID, v.Type = store, id, typ
	v.mu.Unlock()
}

func (v *Veto) Disarm() { v.Arm("", "", "") }

func (v *Veto) matches(store, id, typ string) bool {
	v.mu.Lock()
	defer v.mu.Unlock()
	return v.Store != "" && v.Store == store && v.ID == id && v.Type == typ
}

func changeTypeName(t boltz.EntityEventType) string {
	switch {
	case t.IsCreate():
		return "created"
	case t.IsUpdate():
		return "updated"
	case t.IsDelete():
		return "deleted"
	}
	return "?"
}

func entInfo(e boltz.Entity) string {
	switch v := e.(type) {
	case *Ent:
		if v == nil {
			return "<nil>"
		}
		return fmt.Sprintf("name=%q alias=%s roles=%q note=%q ref=%s", v.Name, strp(v.Alias), SortedSet(v.Roles), v.Note, strp(v.Ref))
	case *Kid:
		if v == nil {
			return "<nil>"
		}
		return fmt.Sprintf("name=%q alias=%s roles=%q note=%q ref=%s extra=%q", v.Name, strp(v.Alias), SortedSet(v.Roles), v.Note, strp(v.Ref), v.Extra)
	case nil:
		return "<nil>"
	}
	return fmt.Sprintf("%T", e)
}

// MEntInfo renders a model entity the way entInfo renders a delivered one (kid = child store name or "").
func MEntInfo(me *MEnt, kid string) string {
	s := fmt.Sprintf("name=%q alias=%s roles=%q note=%q ref=%s", me.Name, strp(me.Alias), me.Roles, me.Note, strp(me.Ref))
	if kid != "" {
		s += fmt.Sprintf(" extra=%q", me.Kid[kid])
	}
	return s
}

type recConstraint struct {
	store string
	rec   *Recorder
	veto  *Veto
}

func (c *recConstraint) ProcessPreCommit(state boltz.UntypedEntityChangeState) error {
	typ := changeTypeName(state.GetChangeType())
	if c.veto != nil && c.veto.matches(c.store, state.GetEntityId(), typ) {
		if c.veto.NotFoundTyped {
			return boltz.NewNotFoundError("prerequisite of "+c.store, "id", state.GetEntityId())
		}
		return fmt.Errorf("veto: %s of %s/%s refused by constraint", typ, c.store, state.GetEntityId())
	}
	return nil
}

func (c *recConstraint) ProcessPostCommit(state boltz.UntypedEntityChangeState) {
	typ := changeTypeName(state.GetChangeType())
	var ent boltz.Entity
	if typ == "deleted" {
		ent = state.GetInitialState()
	} else {
		ent = state.GetFinalState()
	}
	c.rec.Add(Event{Store: c.store, Style: "untyped-constraint", Type: typ, ID: state.GetEntityId(), Info: entInfo(ent)})
}

type typedConstraint[E boltz.Entity] struct {
	store string
	rec   *Recorder
}

func (c *typedConstraint[E]) ProcessPreCommit(*boltz.EntityChangeState[E]) error { return nil }
func (c *typedConstraint[E]) ProcessPostCommit(state *boltz.EntityChangeState[E]) {
	typ := changeTypeName(state.ChangeType)
	var ent boltz.Entity = state.FinalState
	if typ == "deleted" {
		ent = state.InitialState
	}
	c.rec.Add(Event{Store: c.store, Style: "typed-constraint", Type: typ, ID: state.EntityId, Info: entInfo(ent)})
	if typ == "updated" {
		// constraints compare the state before with the state after: the initial state is reported separately
		c.rec.Add(Event{Store: c.store, Style: "typed-constraint-initial", Type: typ, ID: state.EntityId, Info: entInfo(state.InitialState)})
	}
}

type ifaceListener[E boltz.Entity] struct {
	store, typ string
	rec        *Recorder
	style      string
}

func (l *ifaceListener[E]) HandleEntityEvent(entity E) {
	style := l.style
	if style == "" {
		style = "event-listener"
	}
	l.rec.Add(Event{Store: l.store, Style: style, Type: l.typ, ID: safeID(entity), Info: entInfo(entity)})
}

// safeID tolerates a nil entity handed to a listener (recorded as such, so the comparison fails instead of the process)
func safeID(e boltz.Entity) (id string) {
	defer func() {
		if recover() != nil {
			id = "<nil entity>"
		}
	}()
	if e == nil {
		return "<nil entity>"
	}
	return e.GetId()
}

var eventTypes = []struct {
	t    boltz.EntityEventType
	name string
}{{boltz.EntityCreated, "created"}, {boltz.EntityUpdated, "updated"}, {boltz.EntityDeleted, "deleted"}}

func installOn[E boltz.Entity](name string, st *boltz.BaseStore[E], rec *Recorder, veto *Veto) {
	for _, et := range eventTypes {
		et := et
		st.AddListener(func(e boltz.Entity) {
			rec.Add(Event{Store: name, Style: "listener", Type: et.name, ID: safeID(e), Info: entInfo(e)})
		}, et.t)
		st.AddEntityIdListener(func(id string) {
			rec.Add(Event{Store: name, Style: "id-listener", Type: et.name, ID: id})
		}, et.t)
		st.AddEntityEventListenerF(func(e E) {
			rec.Add(Event{Store: name, Style: "event-listener-f", Type: et.name, ID: safeID(e), Info: entInfo(e)})
		}, et.t)
		st.AddEntityEventListener(&ifaceListener[E]{store: name, typ: et.name, rec: rec}, et.t)
	}
	// one registration call naming all three change types (the callback cannot tell which one fired: Type "?").
	// The extra types are handed over as a slice with spare capacity that is used for every registration, the way a
	// caller keeps one "all changes" slice around.
	all := append(make([]boltz.EntityEventType, 0, 8), boltz.EntityCreated, boltz.EntityUpdated, boltz.EntityDeleted)
	st.AddListener(func(e boltz.Entity) {
		rec.Add(Event{Store: name, Style: "listener-multi", Type: "?", ID: safeID(e), Info: entInfo(e)})
	}, all[0], all[1:]...)
	st.AddEntityIdListener(func(id string) {
		rec.Add(Event{Store: name, Style: "id-listener-multi", Type: "?", ID: id})
	}, all[0], all[1:]...)
	st.AddEntityEventListenerF(func(e E) {
		rec.Add(Event{Store: name, Style: "event-listener-f-multi", Type: "?", ID: safeID(e), Info: entInfo(e)})
	}, all[0], all[1:]...)
	st.AddEntityEventListener(&ifaceListener[E]{store: name, typ: "?", rec: rec, style: "event-listener-multi"}, all[0], all[1:]...)
	st.AddEntityConstraint(&typedConstraint[E]{store: name, rec: rec})
	st.AddUntypedEntityConstraint(&recConstraint{store: name, rec: rec, veto: veto})
}

// ListenerStyles lists the registration styles installed by InstallRecorders (each for all three change types).
var ListenerStyles = []string{"listener", "id-listener", "event-listener-f", "event-listener", "typed-constraint", "untyped-constraint"}

// MultiStyles are the registrations made with one call naming all three change types; their events carry Type "?".
var MultiStyles = []string{"listener-multi", "id-listener-multi", "event-listener-f-multi", "event-listener-multi"}

// InstallRecorders registers a listener of every style for every change type on every store of the world,
// plus a tx-complete listener on the database.
func (w *World) InstallRecorders(rec *Recorder, veto *Veto) {
	w.InstallRecordersOn(rec, veto, true)
}

// InstallRecordersOn is InstallRecorders; with kids=false the child stores get no listener or constraint at all
// (an application often hangs its rules on the parent store only).
func (w *World) InstallRecordersOn(rec *Recorder, veto *Veto, kids bool) {
	for name, st := range w.Stores {
		installOn(name, st, rec, veto)
	}
	for name, ks := range w.Kids {
		if kids {
			installOn(name, ks, rec, veto)
		}
	}
	w.Z.Db.AddTxCompleteListener(func(ctx boltz.MutateContext) {
		rec.Add(Event{Type: "tx-complete", Style: "db"})
	})
}

// Barrier commits a no-op transaction with its own commit action and waits for that action, so that every
// callback belonging to earlier transactions has had the chance to run.
func (w *World) Barrier() error {
	done := make(chan struct{})
	err := w.Z.Db.Update(NewCtx(), func(ctx boltz.MutateContext) error {
		ctx.AddCommitAction(func() { close(done) })
		return nil
	})
	if err != nil {
		return fmt.Errorf("barrier transaction failed: %v", err)
	}
	select {
	case <-done:
	case <-time.After(10 * time.Second):
		return fmt.Errorf("barrier commit action not delivered within 10s")
	}
	time.Sleep(200 * time.Microsecond)
	return nil
}

// EventMultiset turns events into a sorted multiset rendering for comparison.
func EventMultiset(evs []Event, withInfo bool) []string {
	var out []string
	for _, e := range evs {
		s := e.Key()
		if withInfo && e.Info != "" {
			s += " {" + e.Info + "}"
		}
		out = append(out, s)
	}
	sort.Strings(out)
	return out
}
