package kit

import (
	"strconv"
	"strings"
	"time"

	"github.com/openziti/storage/ast"
)

// MemSymbols is the harness's own implementation of ast.Symbols over a Dataset row. It lets a parsed
// query be evaluated by the ast package alone (no boltz), which gives an independent route for C01/C10/C11/C12.
type MemSymbols struct {
	D        *Dataset
	Kind     string // "people" | "places"
	RowID    string
	cursors  map[string]*memCursor
	Seekable bool // hand out cursors implementing TypeSeekableSetCursor
}

type memTypes struct{ kind string }

var peopleTypes = map[string]ast.NodeType{
	"id": ast.NodeTypeString, "sa": ast.NodeTypeString, "sb": ast.NodeTypeString,
	"ia": ast.NodeTypeInt64, "ib": ast.NodeTypeInt64, "fa": ast.NodeTypeFloat64,
	"ba": ast.NodeTypeBool, "ta": ast.NodeTypeDatetime,
	"fx": ast.NodeTypeString, "bx": ast.NodeTypeBool, // function symbols (values only where a dataset copy carries them in F)
	"roles": ast.NodeTypeString, "nums": ast.NodeTypeString,
	"boss": ast.NodeTypeString, "home": ast.NodeTypeString, "places": ast.NodeTypeString, "peers": ast.NodeTypeString,
}
var peopleSets = map[string]bool{"roles": true, "nums": true, "places": true, "peers": true}
var peopleLinks = map[string]string{"boss": "people", "home": "places", "places": "places", "peers": "people"}

var placesTypes = map[string]ast.NodeType{
	"id": ast.NodeTypeString, "name": ast.NodeTypeString, "n": ast.NodeTypeInt64,
	"businesses": ast.NodeTypeString, "people": ast.NodeTypeString,
}
var placesSets = map[string]bool{"businesses": true, "people": true}
var placesLinks = map[string]string{"people": "people"}

type symInfo struct {
	typ   ast.NodeType
	isSet bool
	link  string // linked kind of the final hop ("" if none)
}

func resolveSym(kind, name string) (symInfo, bool) {
	parts := strings.Split(name, ".")
	cur := kind
	anySet := false
	for i, p := range parts {
		types, sets, links := peopleTypes, peopleSets, peopleLinks
		if cur == "places" {
			types, sets, links = placesTypes, placesSets, placesLinks
		}
		if cur == "people" && p == "tags" {
			if i == len(parts)-1 {
				return symInfo{}, false
			}
			return symInfo{typ: ast.NodeTypeAnyType, isSet: anySet}, true
		}
		t, ok := types[p]
		if !ok {
			return symInfo{}, false
		}
		if sets[p] {
			anySet = true
		}
		if i == len(parts)-1 {
			return symInfo{typ: t, isSet: anySet, link: links[p]}, true
		}
		l, ok := links[p]
		if !ok {
			return symInfo{}, false
		}
		cur = l
	}
	return symInfo{}, false
}

func (m memTypes) GetSymbolType(name string) (ast.NodeType, bool) {
	si, ok := resolveSym(m.kind, name)
	return si.typ, ok
}
func (m memTypes) IsSet(name string) (bool, bool) {
	si, ok := resolveSym(m.kind, name)
	return si.isSet, ok
}
func (m memTypes) GetSetSymbolTypes(name string) ast.SymbolTypes {
	si, ok := resolveSym(m.kind, name)
	if !ok || si.link == "" {
		return nil
	}
	return memTypes{kind: si.link}
}

// MemTypes returns the harness's own ast.SymbolTypes for the scan schema.
func MemTypes(kind string) ast.SymbolTypes { return memTypes{kind: kind} }

func NewMemSymbols(d *Dataset, kind, rowID string, seekable bool) *MemSymbols {
	return &MemSymbols{D: d, Kind: kind, RowID: rowID, cursors: map[string]*memCursor{}, Seekable: seekable}
}

func (m *MemSymbols) GetSymbolType(name string) (ast.NodeType, bool) {
	return memTypes{m.Kind}.GetSymbolType(name)
}
func (m *MemSymbols) IsSet(name string) (bool, bool) { return memTypes{m.Kind}.IsSet(name) }
func (m *MemSymbols) GetSetSymbolTypes(name string) ast.SymbolTypes {
	return memTypes{m.Kind}.GetSetSymbolTypes(name)
}

// scalarOf resolves a (possibly dotted) non-set symbol for a row.
func (m *MemSymbols) scalarOf(kind, rowID string, parts []string) Val {
	if kind == "people" {
		p := m.D.PersonByID(rowID)
		if parts[0] == "id" {
			if len(parts) == 1 {
				return SV(rowID)
			}
			return NullV()
		}
		if p == nil {
			return NullV()
		}
		if parts[0] == "tags" {
			if p.NoTags {
				return NullV()
			}
			if len(parts) == 4 && parts[1] == "sub" && parts[2] == "deep" {
				v, ok := p.DeepTags[parts[3]]
				if !ok {
					return NullV()
				}
				return v
			}
			if len(parts) == 3 && parts[1] == "sub" {
				v, ok := p.SubTags[parts[2]]
				if !ok {
					return NullV()
				}
				return v
			}
			if len(parts) != 2 {
				return NullV()
			}
			v, ok := p.Tags[parts[1]]
			if !ok {
				return NullV()
			}
			return v
		}
		v, ok := p.F[parts[0]]
		if !ok || v.IsNull() {
			return NullV()
		}
		if len(parts) == 1 {
			return v
		}
		if parts[0] == "boss" {
			return m.scalarOf("people", v.S, parts[1:])
		}
		if parts[0] == "home" {
			return m.scalarOf("places", v.S, parts[1:])
		}
		return NullV()
	}
	pl := m.D.PlaceByID(rowID)
	if parts[0] == "id" {
		return SV(rowID)
	}
	if pl == nil {
		return NullV()
	}
	switch parts[0] {
	case "name":
		return pl.Name
	case "n":
		return pl.N
	}
	return NullV()
}

// elemsOf resolves a (possibly dotted) set symbol into its element multiset in engine order.
func (m *MemSymbols) elemsOf(kind, rowID string, parts []string) []Val {
	return ElemsOf(m.D, kind, rowID, parts)
}

// ElemsOf follows a dotted path that contains at least one set hop and returns the elements in the
// order a depth-first walk produces them (each hop's set in byte order).
func ElemsOf(d *Dataset, kind, rowID string, parts []string) []Val {
	ms := &MemSymbols{D: d}
	getSet := func(kind, rowID, field string) (StrSet, bool) {
		if kind == "people" {
			p := d.PersonByID(rowID)
			if p == nil {
				return StrSet{}, false
			}
			switch field {
			case "roles":
				return p.Roles, true
			case "nums":
				return p.Nums, true
			case "places":
				return p.Places, true
			case "peers":
				return p.Peers, true
			}
			return StrSet{}, false
		}
		pl := d.PlaceByID(rowID)
		if pl == nil {
			return StrSet{}, false
		}
		switch field {
		case "businesses":
			return pl.Businesses, true
		case "people":
			return pl.People, true
		}
		return StrSet{}, false
	}
	links := peopleLinks
	sets := peopleSets
	if kind == "places" {
		links, sets = placesLinks, placesSets
	}
	head := parts[0]
	if sets[head] {
		set, _ := getSet(kind, rowID, head)
		elems := set.Sorted()
		if len(parts) == 1 {
			out := make([]Val, 0, len(elems))
			for _, e := range elems {
				out = append(out, SV(e))
			}
			return out
		}
		var out []Val
		for _, e := range elems {
			rest := parts[1:]
			out = append(out, restOf(ms, d, links[head], e, rest)...)
		}
		return out
	}
	// scalar fk hop
	v := ms.scalarOf(kind, rowID, []string{head})
	if v.IsNull() || len(parts) == 1 {
		return nil
	}
	return restOf(ms, d, links[head], v.S, parts[1:])
}

func restOf(ms *MemSymbols, d *Dataset, kind, rowID string, rest []string) []Val {
	si, _ := resolveSym(kind, strings.Join(rest, "."))
	if si.isSet {
		return ElemsOf(d, kind, rowID, rest)
	}
	if len(rest) == 1 && rest[0] == "id" {
		return []Val{SV(rowID)}
	}
	return []Val{ms.scalarOf(kind, rowID, rest)}
}

type memCursor struct {
	elems []Val
	pos   int
}

func (c *memCursor) Next() {
	if c.pos < len(c.elems) {
		c.pos++
	}
}
func (c *memCursor) IsValid() bool { return c.pos < len(c.elems) }
func (c *memCursor) Current() []byte {
	if !c.IsValid() {
		return nil
	}
	v := c.elems[c.pos]
	if v.K == "s" {
		return []byte(v.S)
	}
	return nil
}

type memSeekCursor struct{ *memCursor }

func (c memSeekCursor) Seek(val []byte) { c.SeekToString(string(val)) }
func (c memSeekCursor) SeekToString(val string) {
	c.pos = len(c.elems)
	for i, e := range c.elems {
		if e.K == "s" && e.S >= val {
			c.pos = i
			return
		}
	}
}

func (m *MemSymbols) current(name string) (Val, bool) {
	if c, ok := m.cursors[name]; ok {
		if c.IsValid() {
			return c.elems[c.pos], true
		}
		return NullV(), true
	}
	return Val{}, false
}

func (m *MemSymbols) val(name string) Val {
	if v, ok := m.current(name); ok {
		return v
	}
	return m.scalarOf(m.Kind, m.RowID, strings.Split(name, "."))
}

func (m *MemSymbols) EvalBool(name string) *bool {
	v := m.val(name)
	if v.K == "b" {
		b := v.B
		return &b
	}
	return nil
}

func (m *MemSymbols) EvalString(name string) *string {
	v := m.val(name)
	var s string
	switch v.K {
	case "s":
		s = v.S
	case "i", "i32":
		s = strconv.FormatInt(v.I, 10)
	case "f":
		s = strconv.FormatFloat(v.F, 'f', -1, 64)
	case "b":
		s = strconv.FormatBool(v.B)
	case "t":
		b, _ := v.Time().UTC().MarshalText()
		s = string(b)
	default:
		return nil
	}
	return &s
}

func (m *MemSymbols) EvalInt64(name string) *int64 {
	v := m.val(name)
	if v.K == "i" || v.K == "i32" {
		i := v.I
		return &i
	}
	return nil
}

func (m *MemSymbols) EvalFloat64(name string) *float64 {
	v := m.val(name)
	switch v.K {
	case "i", "i32":
		f := float64(v.I)
		return &f
	case "f":
		f := v.F
		return &f
	}
	return nil
}

func (m *MemSymbols) EvalDatetime(name string) *time.Time {
	v := m.val(name)
	if v.K == "t" {
		t := v.Time()
		return &t
	}
	return nil
}

func (m *MemSymbols) IsNil(name string) bool {
	return m.val(name).IsNull()
}

func (m *MemSymbols) OpenSetCursor(name string) ast.SetCursor {
	elems := m.elemsOf(m.Kind, m.RowID, strings.Split(name, "."))
	c := &memCursor{elems: elems}
	m.cursors[name] = c
	if m.Seekable {
		allStr := true
		for _, e := range elems {
			if e.K != "s" {
				allStr = false
			}
		}
		if allStr && !strings.Contains(name, ".") {
			return memSeekCursor{c}
		}
	}
	return c
}

func (m *MemSymbols) OpenSetCursorForQuery(name string, query ast.Query) ast.SetCursor {
	si, _ := resolveSym(m.Kind, name)
	elems := m.elemsOf(m.Kind, m.RowID, strings.Split(name, "."))
	var keep []Val
	for _, e := range elems {
		if e.K != "s" {
			continue
		}
		sub := NewMemSymbols(m.D, si.link, e.S, m.Seekable)
		if query.EvalBool(sub) {
			keep = append(keep, e)
		}
	}
	return &memCursor{elems: keep}
}
