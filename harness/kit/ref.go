package kit

import (
	"fmt"
	"sort"
	"strconv"
	"strings"

	"github.com/openziti/storage/ast"
)

// ---------------------------------------------------------------------------------------------
// Reference AST: an independent description of a filter, rendered to ZitiQL text for the engine and
// interpreted directly (no ast package evaluation) by the reference evaluator below.
// ---------------------------------------------------------------------------------------------

type LHS struct {
	Fn  string `json:"fn,omitempty"` // "" scalar symbol | anyOf | allOf | count
	Sym string `json:"sym"`
	Sub *Expr  `json:"sub,omitempty"` // count(from Sym where Sub)
	// SubSort: optional "sort by" inside the sub-query (no effect on membership; it references symbols)
	SubSort []SortKey `json:"subSort,omitempty"`
}

type Expr struct {
	Op    string   `json:"op"` // and or not true false cmp in between contains isnull boolsym isempty
	Kids  []*Expr  `json:"kids,omitempty"`
	L     *LHS     `json:"l,omitempty"`
	Cmp   string   `json:"cmp,omitempty"`   // = != < <= > >=
	Neg   bool     `json:"neg,omitempty"`   // not in / not between / not contains / != null
	ICase bool     `json:"icase,omitempty"` // icontains
	C     []Val    `json:"c,omitempty"`     // constants; Val.K in s i f b t
	Txt   []string `json:"txt,omitempty"`   // optional literal text overriding the canonical rendering of C[i]
}

func QuoteZql(s string) string {
	var b strings.Builder
	b.WriteByte('"')
	for _, r := range s {
		switch r {
		case '\\':
			b.WriteString(`\\`)
		case '"':
			b.WriteString(`\"`)
		case '\n':
			b.WriteString(`\n`)
		case '\t':
			b.WriteString(`\t`)
		case '\r':
			b.WriteString(`\r`)
		case '\f':
			b.WriteString(`\f`)
		default:
			b.WriteRune(r)
		}
	}
	b.WriteByte('"')
	return b.String()
}

func RenderConst(v Val) string {
	switch v.K {
	case "s":
		return QuoteZql(v.S)
	case "i":
		return strconv.FormatInt(v.I, 10)
	case "f":
		s := strconv.FormatFloat(v.F, 'f', -1, 64)
		if !strings.ContainsAny(s, ".") {
			s += ".0"
		}
		return s
	case "b":
		return strconv.FormatBool(v.B)
	case "t":
		return "datetime(" + v.T + ")"
	}
	panic("bad const kind " + v.K)
}

func (e *Expr) constText(i int) string {
	if i < len(e.Txt) && e.Txt[i] != "" {
		return e.Txt[i]
	}
	return RenderConst(e.C[i])
}

func (l *LHS) subSortText() string {
	if len(l.SubSort) == 0 {
		return ""
	}
	var ks []string
	for _, k := range l.SubSort {
		s := k.Sym
		if k.Dir != "" {
			s += " " + k.Dir
		}
		ks = append(ks, s)
	}
	return " sort by " + strings.Join(ks, ", ")
}

func (l *LHS) Render() string {
	switch l.Fn {
	case "":
		return l.Sym
	case "count":
		if l.Sub != nil {
			return "count(from " + l.Sym + " where " + l.Sub.Render() + l.subSortText() + ")"
		}
		return "count(" + l.Sym + ")"
	default:
		return l.Fn + "(" + l.Sym + ")"
	}
}

// Render produces ZitiQL text; connectives are always fully parenthesised.
func (e *Expr) Render() string {
	switch e.Op {
	case "and", "or":
		parts := make([]string, len(e.Kids))
		for i, k := range e.Kids {
			parts[i] = "(" + k.Render() + ")"
		}
		return strings.Join(parts, " "+e.Op+" ")
	case "not":
		return "not (" + e.Kids[0].Render() + ")"
	case "true", "false":
		return e.Op
	case "boolsym":
		return e.L.Sym
	case "cmp":
		return e.L.Render() + " " + e.Cmp + " " + e.constText(0)
	case "in":
		parts := make([]string, len(e.C))
		for i := range e.C {
			parts[i] = e.constText(i)
		}
		op := " in "
		if e.Neg {
			op = " not in "
		}
		return e.L.Render() + op + "[" + strings.Join(parts, ", ") + "]"
	case "between":
		op := " between "
		if e.Neg {
			op = " not between "
		}
		return e.L.Render() + op + e.constText(0) + " and " + e.constText(1)
	case "contains":
		op := "contains"
		if e.ICase {
			op = "icontains"
		}
		if e.Neg {
			op = "not " + op
		}
		return e.L.Render() + " " + op + " " + e.constText(0)
	case "isnull":
		if e.Neg {
			return e.L.Sym + " != null"
		}
		return e.L.Sym + " = null"
	case "isempty":
		if e.L.Sub != nil {
			return "isEmpty(from " + e.L.Sym + " where " + e.L.Sub.Render() + e.L.subSortText() + ")"
		}
		return "isEmpty(" + e.L.Sym + ")"
	}
	panic("bad op " + e.Op)
}

// Walk visits every node of the expression, including sub-query predicates.
func (e *Expr) Walk(f func(*Expr)) {
	f(e)
	for _, k := range e.Kids {
		k.Walk(f)
	}
	if e.L != nil && e.L.Sub != nil {
		e.L.Sub.Walk(f)
	}
}

func (e *Expr) Clone() *Expr {
	c := *e
	c.Kids = nil
	for _, k := range e.Kids {
		c.Kids = append(c.Kids, k.Clone())
	}
	if e.L != nil {
		l := *e.L
		if l.Sub != nil {
			l.Sub = l.Sub.Clone()
		}
		c.L = &l
	}
	c.C = append([]Val(nil), e.C...)
	c.Txt = append([]string(nil), e.Txt...)
	return &c
}

// ---------------------------------------------------------------------------------------------
// Reference evaluator (documented semantics, written from the property statement).
// ---------------------------------------------------------------------------------------------

// Tri is a three-valued truth value: the reference evaluator answers Unknown wherever the property does
// not pin the semantics down (see the list in DESIGN.md), and Unknown propagates through the connectives
// (Kleene logic), so a row is only asserted when its answer does not depend on an unspecified point.
type Tri int8

const (
	False   Tri = 0
	True    Tri = 1
	Unknown Tri = 2
)

func triOf(b bool) Tri {
	if b {
		return True
	}
	return False
}

func (t Tri) not() Tri {
	switch t {
	case True:
		return False
	case False:
		return True
	}
	return Unknown
}

// RefEval evaluates expressions over a Dataset.
type RefEval struct {
	D *Dataset
}

func declKind(t ast.NodeType) string {
	switch t {
	case ast.NodeTypeString:
		return "s"
	case ast.NodeTypeInt64:
		return "i"
	case ast.NodeTypeFloat64:
		return "f"
	case ast.NodeTypeBool:
		return "b"
	case ast.NodeTypeDatetime:
		return "t"
	case ast.NodeTypeAnyType:
		return "any"
	}
	return "?"
}

// DeclKind returns the declared kind ("s","i","f","b","t","any") and set-ness of a symbol in the scan schema.
func DeclKind(kind, sym string) (string, bool, bool) {
	si, ok := resolveSym(kind, sym)
	if !ok {
		return "", false, false
	}
	return declKind(si.typ), si.isSet, true
}

func numKind(cs []Val) string {
	k := "i"
	for _, c := range cs {
		if c.K == "f" {
			k = "f"
		}
	}
	return k
}

// domain decides in which value domain an atom compares, from the declared kind of the left side and the constants.
func domain(decl string, e *Expr) string {
	ck := e.C[0].K
	switch e.Op {
	case "contains":
		return "s"
	case "cmp":
		if decl == "any" {
			return ck
		}
		if decl == "s" {
			return "s"
		}
		if decl == "i" && ck == "f" {
			return "f"
		}
		return decl
	case "in":
		if ck == "s" {
			return "s"
		}
		if ck == "t" {
			return "t"
		}
		nk := numKind(e.C)
		switch decl {
		case "s":
			return "s"
		case "i", "any":
			return nk
		case "f":
			return "f"
		}
		return decl
	case "between":
		if ck == "t" {
			return "t"
		}
		if decl == "i" || decl == "any" {
			return numKind(e.C)
		}
		return "f"
	}
	return decl
}

type dval struct {
	null   bool
	unspec bool
	s      string
	i      int64
	f      float64
	b      bool
	t      int64 // unix nanos are not enough for far dates; compare via time below
	tv     Val
}

func canonNum(v Val) string {
	if v.K == "f" {
		return strconv.FormatFloat(v.F, 'f', -1, 64)
	}
	return strconv.FormatInt(v.I, 10)
}

// toDomain converts a stored value / constant into the comparison domain.
// fromAny: the left side is an AnyType map element (cross-kind conversions other than the documented
// int->float and number->string coercions are unspecified there).
func toDomain(v Val, dom string) dval {
	if v.IsNull() {
		return dval{null: true}
	}
	switch dom {
	case "s":
		switch v.K {
		case "s":
			return dval{s: v.S}
		case "i", "i32", "f":
			return dval{s: canonNum(v)}
		}
		return dval{unspec: true}
	case "i":
		if v.K == "i" || v.K == "i32" {
			return dval{i: v.I}
		}
		return dval{unspec: true}
	case "f":
		switch v.K {
		case "i", "i32":
			return dval{f: float64(v.I)}
		case "f":
			return dval{f: v.F}
		}
		return dval{unspec: true}
	case "b":
		if v.K == "b" {
			return dval{b: v.B}
		}
		return dval{unspec: true}
	case "t":
		if v.K == "t" {
			return dval{tv: v}
		}
		return dval{unspec: true}
	}
	return dval{unspec: true}
}

func cmpDom(dom string, a, b dval) int {
	switch dom {
	case "s":
		return strings.Compare(a.s, b.s)
	case "i":
		switch {
		case a.i < b.i:
			return -1
		case a.i > b.i:
			return 1
		}
		return 0
	case "f":
		switch {
		case a.f < b.f:
			return -1
		case a.f > b.f:
			return 1
		}
		return 0
	case "b":
		if a.b == b.b {
			return 0
		}
		if !a.b {
			return -1
		}
		return 1
	case "t":
		return a.tv.Time().Compare(b.tv.Time())
	}
	panic("bad domain")
}

// atomOnValue evaluates a comparison atom on one left-hand value.
func (r *RefEval) atomOnValue(v Val, decl string, e *Expr) Tri {
	dom := domain(decl, e)
	neg := e.Neg
	lv := toDomain(v, dom)
	if lv.unspec {
		return Unknown
	}
	switch e.Op {
	case "cmp":
		if lv.null {
			return triOf(e.Cmp == "!=")
		}
		c := cmpDom(dom, lv, toDomain(e.C[0], dom))
		switch e.Cmp {
		case "=":
			return triOf(c == 0)
		case "!=":
			return triOf(c != 0)
		case "<":
			return triOf(c < 0)
		case "<=":
			return triOf(c <= 0)
		case ">":
			return triOf(c > 0)
		case ">=":
			return triOf(c >= 0)
		}
	case "in":
		if lv.null {
			return triOf(neg)
		}
		found := false
		for _, c := range e.C {
			if cmpDom(dom, lv, toDomain(c, dom)) == 0 {
				found = true
			}
		}
		return triOf(found != neg)
	case "between":
		if lv.null {
			return triOf(neg)
		}
		in := cmpDom(dom, lv, toDomain(e.C[0], dom)) >= 0 && cmpDom(dom, lv, toDomain(e.C[1], dom)) < 0
		return triOf(in != neg)
	case "contains":
		if lv.null {
			return triOf(neg)
		}
		cs := toDomain(e.C[0], "s").s
		ls := lv.s
		if e.ICase {
			cs, ls = strings.ToUpper(cs), strings.ToUpper(ls)
		}
		return triOf(strings.Contains(ls, cs) != neg)
	}
	panic("bad atom " + e.Op)
}

func (r *RefEval) scalar(kind, rowID, sym string) Val {
	ms := &MemSymbols{D: r.D}
	return ms.scalarOf(kind, rowID, strings.Split(sym, "."))
}

func (r *RefEval) elems(kind, rowID, sym string) []Val {
	return ElemsOf(r.D, kind, rowID, strings.Split(sym, "."))
}

func (r *RefEval) rowExists(kind, id string) bool {
	if kind == "people" {
		return r.D.PersonByID(id) != nil
	}
	return r.D.PlaceByID(id) != nil
}

type triElem struct {
	v  Val
	in Tri
}

// setElems returns the elements a set expression (plain symbol or sub-query) ranges over, each with a
// three-valued membership (a dangling member of a link set inside a sub-query is Unknown).
func (r *RefEval) setElems(kind, rowID string, l *LHS) []triElem {
	elems := r.elems(kind, rowID, l.Sym)
	var out []triElem
	if l.Sub == nil {
		for _, e := range elems {
			out = append(out, triElem{e, True})
		}
		return out
	}
	si, _ := resolveSym(kind, l.Sym)
	for _, e := range elems {
		if e.K != "s" {
			continue
		}
		if !r.rowExists(si.link, e.S) {
			out = append(out, triElem{e, Unknown})
			continue
		}
		if m := r.Eval(si.link, e.S, l.Sub); m != False {
			out = append(out, triElem{e, m})
		}
	}
	return out
}

// countCandidates lists every count the documented semantics allow: with multiplicity or distinct
// (a dotted path can reach the same value twice), and with Unknown members in or out.
func countCandidates(elems []triElem) []int64 {
	yes, maybe := 0, 0
	dyes, dall := map[string]bool{}, map[string]bool{}
	for _, e := range elems {
		k := e.v.K + "|" + e.v.String()
		dall[k] = true
		if e.in == True {
			yes++
			dyes[k] = true
		} else {
			maybe++
		}
	}
	set := map[int64]bool{}
	for n := yes; n <= yes+maybe; n++ {
		set[int64(n)] = true
	}
	for n := len(dyes); n <= len(dall); n++ {
		set[int64(n)] = true
	}
	var out []int64
	for n := range set {
		out = append(out, n)
	}
	sort.Slice(out, func(i, j int) bool { return out[i] < out[j] })
	return out
}

// Eval evaluates e for one row.
func (r *RefEval) Eval(kind, rowID string, e *Expr) Tri {
	switch e.Op {
	case "and":
		res := True
		for _, k := range e.Kids {
			switch r.Eval(kind, rowID, k) {
			case False:
				return False
			case Unknown:
				res = Unknown
			}
		}
		return res
	case "or":
		res := False
		for _, k := range e.Kids {
			switch r.Eval(kind, rowID, k) {
			case True:
				return True
			case Unknown:
				res = Unknown
			}
		}
		return res
	case "not":
		return r.Eval(kind, rowID, e.Kids[0]).not()
	case "true":
		return True
	case "false":
		return False
	case "boolsym":
		v := r.scalar(kind, rowID, e.L.Sym)
		return triOf(v.K == "b" && v.B)
	case "isnull":
		return triOf(r.scalar(kind, rowID, e.L.Sym).IsNull() != e.Neg)
	case "isempty":
		yes, maybe := 0, 0
		for _, el := range r.setElems(kind, rowID, e.L) {
			if el.in == True {
				yes++
			} else {
				maybe++
			}
		}
		if yes > 0 {
			return False
		}
		if maybe == 0 {
			return True
		}
		return Unknown
	case "cmp", "in", "between", "contains":
		decl, _, _ := DeclKind(kind, e.L.Sym)
		switch e.L.Fn {
		case "":
			return r.atomOnValue(r.scalar(kind, rowID, e.L.Sym), decl, e)
		case "count":
			cands := countCandidates(r.setElems(kind, rowID, e.L))
			res := r.atomOnValue(IV(cands[0]), "i", e)
			for _, c := range cands[1:] {
				if r.atomOnValue(IV(c), "i", e) != res {
					return Unknown
				}
			}
			return res
		case "anyOf", "allOf":
			elems := r.elems(kind, rowID, e.L.Sym)
			quant := func(atom *Expr) Tri {
				if e.L.Fn == "anyOf" {
					res := False
					for _, el := range elems {
						switch r.atomOnValue(el, decl, atom) {
						case True:
							return True
						case Unknown:
							res = Unknown
						}
					}
					return res
				}
				res := True
				for _, el := range elems {
					switch r.atomOnValue(el, decl, atom) {
					case False:
						return False
					case Unknown:
						res = Unknown
					}
				}
				return res
			}
			if e.Neg && (e.Op == "in" || e.Op == "between") {
				// "anyOf(S) not in [..]": negation of the whole set function, or per element? The property
				// does not say; asserted only when both readings agree.
				pos := *e
				pos.Neg = false
				outer := quant(&pos).not()
				inner := quant(e)
				if outer == inner {
					return outer
				}
				return Unknown
			}
			return quant(e)
		}
	}
	panic("bad expr " + e.Op)
}

// MatchIDs evaluates e over every row of the given kind: ids that definitely match and ids whose answer
// is not pinned down by the documented semantics.
func (r *RefEval) MatchIDs(kind string, e *Expr) (yes []string, unknown []string) {
	var ids []string
	if kind == "people" {
		for _, p := range r.D.People {
			ids = append(ids, p.ID)
		}
	} else {
		for _, p := range r.D.Places {
			ids = append(ids, p.ID)
		}
	}
	sort.Strings(ids)
	for _, id := range ids {
		switch r.Eval(kind, id, e) {
		case True:
			yes = append(yes, id)
		case Unknown:
			unknown = append(unknown, id)
		}
	}
	return yes, unknown
}

// RefMatch returns the ids that must match and the ids that may or may not match.
func RefMatch(d *Dataset, kind string, e *Expr) (must []string, may []string) {
	return (&RefEval{D: d}).MatchIDs(kind, e)
}

// CheckAnswer compares an engine answer with the reference: must ⊆ got ⊆ must ∪ may, no duplicates.
func CheckAnswer(got, must, may []string) error {
	seen := map[string]bool{}
	for _, g := range got {
		if seen[g] {
			return fmt.Errorf("id %q returned twice", g)
		}
		seen[g] = true
	}
	allowed := map[string]bool{}
	for _, m := range must {
		allowed[m] = true
		if !seen[m] {
			return fmt.Errorf("matching id %q omitted", m)
		}
	}
	for _, m := range may {
		allowed[m] = true
	}
	for _, g := range got {
		if !allowed[g] {
			return fmt.Errorf("non-matching id %q returned", g)
		}
	}
	return nil
}
