package kit

import (
	"fmt"
	"sort"
	"strings"
)

// SortKey is one "field [asc|desc]" element of a sort specification.
type SortKey struct {
	Sym  string `json:"sym"`
	Desc bool   `json:"desc,omitempty"`
	// Dir: how the direction is spelled: "" (omitted, ascending), "asc", "desc", or a case variant
	Dir string `json:"dir,omitempty"`
}

// Paging describes skip and limit. Nil pointers mean the clause is absent; LimitNone renders "limit none".
type Paging struct {
	Skip      *int64 `json:"skip,omitempty"`
	Limit     *int64 `json:"limit,omitempty"`
	LimitNone bool   `json:"limitNone,omitempty"`
}

// QuerySpec is a full query: optional predicate, sort, paging.
type QuerySpec struct {
	Kind string    `json:"kind"`
	Pred *Expr     `json:"pred,omitempty"`
	Sort []SortKey `json:"sort,omitempty"`
	Page Paging    `json:"page"`
	// Via: "" = the store itself, "staff" = the child store (only people with child data), "staffx" = the extended child store (everyone)
	Via string `json:"via,omitempty"`
}

func (q *QuerySpec) Render() string {
	var parts []string
	if q.Pred != nil {
		parts = append(parts, q.Pred.Render())
	}
	if len(q.Sort) > 0 {
		var ks []string
		for _, k := range q.Sort {
			s := k.Sym
			if k.Dir != "" {
				s += " " + k.Dir
			}
			ks = append(ks, s)
		}
		parts = append(parts, "sort by "+strings.Join(ks, ", "))
	}
	if q.Page.Skip != nil {
		parts = append(parts, fmt.Sprintf("skip %d", *q.Page.Skip))
	}
	if q.Page.LimitNone {
		parts = append(parts, "limit none")
	} else if q.Page.Limit != nil {
		parts = append(parts, fmt.Sprintf("limit %d", *q.Page.Limit))
	}
	return strings.Join(parts, " ")
}

// compareVals orders two values of the same declared kind: null first, then by value.
func compareVals(a, b Val, decl string) int {
	if a.IsNull() || b.IsNull() {
		switch {
		case a.IsNull() && b.IsNull():
			return 0
		case a.IsNull():
			return -1
		}
		return 1
	}
	dom := decl
	return cmpDom(dom, toDomain(a, dom), toDomain(b, dom))
}

// RefOrder sorts ids of the given kind by the sort keys, ties broken by id ascending.
func RefOrder(d *Dataset, kind string, ids []string, keys []SortKey) []string {
	out := append([]string(nil), ids...)
	ms := &MemSymbols{D: d}
	sort.SliceStable(out, func(i, j int) bool {
		for _, k := range keys {
			decl, _, _ := DeclKind(kind, k.Sym)
			a := ms.scalarOf(kind, out[i], []string{k.Sym})
			b := ms.scalarOf(kind, out[j], []string{k.Sym})
			c := compareVals(a, b, decl)
			if k.Desc {
				c = -c
			}
			if c != 0 {
				return c < 0
			}
		}
		return out[i] < out[j]
	})
	return out
}

// RefPage applies skip and limit as the property states them.
func RefPage(ids []string, p Paging) []string {
	skip := int64(0)
	if p.Skip != nil && *p.Skip > 0 {
		skip = *p.Skip
	}
	if skip >= int64(len(ids)) {
		return nil
	}
	out := ids[skip:]
	if !p.LimitNone && p.Limit != nil && *p.Limit >= 0 && *p.Limit < int64(len(out)) {
		out = out[:*p.Limit]
	}
	return append([]string(nil), out...)
}
