package kit

import (
	"bytes"
	"fmt"
	"sort"

	"github.com/openziti/storage/ast"
	"github.com/openziti/storage/boltz"
	"go.etcd.io/bbolt"
)

// rawBucket walks root/... with plain bbolt calls.
func rawBucket(tx *bbolt.Tx, path ...string) *bbolt.Bucket {
	if len(path) == 0 {
		return nil
	}
	b := tx.Bucket([]byte(path[0]))
	for _, p := range path[1:] {
		if b == nil {
			return nil
		}
		b = b.Bucket([]byte(p))
	}
	return b
}

func typedIDs(b *bbolt.Bucket) ([]string, error) {
	var out []string
	if b == nil {
		return nil, nil
	}
	err := b.ForEach(func(k, v []byte) error {
		if len(k) < 1 || k[0] != byte(boltz.TypeString) {
			return fmt.Errorf("key %q is not a string-typed id", k)
		}
		out = append(out, string(k[1:]))
		return nil
	})
	sort.Strings(out)
	return out, err
}

// CheckIndexes compares unique indexes, set indexes and fk back-references, bucket by bucket, with the state
// derived from the model: every value maps to exactly its holder(s), nothing stale, no empty index keys.
func (w *World) CheckIndexes(tx *bbolt.Tx, m *Model) error {
	for _, sc := range m.Cfg.Stores {
		ents := m.Ents[sc.Name]
		check := func(field string, valueOf func(e *MEnt) string) error {
			want := map[string]string{}
			for id, e := range ents {
				if v := valueOf(e); v != "" {
					want[v] = id
				}
			}
			got := map[string]string{}
			if b := rawBucket(tx, m.Cfg.PathOf(boltz.IndexesBucket, sc.Name, field)...); b != nil {
				_ = b.ForEach(func(k, v []byte) error {
					got[string(k)] = string(v)
					return nil
				})
			}
			for v, id := range want {
				if got[v] != id {
					return fmt.Errorf("unique index %s.%s: value %q should map to %q, index has %q", sc.Name, field, v, id, got[v])
				}
				if r := w.Unique[sc.Name+"."+field].Read(tx, []byte(v)); string(r) != id {
					return fmt.Errorf("unique index %s.%s: Read(%q) = %q, want %q", sc.Name, field, v, r, id)
				}
			}
			for v, id := range got {
				if _, ok := want[v]; !ok {
					return fmt.Errorf("unique index %s.%s: stale entry %q -> %q (no entity holds that value)", sc.Name, field, v, id)
				}
			}
			for _, absent := range []string{"", "zz-absent"} {
				if _, ok := want[absent]; !ok {
					if r := w.Unique[sc.Name+"."+field].Read(tx, []byte(absent)); r != nil {
						return fmt.Errorf("unique index %s.%s: Read(%q) = %q for a value nobody holds", sc.Name, field, absent, r)
					}
				}
			}
			return nil
		}
		if sc.UniqueName {
			if err := check(FName, func(e *MEnt) string { return e.Name }); err != nil {
				return err
			}
		}
		if sc.UniqueAlias {
			if err := check(FAlias, func(e *MEnt) string {
				if e.Alias == nil {
					return ""
				}
				return *e.Alias
			}); err != nil {
				return err
			}
		}
		if sc.UniqueSerial {
			// index keys are the raw int64 bytes of the field
			want := map[int64]string{}
			for id, e := range ents {
				want[e.Serial] = id
			}
			got := map[int64]string{}
			if b := rawBucket(tx, m.Cfg.PathOf(boltz.IndexesBucket, sc.Name, FSerial)...); b != nil {
				var ferr error
				_ = b.ForEach(func(k, v []byte) error {
					n := boltz.FieldToInt64(boltz.TypeInt64, k)
					if n == nil {
						ferr = fmt.Errorf("unique index %s.serial: key %x is not an int64", sc.Name, k)
						return nil
					}
					got[*n] = string(v)
					return nil
				})
				if ferr != nil {
					return ferr
				}
			}
			for v, id := range want {
				if got[v] != id {
					return fmt.Errorf("unique index %s.serial: value %d should map to %q, index has %q", sc.Name, v, id, got[v])
				}
			}
			for v, id := range got {
				if _, ok := want[v]; !ok {
					return fmt.Errorf("unique index %s.serial: stale entry %d -> %q (no entity holds that value)", sc.Name, v, id)
				}
			}
		}
		if sc.RolesIndex {
			want := map[string][]string{}
			for id, e := range ents {
				for _, r := range e.Roles {
					want[r] = append(want[r], id)
				}
			}
			for r := range want {
				sort.Strings(want[r])
			}
			got := map[string][]string{}
			if b := rawBucket(tx, m.Cfg.PathOf(boltz.IndexesBucket, sc.Name, FRoles)...); b != nil {
				var ferr error
				_ = b.ForEach(func(k, v []byte) error {
					child := b.Bucket(k)
					if child == nil {
						ferr = fmt.Errorf("set index %s.roles: key %q is not a bucket", sc.Name, k)
						return nil
					}
					ids, err := typedIDs(child)
					if err != nil {
						ferr = fmt.Errorf("set index %s.roles value %q: %v", sc.Name, k, err)
					}
					got[string(k)] = ids
					return nil
				})
				if ferr != nil {
					return ferr
				}
			}
			for r, ids := range want {
				if fmt.Sprint(got[r]) != fmt.Sprint(ids) {
					return fmt.Errorf("set index %s.roles: value %q should list %q, index has %q", sc.Name, r, ids, got[r])
				}
				var viaRead []string
				w.SetIdx[sc.Name+"."+FRoles].Read(tx, []byte(r), func(val []byte) { viaRead = append(viaRead, string(val)) })
				sort.Strings(viaRead)
				if fmt.Sprint(viaRead) != fmt.Sprint(ids) {
					return fmt.Errorf("set index %s.roles: Read(%q) = %q, want %q", sc.Name, r, viaRead, ids)
				}
			}
			for r, ids := range got {
				if _, ok := want[r]; !ok {
					if len(ids) == 0 {
						return fmt.Errorf("set index %s.roles: empty index key %q left behind", sc.Name, r)
					}
					return fmt.Errorf("set index %s.roles: stale value %q -> %q", sc.Name, r, ids)
				}
			}
			var keys []string
			w.SetIdx[sc.Name+"."+FRoles].ReadKeys(tx, func(val []byte) { keys = append(keys, string(val)) })
			sort.Strings(keys)
			var wantKeys []string
			for r := range want {
				wantKeys = append(wantKeys, r)
			}
			sort.Strings(wantKeys)
			if fmt.Sprint(keys) != fmt.Sprint(wantKeys) {
				return fmt.Errorf("set index %s.roles: ReadKeys = %q, want %q", sc.Name, keys, wantKeys)
			}
		}
		// fk back-references (index wirings only)
		switch sc.RefWiring {
		case WireFkIndexNullable, WireFkIndex, WireFkIndexCascade:
			var target boltz.Store = w.Stores[sc.RefTo]
			if ks, isKid := w.Kids[sc.RefTo]; isKid {
				target = ks
				if sc.BackRefOnParent {
					target = w.Stores[w.KidCfgs[sc.RefTo].Parent]
				}
			}
			for tid := range m.Ents[m.BaseStore(sc.RefTo)] {
				if !m.RefTargetExists(sc, tid) {
					continue
				}
				want := m.Referrers(sc.RefTo, tid)[sc.Name]
				got := target.GetRelatedEntitiesIdList(tx, tid, sc.BackSym())
				sort.Strings(got)
				if fmt.Sprint(got) != fmt.Sprint(want) && !(len(got) == 0 && len(want) == 0) {
					return fmt.Errorf("back-references of %s/%q through %s: got %q, entities currently referencing it: %q", sc.RefTo, tid, sc.BackSym(), got, want)
				}
				for _, rid := range want {
					if !target.IsEntityRelated(tx, tid, sc.BackSym(), rid) {
						return fmt.Errorf("IsEntityRelated(%s/%q, %s, %q) = false", sc.RefTo, tid, sc.BackSym(), rid)
					}
				}
			}
		}
	}
	return nil
}

// CheckLinks verifies every link collection from both sides against the model (and the sides against each other).
func (w *World) CheckLinks(tx *bbolt.Tx, m *Model) error {
	for _, lc := range m.Cfg.Links {
		coll := lc.A + "." + lc.FieldA
		sides := []struct {
			store, field, other string
			flipped             bool
		}{{lc.A, lc.FieldA, lc.B, false}, {lc.B, lc.FieldB, lc.A, true}}
		for _, side := range sides {
			key := side.store + "." + side.field
			for id := range m.Ents[m.BaseStore(side.store)] {
				if !m.LinkEndExists(side.store, id) {
					continue
				}
				want := m.LinkedFrom(coll, side.flipped, id)
				var got []string
				var iter []string
				if lc.RefCounted {
					for cur := w.RcLinks[key].IterateLinks(tx, []byte(id), true); cur.IsValid(); cur.Next() {
						iter = append(iter, string(cur.Current()))
					}
					got = iter
				} else {
					got = w.Links[key].GetLinks(tx, id)
					for cur := w.Links[key].IterateLinks(tx, []byte(id)); cur.IsValid(); cur.Next() {
						iter = append(iter, string(cur.Current()))
					}
				}
				if fmt.Sprint(got) != fmt.Sprint(want) && !(len(got) == 0 && len(want) == 0) {
					return fmt.Errorf("links %s of %q: got %q, model %q", key, id, got, want)
				}
				if fmt.Sprint(iter) != fmt.Sprint(want) && !(len(iter) == 0 && len(want) == 0) {
					return fmt.Errorf("links %s of %q: IterateLinks %q, model %q", key, id, iter, want)
				}
				if !lc.RefCounted && len(want) >= 2 {
					// one cursor probed for the last element and then for the first
					cur := w.Links[key].IterateLinks(tx, []byte(id))
					cur.Seek([]byte(want[len(want)-1]))
					if !cur.IsValid() || string(cur.Current()) != want[len(want)-1] {
						return fmt.Errorf("links %s of %q: IterateLinks cursor sought to %q is not on it", key, id, want[len(want)-1])
					}
					cur.Seek([]byte(want[0]))
					if !cur.IsValid() || string(cur.Current()) != want[0] {
						return fmt.Errorf("links %s of %q: the IterateLinks cursor, after a seek to %q, sought to %q is not on it", key, id, want[len(want)-1], want[0])
					}
				}
				// raw bucket holds exactly the typed ids
				rawPath := m.Cfg.PathOf(side.store, id, side.field)
				if cc, isChild := m.childCfg(side.store); isChild {
					rawPath = m.Cfg.PathOf(cc.Parent, id, "ext_"+side.store, side.field)
				}
				raw, err := typedIDs(rawBucket(tx, rawPath...))
				if err != nil {
					return fmt.Errorf("links %s of %q: raw bucket: %v", key, id, err)
				}
				if fmt.Sprint(raw) != fmt.Sprint(want) && !(len(raw) == 0 && len(want) == 0) {
					return fmt.Errorf("links %s of %q: raw bucket %q, model %q", key, id, raw, want)
				}
				for oid := range m.Ents[m.BaseStore(side.other)] {
					if !m.LinkEndExists(side.other, oid) {
						continue
					}
					a, b := id, oid
					if side.flipped {
						a, b = oid, id
					}
					n := m.LinkCount(coll, a, b)
					if lc.RefCounted {
						c1, c2 := w.RcLinks[key].GetLinkCounts(tx, []byte(id), []byte(oid))
						if n == 0 && (c1 != nil || c2 != nil) {
							return fmt.Errorf("rc link %s %q<->%q: model has no link, counts are %v/%v", key, id, oid, derefI(c1), derefI(c2))
						}
						if n > 0 && (c1 == nil || c2 == nil || int(*c1) != n || int(*c2) != n) {
							return fmt.Errorf("rc link %s %q<->%q: model count %d, sides hold %v/%v", key, id, oid, n, derefI(c1), derefI(c2))
						}
						if c := w.RcLinks[key].GetLinkCount(tx, []byte(id), []byte(oid)); (c == nil) != (n == 0) || c != nil && int(*c) != n {
							return fmt.Errorf("rc link %s %q<->%q: GetLinkCount %v, model %d", key, id, oid, derefI(c), n)
						}
					} else {
						if got := w.Links[key].IsLinked(tx, []byte(id), []byte(oid)); got != (n > 0) {
							return fmt.Errorf("link %s IsLinked(%q,%q) = %v, model %v", key, id, oid, got, n > 0)
						}
					}
					// the store's own look-up of the relation (asked through the store the collection is declared on)
					var related bool
					if ks, isKid := w.Kids[side.store]; isKid {
						related = ks.IsEntityRelated(tx, id, side.field, oid)
					} else {
						related = w.Stores[side.store].IsEntityRelated(tx, id, side.field, oid)
					}
					if related != (n > 0) {
						return fmt.Errorf("%s.IsEntityRelated(%q, %s, %q) = %v, model %v", side.store, id, side.field, oid, related, n > 0)
					}
				}
			}
		}
	}
	return nil
}

func derefI(p *int32) string {
	if p == nil {
		return "nil"
	}
	return fmt.Sprint(*p)
}

// CheckKids verifies child stores against the model (population and fields through both stores).
func (w *World) CheckKids(tx *bbolt.Tx, m *Model) error {
	for name, ks := range w.Kids {
		cc := w.KidCfgs[name]
		var withData, all []string
		for id, e := range m.Ents[cc.Parent] {
			all = append(all, id)
			if _, ok := e.Kid[name]; ok {
				withData = append(withData, id)
			}
		}
		sort.Strings(withData)
		sort.Strings(all)
		population := withData
		if cc.Extended {
			population = all
		}
		ids, count, err := ks.QueryIds(tx, "true")
		if err != nil {
			return fmt.Errorf("child store %s: QueryIds: %v", name, err)
		}
		if fmt.Sprint(ids) != fmt.Sprint(population) && !(len(ids) == 0 && len(population) == 0) || int(count) != len(population) {
			return fmt.Errorf("child store %s: QueryIds(true) = %q (count %d), expected population %q", name, ids, count, population)
		}
		byName := append([]string(nil), population...)
		pents := m.Ents[cc.Parent]
		sort.SliceStable(byName, func(i, j int) bool {
			if pents[byName[i]].Name != pents[byName[j]].Name {
				return pents[byName[i]].Name < pents[byName[j]].Name
			}
			return byName[i] < byName[j]
		})
		sorted, scount, err := ks.QueryIds(tx, "true sort by name desc, id")
		if err != nil {
			return fmt.Errorf("child store %s: sorted QueryIds: %v", name, err)
		}
		// name descending, id ascending within equal names
		wantSorted := append([]string(nil), population...)
		sort.SliceStable(wantSorted, func(i, j int) bool {
			if pents[wantSorted[i]].Name != pents[wantSorted[j]].Name {
				return pents[wantSorted[i]].Name > pents[wantSorted[j]].Name
			}
			return wantSorted[i] < wantSorted[j]
		})
		if fmt.Sprint(sorted) != fmt.Sprint(wantSorted) && !(len(sorted) == 0 && len(wantSorted) == 0) || int(scount) != len(wantSorted) {
			return fmt.Errorf("child store %s: QueryIds(true sort by name desc, id) = %q (count %d), expected %q", name, sorted, scount, wantSorted)
		}
		_ = byName
		// the same population when the caller supplies the cursor (over every id of the parent store)
		if pq, perr := ast.Parse(ks, "true"); perr == nil {
			cids, ccount, cerr := ks.QueryWithCursorC(tx, func(tx *bbolt.Tx, forward bool) ast.SetCursor {
				set := ast.NewTreeSet(forward)
				for _, id := range all {
					set.Add([]byte(id))
				}
				if len(all) == 0 {
					return ast.NewEmptyCursor()
				}
				return set.ToCursor()
			}, pq)
			if cerr != nil || fmt.Sprint(cids) != fmt.Sprint(population) && !(len(cids) == 0 && len(population) == 0) || int(ccount) != len(population) {
				return fmt.Errorf("child store %s: QueryWithCursorC(cursor over all parent ids, true) = %q (count %d, err %v), expected population %q", name, cids, ccount, cerr, population)
			}
		}
		// a filter over a map element inherited from the parent (tags live in the parent's part of the entity)
		for _, tv := range []string{"x", "y"} {
			var wantTagged []string
			for _, id := range population {
				if t := m.Ents[cc.Parent][id].TagV; t != nil && *t == tv {
					wantTagged = append(wantTagged, id)
				}
			}
			tagged, _, terr := ks.QueryIds(tx, `tags.t = "`+tv+`"`)
			if terr != nil || fmt.Sprint(tagged) != fmt.Sprint(wantTagged) && !(len(tagged) == 0 && len(wantTagged) == 0) {
				return fmt.Errorf("child store %s: QueryIds(tags.t = %q) = %q (err %v), expected %q", name, tv, tagged, terr, wantTagged)
			}
		}
		// cursor-style iteration with paging through the child store: skip and limit count child entities only
		if pq, perr := ast.Parse(ks, "true skip 1 limit 2"); perr == nil {
			var paged []string
			for cur := ks.IterateIds(tx, pq); cur.IsValid(); cur.Next() {
				paged = append(paged, string(cur.Current()))
			}
			wantPaged := population
			if len(wantPaged) > 1 {
				wantPaged = wantPaged[1:]
			} else {
				wantPaged = nil
			}
			if len(wantPaged) > 2 {
				wantPaged = wantPaged[:2]
			}
			if fmt.Sprint(paged) != fmt.Sprint(wantPaged) && !(len(paged) == 0 && len(wantPaged) == 0) {
				return fmt.Errorf("child store %s: IterateIds(true skip 1 limit 2) = %q, expected %q (population %q)", name, paged, wantPaged, population)
			}
		} else {
			return fmt.Errorf("child store %s: parsing a paged query: %v", name, perr)
		}
		var iter, valid []string
		for cur := ks.IterateIds(tx, boolTrue); cur.IsValid(); cur.Next() {
			iter = append(iter, string(cur.Current()))
		}
		for cur := ks.IterateValidIds(tx, boolTrue); cur.IsValid(); cur.Next() {
			valid = append(valid, string(cur.Current()))
		}
		if fmt.Sprint(iter) != fmt.Sprint(population) && !(len(iter) == 0 && len(population) == 0) {
			return fmt.Errorf("child store %s: IterateIds = %q, expected %q", name, iter, population)
		}
		if fmt.Sprint(valid) != fmt.Sprint(withData) && !(len(valid) == 0 && len(withData) == 0) {
			return fmt.Errorf("child store %s: IterateValidIds = %q, entities with child data %q", name, valid, withData)
		}
		// positioning the valid-id cursor with Seek: it lands on the first entity with child data at or after the target
		for _, target := range all {
			cur := ks.IterateValidIds(tx, boolTrue)
			cur.Seek([]byte(target))
			want := ""
			for _, id := range withData {
				if id >= target {
					want = id
					break
				}
			}
			got := ""
			if cur.IsValid() {
				got = string(cur.Current())
			}
			if got != want {
				return fmt.Errorf("child store %s: IterateValidIds.Seek(%q) lands on %q, expected %q (entities with child data %q of %q)", name, target, got, want, withData, all)
			}
		}
		for _, id := range all {
			me := m.Ents[cc.Parent][id]
			extra, has := me.Kid[name]
			k, found, err := ks.FindById(tx, id)
			if err != nil {
				return fmt.Errorf("child store %s: FindById(%q): %v", name, id, err)
			}
			if found != (has || cc.Extended) {
				return fmt.Errorf("child store %s: FindById(%q) found=%v, entity has child data=%v (extended=%v)", name, id, found, has, cc.Extended)
			}
			if _, lerr := ks.LoadById(tx, id); (lerr == nil) != found {
				return fmt.Errorf("child store %s: LoadById(%q) err=%v but FindById found=%v", name, id, lerr, found)
			}
			// loading into a caller-supplied, fresh entity
			fresh := &Kid{}
			if lfound, lerr := ks.LoadEntity(tx, id, fresh); lerr != nil || lfound != found {
				return fmt.Errorf("child store %s: LoadEntity(%q) found=%v err=%v, FindById found=%v", name, id, lfound, lerr, found)
			} else if found {
				if d := diffEnt(&fresh.Ent, me); d != "" {
					return fmt.Errorf("child store %s: LoadEntity(%q) into a fresh entity (shared fields) differs from model: %s", name, id, d)
				}
				if has && fresh.Extra != extra {
					return fmt.Errorf("child store %s: LoadEntity(%q) into a fresh entity: extra %q, model %q", name, id, fresh.Extra, extra)
				}
			}
			if found {
				if d := diffEnt(&k.Ent, me); d != "" {
					return fmt.Errorf("child store %s entity %q (shared fields) differs from model: %s", name, id, d)
				}
				if has && k.Extra != extra {
					return fmt.Errorf("child store %s entity %q: extra %q, model %q", name, id, k.Extra, extra)
				}
				if !has && (k.Extra != "" || fresh.Extra != "") {
					return fmt.Errorf("child store %s (extended) entity %q has no child data but is read with the child-only field %q / %q", name, id, k.Extra, fresh.Extra)
				}
			}
			if ks.IsEntityPresent(tx, id) != has {
				return fmt.Errorf("child store %s: IsEntityPresent(%q) = %v, model %v", name, id, !has, has)
			}
		}
		if cc.UniqueExtra {
			// the child store's own unique index: exactly the non-empty extra values of the entities with child data
			want := map[string]string{}
			for _, id := range withData {
				if x := m.Ents[cc.Parent][id].Kid[name]; x != "" {
					want[x] = id
				}
			}
			got := map[string]string{}
			if b := rawBucket(tx, m.Cfg.PathOf(boltz.IndexesBucket, cc.Parent, FExtra)...); b != nil {
				_ = b.ForEach(func(k, v []byte) error {
					got[string(k)] = string(v)
					return nil
				})
			}
			for v, id := range want {
				if got[v] != id {
					return fmt.Errorf("child store %s: unique index on extra: value %q should map to %q, index has %q", name, v, id, got[v])
				}
				if r := w.Unique[name+"."+FExtra].Read(tx, []byte(v)); string(r) != id {
					return fmt.Errorf("child store %s: unique index on extra: Read(%q) = %q, want %q", name, v, r, id)
				}
			}
			for v, id := range got {
				if _, ok := want[v]; !ok {
					return fmt.Errorf("child store %s: unique index on extra: stale entry %q -> %q", name, v, id)
				}
			}
		}
		if _, found, _ := ks.FindById(tx, "zz-absent"); found {
			return fmt.Errorf("child store %s: FindById of an id that was never created reports found", name)
		}
	}
	return nil
}

// CheckAll runs every invariant in one read transaction.
func (w *World) CheckAll(m *Model) error {
	var verr error
	err := w.Z.Db.View(func(tx *bbolt.Tx) error {
		for _, f := range []func(*bbolt.Tx, *Model) error{w.CheckEntities, w.CheckIndexes, w.CheckLinks, w.CheckKids} {
			if verr = f(tx, m); verr != nil {
				return nil
			}
		}
		return nil
	})
	if err != nil {
		return err
	}
	return verr
}

var _ = bytes.Equal
