package kit

import (
	"context"
	"fmt"
	"sort"

	"github.com/openziti/storage/ast"
	"github.com/openziti/storage/boltz"
	"go.etcd.io/bbolt"
)

// ---------------------------------------------------------------------------------------------
// Generic entity schema ("kitchen sink"): every store holds *Ent (or *Kid for child stores), and a
// StoreCfg switches on the indexes / constraints a property studies. Stores are built exactly the way
// the repository's tests and its downstream user build them (NewBaseStore + InitImpl + Add*Symbol/Index).
// ---------------------------------------------------------------------------------------------

type Ent struct {
	boltz.BaseExtEntity
	Type  string
	Name  string
	Alias *string
	Roles []string
	Note  string
	Ref   *string
	// Data is a free-form document persisted with PersistContext.SetMap (nesting allowed); only written when non-nil
	Data map[string]interface{}
	// Serial is an int64 field (unique index over a non-string value when StoreCfg.UniqueSerial is set)
	Serial int64
	// LinkField / LinkIDs: when LinkField is set, PersistEntity hands LinkIDs to PersistContext.SetLinkedIds
	// (the way an application persists a many-to-many field together with the entity). Never loaded back.
	LinkField string
	LinkIDs   []string
}

func (e *Ent) GetEntityType() string { return e.Type }

type Kid struct {
	Ent
	Extra string
}

const (
	FName   = "name"
	FAlias  = "alias"
	FRoles  = "roles"
	FNote   = "note"
	FRef    = "ref"
	FExtra  = "extra"
	FSerial = "serial"
	FData   = "data"
)

type entStrategy struct {
	typ   string
	keyed bool // scalar fields are persisted under "<field>_k" while the symbols keep the plain names
	// overrides: the strategy tells the context under which names its keyed fields are known to field checkers
	overrides bool
}

// entOverrides maps the persisted keys of a keyed store to the names a field checker uses for them.
var entOverrides = map[string]string{FName + "_k": FName, FAlias + "_k": FAlias, FNote + "_k": FNote, FRef + "_k": FRef}

// PersistKey returns the bucket key a field is persisted under (and a FieldChecker is asked about).
func PersistKey(keyed bool, field string) string {
	if keyed && (field == FName || field == FAlias || field == FNote || field == FRef) {
		return field + "_k"
	}
	return field
}

func (s entStrategy) k(f string) string { return PersistKey(s.keyed, f) }

func (s entStrategy) NewEntity() *Ent { return &Ent{Type: s.typ} }
func (s entStrategy) FillEntity(e *Ent, b *boltz.TypedBucket) {
	e.LoadBaseValues(b)
	e.Name = b.GetStringWithDefault(s.k(FName), "")
	e.Alias = b.GetString(s.k(FAlias))
	e.Roles = b.GetStringList(FRoles)
	e.Note = b.GetStringWithDefault(s.k(FNote), "")
	e.Ref = b.GetString(s.k(FRef))
	e.Serial = b.GetInt64WithDefault(FSerial, 0)
}
func (s entStrategy) PersistEntity(e *Ent, ctx *boltz.PersistContext) {
	if s.overrides {
		ctx.WithFieldOverrides(entOverrides)
	}
	e.SetBaseValues(ctx)
	ctx.SetString(s.k(FName), e.Name)
	ctx.SetStringP(s.k(FAlias), e.Alias)
	ctx.SetStringList(FRoles, e.Roles)
	ctx.SetString(s.k(FNote), e.Note)
	ctx.SetStringP(s.k(FRef), e.Ref)
	ctx.SetInt64(FSerial, e.Serial)
	if e.Data != nil {
		ctx.SetMap(FData, e.Data)
	}
	if e.LinkField != "" && ctx.Store.GetLinkCollection(e.LinkField) != nil {
		ctx.SetLinkedIds(e.LinkField, e.LinkIDs)
	}
}

type kidStrategy struct {
	parent   *boltz.BaseStore[*Ent]
	typ      string
	extraKey string
	clash    bool
}

// kidOverrides is the child level's own override table (it concerns a field the checks never select)
var kidOverrides = map[string]string{"extra_flag_k": "extraFlag"}

func (s *kidStrategy) NewEntity() *Kid { return &Kid{Ent: Ent{Type: s.typ}} }
func (s *kidStrategy) FillEntity(k *Kid, b *boltz.TypedBucket) {
	_, err := s.parent.LoadEntity(b.Tx(), k.Id, &k.Ent)
	b.SetError(err)
	k.Type = s.typ
	k.Extra = b.GetStringWithDefault(s.extraKey, "")
}
func (s *kidStrategy) PersistEntity(k *Kid, ctx *boltz.PersistContext) {
	if s.clash {
		ctx.WithFieldOverrides(kidOverrides)
	}
	s.parent.GetEntityStrategy().PersistEntity(&k.Ent, ctx.GetParentContext())
	ctx.SetString(s.extraKey, k.Extra)
	if k.LinkField != "" && ctx.Store.GetLinkCollection(k.LinkField) != nil {
		ctx.SetLinkedIds(k.LinkField, k.LinkIDs) // a link field declared on the child store
	}
}

// Wiring of the Ref field of a store.
const (
	WireNone            = ""
	WireFkIndexNullable = "fkIndexNullable"     // AddNullableFkIndex (restrict on delete of the target)
	WireFkIndex         = "fkIndex"             // AddFkIndex, non-nullable (restrict)
	WireConstraintNone  = "fkConstraintNone"    // AddFkConstraint(nullable, CascadeNone) (restrict by query)
	WireConstraintDel   = "fkConstraintCascade" // AddFkConstraint(nullable, CascadeDelete)
	WireFkIndexCascade  = "fkIndexCascade"      // AddFkIndexCascadeDelete
)

type StoreCfg struct {
	Name        string `json:"name"`
	UniqueName  bool   `json:"uniqueName,omitempty"`  // non-nullable unique index on name
	UniqueAlias bool   `json:"uniqueAlias,omitempty"` // nullable unique index on alias
	RolesIndex  bool   `json:"rolesIndex,omitempty"`  // set index on roles
	RefTo       string `json:"refTo,omitempty"`       // store the ref field points at
	RefWiring   string `json:"refWiring,omitempty"`
	System      bool   `json:"system,omitempty"` // system entity enforcement constraint
	// UniqueSerial: non-nullable unique index over the int64 field serial (index keys are not strings)
	UniqueSerial bool `json:"uniqueSerial,omitempty"`
	// Keyed: symbols are registered with AddSymbolWithKey / AddFkSymbolWithKey, the persisted key differs from the symbol name
	Keyed bool `json:"keyed,omitempty"`
	// BackRefOnParent (RefTo names a child store): the reference is declared against the child store (only entities
	// with child data are valid targets) while the back-reference set is declared on, and kept in, the parent store
	BackRefOnParent bool `json:"backRefOnParent,omitempty"`
}

func (c StoreCfg) BackSym() string { return "refs_" + c.Name }

type ChildCfg struct {
	Name     string `json:"name"`
	Parent   string `json:"parent"`
	Extended bool   `json:"extended,omitempty"`
	// UniqueExtra: the child store has an index of its own, a nullable unique index over its child-only field
	// (at most one such child store per parent: the index bucket is keyed by the parent's entity type)
	UniqueExtra bool `json:"uniqueExtra,omitempty"`
	// Clash (parent store Keyed): the child keeps its own field under the bucket key the parent uses for its note
	// ("note_k", each in its own bucket), and both levels declare field overrides: the parent exposes its keyed fields
	// to field checkers under their symbol names, the child declares an override of its own before it persists the
	// parent part. A checker then names the parent's note "note" and the child's field "note_k".
	Clash bool `json:"clash,omitempty"`
}

// ClashParent reports whether a child store of the given store is configured with Clash.
func (c WorldCfg) ClashParent(store string) bool {
	for _, cc := range c.Children {
		if cc.Parent == store && cc.Clash {
			return true
		}
	}
	return false
}

// ExtraKey is the bucket key of the child-only field.
func (c ChildCfg) ExtraKey() string {
	if c.Clash {
		return FNote + "_k"
	}
	return FExtra
}

// LinkCfg: many-to-many link collection between A.FieldA and B.FieldB.
type LinkCfg struct {
	A, B           string
	FieldA, FieldB string
	RefCounted     bool
	// BackToParent (A is a child store): B's symbol is declared against A's parent store, as a schema does that
	// first had the link on the parent type and later moved the collection to the child type
	BackToParent bool `json:"backToParent,omitempty"`
}

type WorldCfg struct {
	// BasePath of every top-level store (default ["root"]). Deeper paths exercise path slices with spare capacity.
	BasePath []string `json:"basePath,omitempty"`
	// LazyBuckets: the entity buckets are not created up front; a store in which nothing was ever created has none
	LazyBuckets bool       `json:"lazyBuckets,omitempty"`
	Stores      []StoreCfg `json:"stores"`
	Children    []ChildCfg `json:"children,omitempty"`
	Links       []LinkCfg  `json:"links,omitempty"`
}

type World struct {
	Cfg     WorldCfg
	Z       *ZDB
	Stores  map[string]*boltz.BaseStore[*Ent]
	Kids    map[string]*boltz.BaseStore[*Kid]
	Cfgs    map[string]StoreCfg
	KidCfgs map[string]ChildCfg
	Unique  map[string]boltz.ReadIndex    // "<store>.name" / "<store>.alias"
	SetIdx  map[string]boltz.SetReadIndex // "<store>.roles"
	Links   map[string]boltz.LinkCollection
	RcLinks map[string]boltz.RefCountedLinkCollection
	MigSeq  int // migration-step transactions run so far (each is a component of its own)
}

func (w *World) Close() { w.Z.Close() }

// Base returns the base path of the world's top-level stores.
func (c WorldCfg) Base() []string {
	if len(c.BasePath) == 0 {
		return []string{"root"}
	}
	return c.BasePath
}

// PathOf returns base path + elems as a fresh slice.
func (c WorldCfg) PathOf(elems ...string) []string {
	return append(append([]string{}, c.Base()...), elems...)
}

func notFoundF(typ string) func(id string) error {
	return func(id string) error { return boltz.NewNotFoundError(typ, "id", id) }
}

// NewWorld builds the stores in a fresh database and initialises the indexes in a first transaction.
func NewWorld(cfg WorldCfg) (*World, error) {
	w := &World{Cfg: cfg, Z: NewZDB(), Stores: map[string]*boltz.BaseStore[*Ent]{}, Kids: map[string]*boltz.BaseStore[*Kid]{},
		Cfgs: map[string]StoreCfg{}, KidCfgs: map[string]ChildCfg{}, Unique: map[string]boltz.ReadIndex{}, SetIdx: map[string]boltz.SetReadIndex{},
		Links: map[string]boltz.LinkCollection{}, RcLinks: map[string]boltz.RefCountedLinkCollection{}}
	for _, sc := range cfg.Stores {
		st := boltz.NewBaseStore(boltz.StoreDefinition[*Ent]{
			EntityType:     sc.Name,
			EntityStrategy: entStrategy{typ: sc.Name, keyed: sc.Keyed, overrides: sc.Keyed && cfg.ClashParent(sc.Name)},
			// built by append on purpose: like a caller assembling the path, the slice may have spare capacity
			BasePath:        append(make([]string, 0, len(cfg.Base())+3), cfg.Base()...),
			EntityNotFoundF: notFoundF(sc.Name),
		})
		st.InitImpl(st)
		w.Stores[sc.Name] = st
		w.Cfgs[sc.Name] = sc
	}
	refSyms := map[string]boltz.EntitySymbol{}
	// pass 1: symbols
	for _, sc := range cfg.Stores {
		st := w.Stores[sc.Name]
		st.AddExtEntitySymbols()
		nameSym := st.AddSymbolWithKey(FName, ast.NodeTypeString, PersistKey(sc.Keyed, FName))
		aliasSym := st.AddSymbolWithKey(FAlias, ast.NodeTypeString, PersistKey(sc.Keyed, FAlias))
		rolesSym := st.AddSetSymbol(FRoles, ast.NodeTypeString)
		st.AddSymbolWithKey(FNote, ast.NodeTypeString, PersistKey(sc.Keyed, FNote))
		if sc.UniqueName {
			w.Unique[sc.Name+"."+FName] = st.AddUniqueIndex(nameSym)
		}
		if sc.UniqueAlias {
			w.Unique[sc.Name+"."+FAlias] = st.AddNullableUniqueIndex(aliasSym)
		}
		serialSym := st.AddSymbol(FSerial, ast.NodeTypeInt64)
		if sc.UniqueSerial {
			w.Unique[sc.Name+"."+FSerial] = st.AddUniqueIndex(serialSym)
		}
		if sc.RolesIndex {
			w.SetIdx[sc.Name+"."+FRoles] = st.AddSetIndex(rolesSym)
		}
		if sc.RefTo != "" {
			if _, top := w.Stores[sc.RefTo]; top {
				refSyms[sc.Name] = st.AddFkSymbolWithKey(FRef, PersistKey(sc.Keyed, FRef), w.Stores[sc.RefTo])
			} // else: the target is a child store, the symbol is added once the child stores exist
		} else {
			st.AddSymbolWithKey(FRef, ast.NodeTypeString, PersistKey(sc.Keyed, FRef))
		}
	}
	// pass 2: fk wiring (needs the target stores' back-reference symbols)
	wire := func(sc StoreCfg, target boltz.ConfigurableStore) error {
		st := w.Stores[sc.Name]
		switch sc.RefWiring {
		case WireFkIndexNullable:
			st.AddNullableFkIndex(refSyms[sc.Name], target.AddFkSetSymbol(sc.BackSym(), st))
		case WireFkIndex:
			st.AddFkIndex(refSyms[sc.Name], target.AddFkSetSymbol(sc.BackSym(), st))
		case WireFkIndexCascade:
			st.AddFkIndexCascadeDelete(refSyms[sc.Name], target.AddFkSetSymbol(sc.BackSym(), st))
		case WireConstraintNone:
			st.AddFkConstraint(refSyms[sc.Name], true, boltz.CascadeNone)
		case WireConstraintDel:
			st.AddFkConstraint(refSyms[sc.Name], true, boltz.CascadeDelete)
		case WireNone:
		default:
			return fmt.Errorf("unknown wiring %q", sc.RefWiring)
		}
		return nil
	}
	for _, sc := range cfg.Stores {
		if target, top := w.Stores[sc.RefTo]; top {
			if err := wire(sc, target); err != nil {
				return nil, err
			}
		}
	}
	for _, sc := range cfg.Stores {
		if sc.System {
			st := w.Stores[sc.Name]
			st.AddConstraint(boltz.NewSystemEntityEnforcementConstraint(st))
		}
	}
	// children; their bucket paths are built by appending to one shared prefix that has spare capacity, the way
	// configuration code derives sibling paths from a common root
	childPrefix := make([]string, 0, 4)
	for _, cc := range cfg.Children {
		parent := w.Stores[cc.Parent]
		cc := cc
		def := boltz.StoreDefinition[*Kid]{
			EntityStrategy:  &kidStrategy{parent: parent, typ: cc.Parent, extraKey: cc.ExtraKey(), clash: cc.Clash},
			BasePath:        append(childPrefix, "ext_"+cc.Name),
			Parent:          parent,
			EntityNotFoundF: notFoundF(cc.Parent),
			ParentMapper: func(e boltz.Entity) boltz.Entity {
				if k, ok := e.(*Kid); ok {
					return &k.Ent
				}
				return e
			},
		}
		ks := boltz.NewBaseStore(def)
		if cc.Extended {
			ks = ks.Extended()
		}
		ks.InitImpl(ks)
		parent.GrantSymbols(ks)
		extraSym := ks.AddSymbolWithKey(FExtra, ast.NodeTypeString, cc.ExtraKey())
		if cc.UniqueExtra {
			w.Unique[cc.Name+"."+FExtra] = ks.AddNullableUniqueIndex(extraSym)
		}
		parent.RegisterChildStoreStrategy(&boltz.ChildStoreUpdateHandler[*Ent, *Kid]{
			Store: ks,
			Mapper: func(ctx boltz.MutateContext, p *Ent) (*Kid, bool) {
				// route to the child store only for entities that really have child data; keep the child-only
				// fields as stored and take the shared fields from the entity being written
				if !ks.IsEntityPresent(ctx.Tx(), p.Id) {
					return nil, false
				}
				k, found, err := ks.FindById(ctx.Tx(), p.Id)
				if err != nil || !found {
					return nil, false
				}
				k.Ent = *p
				return k, true
			},
		})
		w.Kids[cc.Name] = ks
		w.KidCfgs[cc.Name] = cc
	}
	// foreign keys whose target is a child store
	for _, sc := range cfg.Stores {
		if target, isKid := w.Kids[sc.RefTo]; isKid {
			refSyms[sc.Name] = w.Stores[sc.Name].AddFkSymbolWithKey(FRef, PersistKey(sc.Keyed, FRef), target)
			var back boltz.ConfigurableStore = target
			if sc.BackRefOnParent {
				back = w.Stores[w.KidCfgs[sc.RefTo].Parent]
			}
			if err := wire(sc, back); err != nil {
				return nil, err
			}
		}
	}
	// links
	cfgStore := func(name string) boltz.ConfigurableStore {
		if st, ok := w.Stores[name]; ok {
			return st
		}
		return w.Kids[name]
	}
	for _, lc := range cfg.Links {
		a, b := cfgStore(lc.A), cfgStore(lc.B)
		symA := a.AddFkSetSymbol(lc.FieldA, b)
		symB := symA
		if !(lc.A == lc.B && lc.FieldA == lc.FieldB) {
			var linked boltz.ConfigurableStore = a
			if cc, isChild := w.KidCfgs[lc.A]; isChild && lc.BackToParent {
				linked = w.Stores[cc.Parent]
			}
			symB = b.AddFkSetSymbol(lc.FieldB, linked)
		}
		if lc.RefCounted {
			w.RcLinks[lc.A+"."+lc.FieldA] = a.AddRefCountedLinkCollection(symA, symB)
			w.RcLinks[lc.B+"."+lc.FieldB] = b.AddRefCountedLinkCollection(symB, symA)
		} else {
			w.Links[lc.A+"."+lc.FieldA] = a.AddLinkCollection(symA, symB)
			w.Links[lc.B+"."+lc.FieldB] = b.AddLinkCollection(symB, symA)
		}
	}
	// initialise indexes the way real callers do, in a first transaction
	err := w.Z.Db.Update(nil, func(ctx boltz.MutateContext) error {
		holder := &errHolder{}
		for _, sc := range cfg.Stores {
			w.Stores[sc.Name].InitializeIndexes(ctx.Tx(), holder)
			// make sure the entities bucket exists so that reads on an empty store behave uniformly
			if !cfg.LazyBuckets {
				boltz.GetOrCreatePath(ctx.Tx(), cfg.PathOf(sc.Name)...)
			}
		}
		for _, cc := range cfg.Children {
			w.Kids[cc.Name].InitializeIndexes(ctx.Tx(), holder)
		}
		return holder.err
	})
	if err != nil {
		w.Close()
		return nil, err
	}
	return w, nil
}

type errHolder struct{ err error }

func (h *errHolder) HasError() bool  { return h.err != nil }
func (h *errHolder) GetError() error { return h.err }
func (h *errHolder) SetError(err error) bool {
	if h.err == nil && err != nil {
		h.err = err
	}
	return h.err != nil
}

func NewCtx() boltz.MutateContext { return boltz.NewMutateContext(context.Background()) }

// Dump returns the logical dump of the world's database.
func (w *World) Dump() []string {
	var out []string
	_ = w.Z.Db.View(func(tx *bbolt.Tx) error {
		out = DumpTx(tx)
		return nil
	})
	return out
}

// ---------------------------------------------------------------------------------------------
// Model
// ---------------------------------------------------------------------------------------------

// EntSpec is the JSON-serialisable payload of create / update / patch.
type EntSpec struct {
	Name     string   `json:"name"`
	Alias    *string  `json:"alias,omitempty"`
	Roles    []string `json:"roles,omitempty"`
	Note     string   `json:"note,omitempty"`
	Ref      *string  `json:"ref,omitempty"`
	Serial   int64    `json:"serial,omitempty"`
	IsSystem bool     `json:"isSystem,omitempty"`
	Migrate  bool     `json:"migrate,omitempty"` // BaseExtEntity.Migrate: keep the payload's timestamps on create
	Extra    string   `json:"extra,omitempty"`   // child stores only
	TagV     *string  `json:"tag,omitempty"`     // tags = {"t": TagV} when set
	// BadTags: a map field holds a value that cannot be stored. "nested-in-list": the free-form document "data"
	// (PersistContext.SetMap, nesting allowed) has an entry with an empty key inside a map inside a list;
	// "top-level": the tag map has an entry with an empty key. Writing the field must fail.
	BadTags string `json:"badTags,omitempty"`
	// LinkField / LinkIDs: persist the many-to-many field LinkField with PersistContext.SetLinkedIds(LinkField, LinkIDs)
	LinkField string   `json:"linkField,omitempty"`
	LinkIDs   []string `json:"linkIds,omitempty"`
}

func (s EntSpec) ToEnt(typ, id string) *Ent {
	e := &Ent{Type: typ, Name: s.Name, Alias: s.Alias, Roles: append([]string(nil), s.Roles...), Note: s.Note, Ref: s.Ref, Serial: s.Serial}
	e.Id = id
	e.IsSystem = s.IsSystem
	e.Migrate = s.Migrate
	e.LinkField, e.LinkIDs = s.LinkField, append([]string(nil), s.LinkIDs...)
	switch s.BadTags {
	case "nested-in-list":
		e.Data = map[string]interface{}{"servers": []interface{}{"a", map[string]interface{}{"host": "b", "": 2}}}
	case "top-level":
		e.Tags = map[string]interface{}{"t": "x", "": "y"}
		return e
	}
	if s.TagV != nil {
		e.Tags = map[string]interface{}{"t": *s.TagV}
	}
	return e
}

// MEnt is the model's view of one stored entity.
type MEnt struct {
	Name     string
	Alias    *string
	Roles    []string // sorted, de-duplicated
	Note     string
	Ref      *string
	Serial   int64
	IsSystem bool
	TagV     *string
	Kid      map[string]string // child store name -> extra (presence = has child data there)
}

func (m *MEnt) clone() *MEnt {
	c := *m
	c.Roles = append([]string(nil), m.Roles...)
	if m.Alias != nil {
		a := *m.Alias
		c.Alias = &a
	}
	if m.Ref != nil {
		r := *m.Ref
		c.Ref = &r
	}
	if m.TagV != nil {
		t := *m.TagV
		c.TagV = &t
	}
	c.Kid = map[string]string{}
	for k, v := range m.Kid {
		c.Kid[k] = v
	}
	return &c
}

func SortedSet(xs []string) []string {
	m := map[string]bool{}
	for _, x := range xs {
		m[x] = true
	}
	out := make([]string, 0, len(m))
	for x := range m {
		out = append(out, x)
	}
	sort.Strings(out)
	return out
}

type linkKey struct{ coll, a, b string } // coll = "<A>.<FieldA>" canonical side

// Model mirrors the committed state.
type Model struct {
	Cfg   WorldCfg
	Ents  map[string]map[string]*MEnt          // store -> id -> entity
	Links map[string]map[string]map[string]int // canonical coll -> a -> b -> count (1 for plain links)
}

func NewModel(cfg WorldCfg) *Model {
	m := &Model{Cfg: cfg, Ents: map[string]map[string]*MEnt{}, Links: map[string]map[string]map[string]int{}}
	for _, s := range cfg.Stores {
		m.Ents[s.Name] = map[string]*MEnt{}
	}
	for _, l := range cfg.Links {
		m.Links[l.A+"."+l.FieldA] = map[string]map[string]int{}
	}
	return m
}

func (m *Model) Clone() *Model {
	c := &Model{Cfg: m.Cfg, Ents: map[string]map[string]*MEnt{}, Links: map[string]map[string]map[string]int{}}
	for s, es := range m.Ents {
		c.Ents[s] = map[string]*MEnt{}
		for id, e := range es {
			c.Ents[s][id] = e.clone()
		}
	}
	for k, as := range m.Links {
		c.Links[k] = map[string]map[string]int{}
		for a, bs := range as {
			c.Links[k][a] = map[string]int{}
			for b, n := range bs {
				c.Links[k][a][b] = n
			}
		}
	}
	return c
}

func (m *Model) storeCfg(name string) StoreCfg {
	for _, s := range m.Cfg.Stores {
		if s.Name == name {
			return s
		}
	}
	panic("no store " + name)
}

func (m *Model) childCfg(name string) (ChildCfg, bool) {
	for _, c := range m.Cfg.Children {
		if c.Name == name {
			return c, true
		}
	}
	return ChildCfg{}, false
}

// Outcome classes predicted by the model for one operation.
const (
	OK           = "ok"
	ErrDuplicate = "duplicate"        // IsUniqueIndexDuplicateError
	ErrEmpty     = "empty-not-null"   // empty value in non-nullable unique index / fk
	ErrNotFound  = "not-found"        // IsErrNotFoundErr (entity or fk target)
	ErrExists    = "already-exists"   // create of an existing id
	ErrRefExists = "reference-exists" // IsReferenceExistsError
	ErrSystem    = "system-context"   // system entity touched from an ordinary context
	ErrStorage   = "storage"          // bbolt refuses the key (empty bucket name, key too large)
	ErrSome      = "some-error"       // an error of unspecified class
	Unspecified  = "unspecified"      // outcome not pinned down: the runner skips the op
)

// holderOf returns the ids in store holding the given unique value (excluding except).
func (m *Model) holderOf(store, field, val, except string) string {
	for id, e := range m.Ents[store] {
		if id == except {
			continue
		}
		switch field {
		case FName:
			if e.Name == val {
				return id
			}
		case FAlias:
			if e.Alias != nil && *e.Alias == val {
				return id
			}
		}
	}
	return ""
}

// extraHolder returns the id (other than except) whose child data in the given child store holds the extra value.
func (m *Model) extraHolder(child, val, except string) string {
	cc, _ := m.childCfg(child)
	for id, e := range m.Ents[cc.Parent] {
		if x, has := e.Kid[child]; has && x == val && id != except {
			return id
		}
	}
	return ""
}

func hasEmpty(xs []string) bool {
	for _, x := range xs {
		if x == "" {
			return true
		}
	}
	return false
}

// checkWrite predicts the outcome of writing entity state next (old may be nil for create) into store:
// the list of applicable rejection causes (empty = accepted). The engine reports the first one it meets.
func (m *Model) checkWrite(store, id string, old, next *MEnt, system bool) []string {
	var causes []string
	sc := m.storeCfg(store)
	if sc.System {
		if old != nil && old.IsSystem && !system {
			causes = append(causes, ErrSystem)
		}
	}
	if sc.UniqueName && (old == nil || old.Name != next.Name) {
		switch {
		case next.Name == "":
			causes = append(causes, ErrEmpty)
		case m.holderOf(store, FName, next.Name, id) != "":
			causes = append(causes, ErrDuplicate)
		case len(next.Name) > 32768:
			causes = append(causes, ErrStorage)
		}
	}
	if sc.UniqueSerial && (old == nil || old.Serial != next.Serial) {
		for oid, e := range m.Ents[store] {
			if oid != id && e.Serial == next.Serial {
				causes = append(causes, ErrDuplicate)
				break
			}
		}
	}
	if sc.UniqueAlias {
		oldA, newA := "", ""
		if old != nil && old.Alias != nil {
			oldA = *old.Alias
		}
		if next.Alias != nil {
			newA = *next.Alias
		}
		if (old == nil || oldA != newA) && newA != "" {
			if m.holderOf(store, FAlias, newA, id) != "" {
				causes = append(causes, ErrDuplicate)
			} else if len(newA) > 32768 {
				causes = append(causes, ErrStorage)
			}
		}
	}
	for _, r := range next.Roles {
		if len(r)+1 > 32768 && (old == nil || fmt.Sprintf("%q", old.Roles) != fmt.Sprintf("%q", next.Roles)) {
			causes = append(causes, ErrStorage)
			break
		}
	}
	if sc.RolesIndex {
		changed := old == nil || fmt.Sprintf("%q", old.Roles) != fmt.Sprintf("%q", next.Roles)
		if changed && (hasEmpty(next.Roles) || (old != nil && hasEmpty(old.Roles))) {
			causes = append(causes, ErrStorage)
		}
	}
	if sc.RefTo != "" && sc.RefWiring != WireNone {
		oldR, newR := "", ""
		if old != nil && old.Ref != nil {
			oldR = *old.Ref
		}
		if next.Ref != nil {
			newR = *next.Ref
		}
		if old == nil || oldR != newR {
			if newR == "" {
				if sc.RefWiring == WireFkIndex || sc.RefWiring == WireFkIndexCascade {
					causes = append(causes, ErrEmpty)
				}
			} else if !m.RefTargetExists(sc, newR) && !(sc.RefTo == store && newR == id) {
				causes = append(causes, ErrNotFound)
			}
		}
	}
	if sc.System && old == nil && next.IsSystem && !system {
		causes = append(causes, ErrSystem)
	}
	return causes
}

func specToMEnt(s EntSpec) *MEnt {
	return &MEnt{Name: s.Name, Alias: s.Alias, Roles: SortedSet(s.Roles), Note: s.Note, Ref: s.Ref, Serial: s.Serial, IsSystem: s.IsSystem, TagV: s.TagV, Kid: map[string]string{}}
}

// Create predicts and applies a create through store (a top-level store name or a child store name).
// It returns the applicable rejection causes; nil means the operation is accepted and was applied.
func (m *Model) Create(store, id string, s EntSpec, system bool) []string {
	if id == "" {
		return []string{ErrSome}
	}
	if s.BadTags != "" {
		if _, exists := m.Ents[m.BaseStore(store)][id]; !exists {
			return []string{ErrStorage}
		}
	}
	if cc, isChild := m.childCfg(store); isChild {
		parent := cc.Parent
		if e, ok := m.Ents[parent][id]; ok {
			if _, has := e.Kid[store]; has {
				return []string{ErrExists}
			}
			return []string{Unspecified} // turning an existing plain parent into a child entity
		}
		next := specToMEnt(s)
		r := m.checkWrite(parent, id, nil, next, system)
		if cc.UniqueExtra && s.Extra != "" && m.extraHolder(store, s.Extra, id) != "" {
			r = append(r, ErrDuplicate)
		}
		if len(r) > 0 {
			return r
		}
		next.Kid[store] = s.Extra
		trial := m.Clone()
		trial.Ents[parent][id] = next
		if r := trial.persistLinks(store, id, s, nil); len(r) > 0 {
			return r
		}
		*m = *trial
		return nil
	}
	if _, ok := m.Ents[store][id]; ok {
		return []string{ErrExists}
	}
	next := specToMEnt(s)
	if r := m.checkWrite(store, id, nil, next, system); len(r) > 0 {
		return r
	}
	trial := m.Clone()
	trial.Ents[store][id] = next
	if r := trial.persistLinks(store, id, s, nil); len(r) > 0 {
		return r
	}
	*m = *trial
	return nil
}

// persistLinks models PersistContext.SetLinkedIds issued from PersistEntity: the entity (already written into m) is
// persisted through store (top-level or child); fields is the patch selection (nil = everything). The call reaches
// the link collection only when the collection is declared on a store level that takes part in the write.
func (m *Model) persistLinks(store, id string, s EntSpec, fields []string) []string {
	if s.LinkField == "" {
		return nil
	}
	if fields != nil && !contains(fields, s.LinkField) {
		return nil
	}
	base := m.BaseStore(store)
	decl := ""
	for _, l := range m.Cfg.Links {
		if l.RefCounted {
			continue
		}
		for _, side := range [][2]string{{l.A, l.FieldA}, {l.B, l.FieldB}} {
			if side[1] != s.LinkField || m.BaseStore(side[0]) != base {
				continue
			}
			switch {
			case side[0] == base: // declared on the parent: every write of the entity passes the parent's strategy
				decl = side[0]
			case side[0] == store: // declared on the child store the write goes through
				decl = side[0]
			case store == base && m.LinkEndExists(side[0], id): // write through the parent, routed to the child store holding the entity
				decl = side[0]
			}
		}
	}
	if decl == "" {
		return nil
	}
	return m.applyLink(Op{Kind: "setlinks", Store: decl, Field: s.LinkField, ID: id, Keys: s.LinkIDs})
}

// Update predicts and applies an update / patch. fields == nil means full update.
func (m *Model) Update(store, id string, s EntSpec, fields []string, system bool) []string {
	if id == "" {
		return []string{ErrSome}
	}
	parent := store
	cc, viaChild := m.childCfg(store)
	if viaChild {
		parent = cc.Parent
	}
	old, ok := m.Ents[parent][id]
	if !ok {
		return []string{ErrNotFound}
	}
	if viaChild {
		if _, has := old.Kid[store]; !has && !cc.Extended {
			return []string{ErrNotFound}
		}
		if _, has := old.Kid[store]; !has && cc.Extended {
			return []string{Unspecified} // writing extended data for a parent that has none yet
		}
	}
	sel := func(f string) bool {
		if fields == nil {
			return true
		}
		for _, x := range fields {
			if x == f {
				return true
			}
		}
		return false
	}
	next := old.clone()
	if sel(FName) {
		next.Name = s.Name
	}
	if sel(FAlias) {
		next.Alias = s.Alias
	}
	if sel(FRoles) {
		next.Roles = SortedSet(s.Roles)
	}
	if sel(FNote) {
		next.Note = s.Note
	}
	if sel(FRef) {
		next.Ref = s.Ref
	}
	if sel(FSerial) {
		next.Serial = s.Serial
	}
	if sel(boltz.FieldTags) && s.BadTags == "top-level" || sel(FData) && s.BadTags == "nested-in-list" {
		return []string{ErrStorage}
	}
	if sel(boltz.FieldTags) {
		next.TagV = s.TagV
	}
	// which child store (if any) receives the write
	target := ""
	if viaChild {
		target = store
	} else {
		for _, c := range m.Cfg.Children {
			if c.Parent == parent {
				if _, has := old.Kid[c.Name]; has {
					target = c.Name
					break
				}
			}
		}
	}
	var kidCauses []string
	if target != "" && viaChild && sel(FExtra) {
		if cc.UniqueExtra && s.Extra != "" && s.Extra != old.Kid[target] && m.extraHolder(target, s.Extra, id) != "" {
			kidCauses = append(kidCauses, ErrDuplicate)
		}
		next.Kid[target] = s.Extra
	}
	if r := append(m.checkWrite(parent, id, old, next, system), kidCauses...); len(r) > 0 {
		return r
	}
	trial := m.Clone()
	trial.Ents[parent][id] = next
	if r := trial.persistLinks(store, id, s, fields); len(r) > 0 {
		return r
	}
	*m = *trial
	return nil
}

// Referrers returns store -> ids referencing the entity id of targetStore (or of one of the child stores over the
// same parent: a reference to a child store names the same entity) through a wired ref.
func (m *Model) Referrers(targetStore, id string) map[string][]string {
	out := map[string][]string{}
	for _, sc := range m.Cfg.Stores {
		if sc.RefTo == "" || m.BaseStore(sc.RefTo) != m.BaseStore(targetStore) || sc.RefWiring == WireNone {
			continue
		}
		for rid, e := range m.Ents[sc.Name] {
			if e.Ref != nil && *e.Ref == id {
				out[sc.Name] = append(out[sc.Name], rid)
			}
		}
		sort.Strings(out[sc.Name])
	}
	return out
}

// Delete predicts and applies a delete (through a top-level or child store).
func (m *Model) Delete(store, id string, system bool) []string {
	parent := store
	cc, viaChild := m.childCfg(store)
	if viaChild {
		parent = cc.Parent
	}
	e, ok := m.Ents[parent][id]
	if !ok {
		return []string{ErrNotFound}
	}
	if viaChild {
		if _, has := e.Kid[store]; !has {
			return []string{Unspecified} // deleting a plain parent entity through a child store
		}
	}
	trial := m.Clone()
	if r := trial.deleteRec(parent, id, system, map[string]bool{}); r != OK {
		return []string{r}
	}
	*m = *trial
	return nil
}

// DeleteWhere predicts and applies "delete every entity of the store's population whose name equals the value".
func (m *Model) DeleteWhere(store, name string, system bool) []string {
	return m.DeleteWhereField(store, FName, name, system)
}

// DeleteWhereField is DeleteWhere with the filter "<field> = value" for field name or note.
func (m *Model) DeleteWhereField(store, field, name string, system bool) []string {
	parent := m.BaseStore(store)
	cc, viaChild := m.childCfg(store)
	if viaChild && cc.Extended {
		return []string{Unspecified}
	}
	var ids []string
	for id, e := range m.Ents[parent] {
		if field == FName && e.Name != name || field == FNote && e.Note != name {
			continue
		}
		if viaChild {
			if _, has := e.Kid[store]; !has {
				continue // a plain parent entity is not part of the child store's population
			}
		}
		ids = append(ids, id)
	}
	sort.Strings(ids)
	trial := m.Clone()
	for _, id := range ids {
		if _, still := trial.Ents[parent][id]; !still {
			continue
		}
		if r := trial.deleteRec(parent, id, system, map[string]bool{}); r != OK {
			return []string{r}
		}
	}
	*m = *trial
	return nil
}

func (m *Model) deleteRec(store, id string, system bool, visiting map[string]bool) string {
	key := store + "/" + id
	if visiting[key] {
		return Unspecified // cascade cycle
	}
	visiting[key] = true
	e := m.Ents[store][id]
	sc := m.storeCfg(store)
	if sc.System && e.IsSystem && !system {
		return ErrSystem
	}
	refs := m.Referrers(store, id)
	selfOnly := false
	// restrict first: any restrict-wired referrer refuses the delete whatever the order of the constraints
	for _, rc := range m.Cfg.Stores {
		if len(refs[rc.Name]) == 0 {
			continue
		}
		switch rc.RefWiring {
		case WireFkIndexNullable, WireFkIndex, WireConstraintNone:
			if rc.Name == store && len(refs[rc.Name]) == 1 && refs[rc.Name][0] == id {
				// the only referrer is the entity itself: whether a self reference blocks the delete is not
				// stated (it disappears together with the entity)
				selfOnly = true
				continue
			}
			return ErrRefExists
		}
	}
	if selfOnly {
		return Unspecified
	}
	for _, rc := range m.Cfg.Stores {
		switch rc.RefWiring {
		case WireConstraintDel, WireFkIndexCascade:
			for _, rid := range refs[rc.Name] {
				if rc.Name == store && rid == id {
					return Unspecified // entity referencing itself through a cascade wiring
				}
				if _, still := m.Ents[rc.Name][rid]; !still {
					continue
				}
				if r := m.deleteRec(rc.Name, rid, system, visiting); r != OK {
					return r
				}
			}
		}
	}
	// links disappear on both sides
	for coll, as := range m.Links {
		lc := m.linkCfg(coll)
		if m.BaseStore(lc.A) == store {
			delete(as, id)
		}
		if m.BaseStore(lc.B) == store {
			for a := range as {
				delete(as[a], id)
			}
		}
	}
	delete(m.Ents[store], id)
	return OK
}

// BaseStore maps a child store name to its parent store (top-level stores map to themselves).
func (m *Model) BaseStore(name string) string {
	if cc, ok := m.childCfg(name); ok {
		return cc.Parent
	}
	return name
}

// RefTargetExists: whether id is a valid target of the store's reference. The engine looks the target up in the store
// that keeps the back-reference set: with BackRefOnParent that is the parent store, whatever the reference is declared against.
func (m *Model) RefTargetExists(sc StoreCfg, id string) bool {
	if sc.BackRefOnParent {
		return m.LinkEndExists(m.BaseStore(sc.RefTo), id)
	}
	return m.LinkEndExists(sc.RefTo, id)
}

// LinkEndExists reports whether id exists as an entity of the given store (for a child store: has child data there).
func (m *Model) LinkEndExists(store, id string) bool {
	e, ok := m.Ents[m.BaseStore(store)][id]
	if !ok {
		return false
	}
	if _, isChild := m.childCfg(store); isChild {
		_, has := e.Kid[store]
		return has
	}
	return true
}

func (m *Model) linkCfg(coll string) LinkCfg {
	for _, l := range m.Cfg.Links {
		if l.A+"."+l.FieldA == coll {
			return l
		}
	}
	panic("no link collection " + coll)
}

// Canonical maps a (store, field) side of a link collection to its canonical key and whether the side is flipped.
func (m *Model) Canonical(store, field string) (string, bool, bool) {
	for _, l := range m.Cfg.Links {
		if l.A == store && l.FieldA == field {
			return l.A + "." + l.FieldA, false, true
		}
		if l.B == store && l.FieldB == field {
			return l.A + "." + l.FieldA, true, true
		}
	}
	return "", false, false
}

// LinkCount returns the model's count for (a in A) <-> (b in B) of the canonical collection.
func (m *Model) LinkCount(coll, a, b string) int {
	return m.Links[coll][a][b]
}

func (m *Model) SetLinkCount(coll, a, b string, n int) {
	if n <= 0 {
		if m.Links[coll][a] != nil {
			delete(m.Links[coll][a], b)
			if len(m.Links[coll][a]) == 0 {
				delete(m.Links[coll], a)
			}
		}
		return
	}
	if m.Links[coll][a] == nil {
		m.Links[coll][a] = map[string]int{}
	}
	m.Links[coll][a][b] = n
}

// LinkedFrom returns the sorted ids linked to id when looking from the given side.
func (m *Model) LinkedFrom(coll string, flipped bool, id string) []string {
	var out []string
	if !flipped {
		for b := range m.Links[coll][id] {
			out = append(out, b)
		}
	} else {
		for a, bs := range m.Links[coll] {
			if _, ok := bs[id]; ok {
				out = append(out, a)
			}
		}
	}
	sort.Strings(out)
	return out
}
