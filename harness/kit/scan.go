package kit

import (
	"fmt"
	"sort"
	"sync/atomic"
	"time"

	"github.com/openziti/storage/ast"
	"github.com/openziti/storage/boltz"
	"go.etcd.io/bbolt"
)

// Val is a nullable typed scalar as stored in a bucket.
// K: "absent" (no key), "null" (explicit nil), "s", "i" (int64), "i32", "f", "b", "t".
type Val struct {
	K string  `json:"k"`
	S string  `json:"s,omitempty"`
	I int64   `json:"i,omitempty"`
	F float64 `json:"f,omitempty"`
	B bool    `json:"b,omitempty"`
	T string  `json:"t,omitempty"` // RFC3339Nano
}

func (v Val) IsNull() bool { return v.K == "" || v.K == "absent" || v.K == "null" }

func (v Val) Time() time.Time {
	t, err := time.Parse(time.RFC3339Nano, v.T)
	if err != nil {
		panic(fmt.Sprintf("bad time in case: %q", v.T))
	}
	return t
}

func (v Val) String() string {
	switch v.K {
	case "s":
		return fmt.Sprintf("%q", v.S)
	case "i", "i32":
		return fmt.Sprintf("%d", v.I)
	case "f":
		return fmt.Sprintf("%v(f)", v.F)
	case "b":
		return fmt.Sprintf("%v", v.B)
	case "t":
		return v.T
	}
	return "null"
}

func SV(s string) Val  { return Val{K: "s", S: s} }
func IV(i int64) Val   { return Val{K: "i", I: i} }
func I32V(i int64) Val { return Val{K: "i32", I: i} }
func FV(f float64) Val { return Val{K: "f", F: f} }
func BV(b bool) Val    { return Val{K: "b", B: b} }
func TV(t string) Val  { return Val{K: "t", T: t} }
func NullV() Val       { return Val{K: "null"} }
func AbsentV() Val     { return Val{K: "absent"} }

// StrSet is a string set field: Present=false means no bucket at all.
type StrSet struct {
	Present bool     `json:"present"`
	Elems   []string `json:"elems,omitempty"`
}

func (s StrSet) Sorted() []string {
	m := map[string]bool{}
	for _, e := range s.Elems {
		m[e] = true
	}
	out := make([]string, 0, len(m))
	for e := range m {
		out = append(out, e)
	}
	sort.Strings(out)
	return out
}

type Person struct {
	ID     string         `json:"id"`
	F      map[string]Val `json:"f"` // sa sb ia ib fa ba ta boss home
	Roles  StrSet         `json:"roles"`
	Nums   StrSet         `json:"nums"`
	Places StrSet         `json:"places"`
	Peers  StrSet         `json:"peers"`
	Tags   map[string]Val `json:"tags,omitempty"`
	// SubTags are stored one level deeper, under tags/sub/<key> (nested map elements, symbol tags.sub.<key>)
	SubTags map[string]Val `json:"subTags,omitempty"`
	// DeepTags are stored two levels deeper, under tags/sub/deep/<key> (symbol tags.sub.deep.<key>, four segments)
	DeepTags map[string]Val `json:"deepTags,omitempty"`
	NoTags   bool           `json:"noTags,omitempty"` // no tags bucket at all
	// Staff: the person has child data in the "staff" child store (bucket ext_staff inside the person's bucket)
	Staff bool `json:"staff,omitempty"`
}

type Place struct {
	ID         string `json:"id"`
	Name       Val    `json:"name"`
	N          Val    `json:"n"`
	Businesses StrSet `json:"businesses"`
	People     StrSet `json:"people"`
}

type Dataset struct {
	Variant int      `json:"variant"`
	People  []Person `json:"people"`
	Places  []Place  `json:"places"`
}

func (d *Dataset) PersonByID(id string) *Person {
	for i := range d.People {
		if d.People[i].ID == id {
			return &d.People[i]
		}
	}
	return nil
}

func (d *Dataset) PlaceByID(id string) *Place {
	for i := range d.Places {
		if d.Places[i].ID == id {
			return &d.Places[i]
		}
	}
	return nil
}

// ScanSchema holds the two scan stores built the way boltz/query_test.go builds them.
type ScanSchema struct {
	Variant int
	People  *boltz.BaseStore[boltz.Entity]
	Places  *boltz.BaseStore[boltz.Entity]
	// Staff is a child store over People (population: people with child data), StaffX an extended one (all people)
	Staff  *boltz.BaseStore[boltz.Entity]
	StaffX *boltz.BaseStore[boltz.Entity]
	// Twin is another store whose symbols have the same names as People's but other types (sa is a number there,
	// ia a string ...): the same filter text means something else for it
	Twin *boltz.BaseStore[boltz.Entity]
	// ext is the application state behind the function symbols fx (string, may be null) and bx (bool) of the people
	// store: nothing of it is stored in the database
	ext atomic.Pointer[ExtState]
}

// ExtState is application state the function symbols of the people store compute their values from.
type ExtState struct {
	Fx map[string]*string
	Bx map[string]bool
}

// SetExt replaces the application state behind fx / bx (nil: fx is "fx-"+id for ids ending in an even byte and null
// for the others, bx is true for ids ending in an even byte).
func (s *ScanSchema) SetExt(e *ExtState) { s.ext.Store(e) }

func (s *ScanSchema) fx(id string) *string {
	if e := s.ext.Load(); e != nil {
		return e.Fx[id]
	}
	if len(id) == 0 || id[len(id)-1]%2 == 1 {
		return nil
	}
	v := "fx-" + id
	return &v
}

func (s *ScanSchema) bx(id string) bool {
	if e := s.ext.Load(); e != nil {
		return e.Bx[id]
	}
	return len(id) > 0 && id[len(id)-1]%2 == 0
}

// scanEnt / scanStrategy: the scan stores are written with TypedBucket setters; the strategy only exists so that the
// store's delete operations, which load the entity first, can be used on them
type scanEnt struct{ Id string }

func (e *scanEnt) GetId() string         { return e.Id }
func (e *scanEnt) SetId(id string)       { e.Id = id }
func (e *scanEnt) GetEntityType() string { return "people" }

type scanStrategy struct{}

func (scanStrategy) NewEntity() boltz.Entity                           { return &scanEnt{} }
func (scanStrategy) FillEntity(boltz.Entity, *boltz.TypedBucket)       {}
func (scanStrategy) PersistEntity(boltz.Entity, *boltz.PersistContext) {}

// symbol layout helpers (variant bit 0: symbol name != bucket key; bit 1: some symbols under a prefix path)
func (s *ScanSchema) keyOf(field string) string {
	if s.Variant&1 != 0 && (field == "sa" || field == "ia" || field == "tags") {
		return field + "_k" // (the tag map as well: its symbol name differs from the bucket it lives in)
	}
	return field
}

func (s *ScanSchema) prefixOf(field string) []string {
	if s.Variant&2 != 0 && (field == "sb" || field == "fa" || field == "tags") {
		return []string{"edge"}
	}
	return nil
}

var PeopleScalarTypes = map[string]ast.NodeType{
	"sa": ast.NodeTypeString, "sb": ast.NodeTypeString,
	"ia": ast.NodeTypeInt64, "ib": ast.NodeTypeInt64,
	"fa": ast.NodeTypeFloat64, "ba": ast.NodeTypeBool, "ta": ast.NodeTypeDatetime,
}

func NewScanSchema(variant int) *ScanSchema {
	s := &ScanSchema{Variant: variant}
	s.People = boltz.NewBaseStore(boltz.StoreDefinition[boltz.Entity]{EntityType: "people", BasePath: []string{"application"}, EntityStrategy: scanStrategy{}})
	s.People.InitImpl(s.People)
	s.Places = boltz.NewBaseStore(boltz.StoreDefinition[boltz.Entity]{EntityType: "places", BasePath: []string{"application"}})

	p := s.People
	p.AddIdSymbol("id", ast.NodeTypeString)
	for _, f := range []string{"sa", "sb", "ia", "ib", "fa", "ba", "ta"} {
		p.AddSymbolWithKey(f, PeopleScalarTypes[f], s.keyOf(f), s.prefixOf(f)...)
	}
	p.AddSetSymbol("roles", ast.NodeTypeString)
	p.AddSetSymbol("nums", ast.NodeTypeString)
	p.AddFkSymbol("boss", p)
	p.AddFkSymbol("home", s.Places)
	p.AddFkSetSymbol("places", s.Places)
	p.AddFkSetSymbol("peers", p)
	p.AddMapSymbol("tags", ast.NodeTypeAnyType, s.keyOf("tags"), s.prefixOf("tags")...)
	p.AddEntitySymbol(boltz.NewStringFuncSymbol(p, "fx", s.fx))
	p.AddEntitySymbol(boltz.NewBoolFuncSymbol(p, "bx", s.bx))

	q := s.Places
	q.AddIdSymbol("id", ast.NodeTypeString)
	q.AddSymbol("name", ast.NodeTypeString)
	q.AddSymbol("n", ast.NodeTypeInt64)
	q.AddSetSymbol("businesses", ast.NodeTypeString)
	q.AddFkSetSymbol("people", p)

	tw := boltz.NewBaseStore(boltz.StoreDefinition[boltz.Entity]{EntityType: "twins", BasePath: []string{"application"}})
	tw.AddIdSymbol("id", ast.NodeTypeString)
	for f, typ := range map[string]ast.NodeType{"sa": ast.NodeTypeInt64, "sb": ast.NodeTypeFloat64, "ia": ast.NodeTypeString, "ib": ast.NodeTypeString,
		"fa": ast.NodeTypeString, "ba": ast.NodeTypeString, "ta": ast.NodeTypeString, "boss": ast.NodeTypeInt64, "home": ast.NodeTypeInt64} {
		tw.AddSymbol(f, typ)
	}
	tw.AddSetSymbol("roles", ast.NodeTypeInt64)
	tw.AddSetSymbol("nums", ast.NodeTypeInt64)
	tw.AddMapSymbol("tags", ast.NodeTypeAnyType, "tags")
	s.Twin = tw

	s.Staff = boltz.NewBaseStore(boltz.StoreDefinition[boltz.Entity]{Parent: p, BasePath: []string{"ext_staff"}})
	p.GrantSymbols(s.Staff)
	s.Staff.AddSymbol("grade", ast.NodeTypeString)
	s.StaffX = boltz.NewBaseStore(boltz.StoreDefinition[boltz.Entity]{Parent: p, BasePath: []string{"ext_staffx"}}).Extended()
	p.GrantSymbols(s.StaffX)
	return s
}

func setVal(b *boltz.TypedBucket, key string, v Val) {
	switch v.K {
	case "", "absent":
	case "null":
		b.SetNil(key)
	case "s":
		b.SetString(key, v.S, nil)
	case "i":
		b.SetInt64(key, v.I, nil)
	case "i32":
		b.SetInt32(key, int32(v.I), nil)
	case "f":
		b.SetFloat64(key, v.F, nil)
	case "b":
		b.SetBool(key, v.B, nil)
	case "t":
		t := v.Time()
		b.SetTimeP(key, &t, nil)
	default:
		panic("unknown val kind " + v.K)
	}
}

func setSet(b *boltz.TypedBucket, key string, s StrSet) {
	if s.Present {
		b.SetStringList(key, s.Elems, nil)
	}
}

// Write stores the dataset with TypedBucket setters, the pattern of boltz/query_test.go.
func (s *ScanSchema) Write(db *bbolt.DB, d *Dataset) error {
	return db.Update(func(tx *bbolt.Tx) error {
		placesBucket := boltz.GetOrCreatePath(tx, "application", "places")
		for _, pl := range d.Places {
			b := placesBucket.GetOrCreatePath(pl.ID)
			setVal(b, "name", pl.Name)
			setVal(b, "n", pl.N)
			setSet(b, "businesses", pl.Businesses)
			setSet(b, "people", pl.People)
			if b.HasError() {
				return b.GetError()
			}
		}
		peopleBucket := boltz.GetOrCreatePath(tx, "application", "people")
		for _, pe := range d.People {
			b := peopleBucket.GetOrCreatePath(pe.ID)
			for _, f := range []string{"sa", "sb", "ia", "ib", "fa", "ba", "ta", "boss", "home"} {
				v, ok := pe.F[f]
				if !ok {
					continue
				}
				target := b
				if pre := s.prefixOf(f); len(pre) > 0 && v.K != "absent" && v.K != "" {
					target = b.GetOrCreatePath(pre...)
				}
				setVal(target, s.keyOf(f), v)
				if target.HasError() {
					return target.GetError()
				}
			}
			setSet(b, "roles", pe.Roles)
			setSet(b, "nums", pe.Nums)
			setSet(b, "places", pe.Places)
			setSet(b, "peers", pe.Peers)
			if pe.Staff {
				b.GetOrCreatePath("ext_staff").SetString("grade", "g"+pe.ID, nil)
			}
			if !pe.NoTags {
				target := b
				if pre := s.prefixOf("tags"); len(pre) > 0 {
					target = b.GetOrCreatePath(pre...)
				}
				tb := target.GetOrCreatePath(s.keyOf("tags"))
				keys := make([]string, 0, len(pe.Tags))
				for k := range pe.Tags {
					keys = append(keys, k)
				}
				sort.Strings(keys)
				for _, k := range keys {
					setVal(tb, k, pe.Tags[k])
				}
				if len(pe.SubTags) > 0 {
					sb := tb.GetOrCreatePath("sub")
					skeys := make([]string, 0, len(pe.SubTags))
					for k := range pe.SubTags {
						skeys = append(skeys, k)
					}
					sort.Strings(skeys)
					for _, k := range skeys {
						setVal(sb, k, pe.SubTags[k])
					}
					if len(pe.DeepTags) > 0 {
						db := sb.GetOrCreatePath("deep")
						dkeys := make([]string, 0, len(pe.DeepTags))
						for k := range pe.DeepTags {
							dkeys = append(dkeys, k)
						}
						sort.Strings(dkeys)
						for _, k := range dkeys {
							setVal(db, k, pe.DeepTags[k])
						}
						if db.HasError() {
							return db.GetError()
						}
					}
					if sb.HasError() {
						return sb.GetError()
					}
				}
				if tb.HasError() {
					return tb.GetError()
				}
			}
			if b.HasError() {
				return b.GetError()
			}
		}
		return nil
	})
}
