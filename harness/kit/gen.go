package kit

import (
	"fmt"
	"math"

	"pgregory.net/rapid"
)

// ---------------------------------------------------------------------------------------------
// value universes (small on purpose: matches, near misses and ties must be frequent)
// ---------------------------------------------------------------------------------------------

var UStr = []string{"", "a", "A", "ab", "aB", "b", "Bob", "bob", "10", "9", "3", "3.5", "x y", "-1", "2500000.5", "0.00005"}
var UInt = []int64{0, 1, 2, 3, 9, 10, -1, -7, 1 << 40, math.MaxInt32 + 1, 1<<53 + 1, math.MaxInt64, math.MinInt64 + 1,
	// neighbours above 2^53, where float64 can no longer tell integers apart
	1 << 53, 1<<53 + 2, math.MaxInt64 - 1}
var UInt32 = []int64{0, 1, 2, 3, 9, 10, -1, math.MaxInt32, math.MinInt32}
var UFloat = []float64{0, math.Copysign(0, -1), 0.5, 1, 2.5, 3, 3.5, 10, -1.5, 1e3, 1e-3, 9007199254740992, 2500000.5, 0.00005}
var UTime = []string{"0001-01-01T00:00:00Z", "2020-01-01T00:00:00Z", "2020-01-01T01:00:00+01:00", "2020-01-01T00:00:00.000000001Z", "2021-06-15T12:30:00.5Z", "1999-12-31T23:59:59-05:00", "1960-02-29T10:00:00Z",
	// instants outside the range a count of nanoseconds since 1970 can express
	"9999-12-31T23:59:59Z", "2300-01-01T00:00:00Z", "1600-01-01T00:00:00Z"}
var URole = []string{"", "a", "b", "Bob", "r", "R", "10", "3"}
var UNum = []string{"1", "3", "10", "9", "3.5", "-1", "007"}
var UBiz = []string{"a", "b", "Hotel", "hotel", ""}
var UTagKeys = []string{"k", "n", "s"}

var PeopleIDs = []string{"p1", "p2", "p3", "p4", "p5", "p6", "p7", "p8", "p9", "pA", "pB", "pa"}
var PlaceIDs = []string{"q1", "q2", "q3", "q4"}

const DanglingID = "zz"

func pick[T any](t *rapid.T, label string, xs []T) T {
	return xs[rapid.IntRange(0, len(xs)-1).Draw(t, label)]
}

func chance(t *rapid.T, label string, percent int) bool {
	return rapid.IntRange(0, 99).Draw(t, label) < percent
}

func genNullable(t *rapid.T, label string, gen func() Val) Val {
	switch x := rapid.IntRange(0, 9).Draw(t, label+"_null"); {
	case x == 0:
		return AbsentV()
	case x <= 2:
		return NullV()
	}
	return gen()
}

func genSubset(t *rapid.T, label string, u []string, max int) StrSet {
	switch rapid.IntRange(0, 7).Draw(t, label+"_shape") {
	case 0:
		return StrSet{Present: false}
	case 1:
		return StrSet{Present: true}
	}
	n := rapid.IntRange(1, max).Draw(t, label+"_n")
	var el []string
	seen := map[string]bool{}
	for i := 0; i < n; i++ {
		x := pick(t, label+"_el", u)
		if !seen[x] {
			seen[x] = true
			el = append(el, x)
		}
	}
	return StrSet{Present: true, Elems: el}
}

func genTagVal(t *rapid.T, label, key string) Val {
	switch key {
	case "n":
		switch rapid.IntRange(0, 3).Draw(t, label+"_kind") {
		case 0:
			return IV(pick(t, label+"_i", UInt[:8]))
		case 1:
			return I32V(pick(t, label+"_i32", UInt32[:6]))
		case 2:
			return FV(pick(t, label+"_f", UFloat[:8]))
		}
		return NullV()
	case "s":
		if chance(t, label+"_nul", 15) {
			return NullV()
		}
		return SV(pick(t, label+"_s", UStr))
	}
	switch rapid.IntRange(0, 5).Draw(t, label+"_kind") {
	case 0:
		return SV(pick(t, label+"_s", UStr))
	case 1:
		return IV(pick(t, label+"_i", UInt[:8]))
	case 2:
		return FV(pick(t, label+"_f", UFloat[:8]))
	case 3:
		return BV(rapid.Bool().Draw(t, label+"_b"))
	case 4:
		return TV(pick(t, label+"_t", UTime))
	}
	return NullV()
}

// GenDataset draws a dataset over the scan schema.
func GenDataset(t *rapid.T, maxPeople, maxPlaces int) *Dataset {
	d := &Dataset{Variant: rapid.IntRange(0, 3).Draw(t, "variant")}
	nPlaces := rapid.IntRange(0, maxPlaces).Draw(t, "nPlaces")
	nPeople := rapid.IntRange(0, maxPeople).Draw(t, "nPeople")
	placeIDs := PlaceIDs[:nPlaces]
	peopleIDs := PeopleIDs[:nPeople]
	placeRefs := append(append([]string{}, placeIDs...), DanglingID)
	peopleRefs := append(append([]string{}, peopleIDs...), DanglingID)
	for i, id := range placeIDs {
		l := fmt.Sprintf("pl%d", i)
		d.Places = append(d.Places, Place{
			ID:         id,
			Name:       genNullable(t, l+"_name", func() Val { return SV(pick(t, l+"_namev", UStr)) }),
			N:          genNullable(t, l+"_n", func() Val { return IV(pick(t, l+"_nv", UInt[:8])) }),
			Businesses: genSubset(t, l+"_biz", UBiz, 3),
			People:     genSubset(t, l+"_people", peopleRefs, 3),
		})
	}
	for i, id := range peopleIDs {
		l := fmt.Sprintf("pe%d", i)
		p := Person{ID: id, F: map[string]Val{}}
		p.F["sa"] = genNullable(t, l+"_sa", func() Val { return SV(pick(t, l+"_sav", UStr)) })
		p.F["sb"] = genNullable(t, l+"_sb", func() Val { return SV(pick(t, l+"_sbv", UStr)) })
		p.F["ia"] = genNullable(t, l+"_ia", func() Val { return IV(pick(t, l+"_iav", UInt)) })
		p.F["ib"] = genNullable(t, l+"_ib", func() Val { return I32V(pick(t, l+"_ibv", UInt32)) })
		p.F["fa"] = genNullable(t, l+"_fa", func() Val { return FV(pick(t, l+"_fav", UFloat)) })
		p.F["ba"] = genNullable(t, l+"_ba", func() Val { return BV(rapid.Bool().Draw(t, l+"_bav")) })
		p.F["ta"] = genNullable(t, l+"_ta", func() Val { return TV(pick(t, l+"_tav", UTime)) })
		// (a reference may also be stored as the empty string, which names nothing)
		p.F["boss"] = genNullable(t, l+"_boss", func() Val { return SV(pick(t, l+"_bossv", append(append([]string{}, peopleRefs...), ""))) })
		p.F["home"] = genNullable(t, l+"_home", func() Val { return SV(pick(t, l+"_homev", append(append([]string{}, placeRefs...), ""))) })
		p.Roles = genSubset(t, l+"_roles", URole, 4)
		p.Nums = genSubset(t, l+"_nums", UNum, 4)
		p.Places = genSubset(t, l+"_places", placeRefs, 3)
		p.Peers = genSubset(t, l+"_peers", peopleRefs, 3)
		switch rapid.IntRange(0, 5).Draw(t, l+"_tagshape") {
		case 0:
			p.NoTags = true
		case 1:
			p.Tags = map[string]Val{}
		default:
			p.Tags = map[string]Val{}
			for _, k := range UTagKeys {
				if chance(t, l+"_tag_"+k, 70) {
					p.Tags[k] = genTagVal(t, l+"_tagv_"+k, k)
				}
			}
			if chance(t, l+"_subtags", 50) {
				p.SubTags = map[string]Val{}
				for _, k := range []string{"k", "n"} {
					if chance(t, l+"_subtag_"+k, 70) {
						p.SubTags[k] = genTagVal(t, l+"_subtagv_"+k, k)
					}
				}
				if len(p.SubTags) > 0 && chance(t, l+"_deeptags", 50) {
					p.DeepTags = map[string]Val{"k": genTagVal(t, l+"_deeptagv_k", "k")}
				}
			}
		}
		d.People = append(d.People, p)
	}
	return d
}

// ---------------------------------------------------------------------------------------------
// filter generator: grammar-directed and type-directed; emits the reference AST (text is rendered from it)
// ---------------------------------------------------------------------------------------------

// GenOpts tunes the filter generator.
type GenOpts struct {
	NoSets      bool // only non-set atoms (C19)
	NoMaps      bool
	NoDotted    bool
	NoSubQuery  bool
	SelfLinks   bool            // sub-queries only over link sets that point back at the same store (C20)
	PreferSets  []symSpec       // set symbols drawn preferentially (40 %) by set-function atoms: the sub-query generator uses it to re-use the link symbol it iterates
	SubSort     []string        // when set, sub-queries sometimes carry a "sort by" over these symbols
	Boost       map[string]int  // multiplies the weight of an atom kind (scalar null boolsym const setfn count isempty subcount subempty)
	Exclude     map[string]bool // atom classes excluded by construction (known findings); counted by the caller
	Classes     *[]string
	ExcludedHit *int
}

func (o *GenOpts) label(c string) {
	if o.Classes != nil {
		*o.Classes = append(*o.Classes, c)
	}
}

type symSpec struct {
	name string
	decl string // s i f b t any
}

var peopleScalars = []symSpec{{"id", "s"}, {"sa", "s"}, {"sb", "s"}, {"ia", "i"}, {"ib", "i"}, {"fa", "f"}, {"ba", "b"}, {"ta", "t"}, {"boss", "s"}, {"home", "s"}}
var peopleDottedScalars = []symSpec{{"boss.sa", "s"}, {"boss.ia", "i"}, {"boss.fa", "f"}, {"boss.ba", "b"}, {"boss.ta", "t"}, {"home.name", "s"}, {"home.n", "i"}, {"boss.boss.sa", "s"}, {"boss.home.name", "s"}, {"boss.boss", "s"}}
var peopleMapScalars = []symSpec{{"tags.k", "any"}, {"tags.n", "any"}, {"tags.s", "any"}, {"tags.missing", "any"}, {"tags.sub.k", "any"}, {"tags.sub.n", "any"}, {"tags.sub.deep.k", "any"}}
var peopleDottedMaps = []symSpec{{"boss.tags.k", "any"}}
var peopleSetsDirect = []symSpec{{"roles", "s"}, {"nums", "s"}, {"places", "s"}, {"peers", "s"}}
var peopleSetsDotted = []symSpec{{"places.name", "s"}, {"places.n", "i"}, {"places.businesses", "s"}, {"boss.roles", "s"}, {"boss.places", "s"}, {"boss.places.name", "s"}, {"places.people", "s"}, {"places.people.sa", "s"}, {"places.people.ia", "i"}, {"peers.sa", "s"}, {"peers.roles", "s"}, {"peers.boss.sa", "s"}, {"peers.home.name", "s"}, {"places.people.boss.ia", "i"}, {"boss.peers.boss.sa", "s"}, {"peers.peers.sa", "s"}, {"peers.boss.roles", "s"}, {"peers.boss.boss.sa", "s"}, {"peers.boss.tags.k", "any"}, {"places.people.peers.home.name", "s"}}
var placesScalars = []symSpec{{"id", "s"}, {"name", "s"}, {"n", "i"}}
var placesSetsDirect = []symSpec{{"businesses", "s"}, {"people", "s"}}
var placesSetsDotted = []symSpec{{"people.sa", "s"}, {"people.roles", "s"}, {"people.ia", "i"}}

func genConst(t *rapid.T, l string, kind string) (Val, string) {
	switch kind {
	case "s":
		return SV(pick(t, l+"_cs", UStr)), ""
	case "i":
		return IV(pick(t, l+"_ci", UInt)), ""
	case "f":
		f := pick(t, l+"_cf", UFloat)
		txt := ""
		if chance(t, l+"_exp", 10) {
			// exponent spelling of the same value
			switch f {
			case 1e3:
				txt = "1e3"
			case 2.5:
				txt = "25E-1"
			case 10:
				txt = "1.0e+1"
			}
		}
		return FV(f), txt
	case "b":
		b := rapid.Bool().Draw(t, l+"_cb")
		txt := ""
		if chance(t, l+"_bcase", 10) {
			if b {
				txt = "TRUE"
			} else {
				txt = "False"
			}
		}
		return BV(b), txt
	case "t":
		v := pick(t, l+"_ct", UTime)
		return TV(v), ""
	}
	panic("bad const kind")
}

var cmpOps = []string{"=", "!=", "<", "<=", ">", ">="}

// constKindsFor lists the constant kinds a left side of the declared kind accepts for comparisons.
func constKindsFor(decl string) []string {
	switch decl {
	case "s":
		return []string{"s", "s", "s", "i", "f"}
	case "i":
		return []string{"i", "i", "f"}
	case "f":
		return []string{"f", "f", "i"}
	case "b":
		return []string{"b"}
	case "t":
		return []string{"t"}
	case "any":
		return []string{"s", "i", "f", "b", "t"}
	}
	panic("bad decl " + decl)
}

// genAtomOn draws a comparison-style atom (cmp / in / between / contains) for a left side.
func genAtomOn(t *rapid.T, l string, lhs *LHS, decl string, o *GenOpts) *Expr {
	shapes := []string{"cmp", "cmp", "cmp", "in", "between", "contains", "icontains"}
	for tries := 0; ; tries++ {
		shape := pick(t, fmt.Sprintf("%s_shape%d", l, tries), shapes)
		e := &Expr{L: lhs}
		fn := lhs.Fn
		if fn == "" {
			fn = "scalar"
		}
		switch shape {
		case "cmp":
			ck := pick(t, l+"_ck", constKindsFor(decl))
			op := pick(t, l+"_op", cmpOps)
			if ck == "b" {
				op = pick(t, l+"_bop", []string{"=", "!="})
			}
			e.Op, e.Cmp = "cmp", op
			c, txt := genConst(t, l, ck)
			e.C, e.Txt = []Val{c}, []string{txt}
			o.label(fmt.Sprintf("cmp:%s:%s%s:%s", fn, decl, op, ck))
			if decl != ck && !(decl == "any") {
				o.label("coercion")
			}
		case "in":
			var cks []string
			switch decl {
			case "s":
				cks = []string{"s", "s", "i", "mixed"}
			case "i", "f":
				cks = []string{"i", "mixed", "f", "s"}
			case "t":
				cks = []string{"t"}
			case "any":
				cks = []string{"s", "i", "mixed", "t"}
			default:
				continue
			}
			ck := pick(t, l+"_ick", cks)
			n := rapid.IntRange(1, 4).Draw(t, l+"_in_n")
			e.Op = "in"
			e.Neg = chance(t, l+"_neg", 35)
			for i := 0; i < n; i++ {
				k := ck
				if ck == "mixed" {
					k = pick(t, fmt.Sprintf("%s_mk%d", l, i), []string{"i", "f"})
				}
				c, txt := genConst(t, fmt.Sprintf("%s_in%d", l, i), k)
				e.C = append(e.C, c)
				e.Txt = append(e.Txt, txt)
			}
			o.label(fmt.Sprintf("in:%s:%s:%s:neg=%v", fn, decl, ck, e.Neg))
			if (decl == "s") != (ck == "s") && decl != "any" && decl != "t" {
				o.label("coercion")
			}
		case "between":
			var cks []string
			switch decl {
			case "i", "f":
				cks = []string{"i", "f", "mixed"}
			case "t":
				cks = []string{"t"}
			case "any":
				cks = []string{"i", "f", "t"}
			default:
				continue
			}
			ck := pick(t, l+"_bck", cks)
			e.Op = "between"
			e.Neg = chance(t, l+"_neg", 35)
			for i := 0; i < 2; i++ {
				k := ck
				if ck == "mixed" {
					k = []string{"i", "f"}[i]
				}
				c, txt := genConst(t, fmt.Sprintf("%s_bt%d", l, i), k)
				e.C = append(e.C, c)
				e.Txt = append(e.Txt, txt)
			}
			o.label(fmt.Sprintf("between:%s:%s:%s:neg=%v", fn, decl, ck, e.Neg))
		case "contains", "icontains":
			if decl == "b" || decl == "t" {
				continue
			}
			e.Op = "contains"
			e.ICase = shape == "icontains"
			e.Neg = chance(t, l+"_neg", 35)
			cks := []string{"s", "s", "i", "f"}
			if e.ICase {
				cks = []string{"s"}
				if decl == "i" || decl == "f" {
					continue // number-typed left does not accept icontains
				}
			}
			ck := pick(t, l+"_cck", cks)
			c, txt := genConst(t, l+"_cc", ck)
			e.C, e.Txt = []Val{c}, []string{txt}
			o.label(fmt.Sprintf("%s:%s:%s:%s:neg=%v", shape, fn, decl, ck, e.Neg))
			if decl != "s" || ck != "s" {
				o.label("coercion")
			}
		}
		if cls := AtomClass(e); o.Exclude[cls] {
			if o.ExcludedHit != nil {
				*o.ExcludedHit++
			}
			if tries < 20 {
				continue
			}
		}
		return e
	}
}

// AtomClass names the known-finding signature an atom falls under ("" if none). Decided on the generated
// atom alone, never on a failure message.
func AtomClass(e *Expr) string {
	if e.L == nil {
		return ""
	}
	decl := ""
	if e.L.Fn != "count" {
		// the same symbol names exist in one store only, so try both
		if d, _, ok := DeclKind("people", e.L.Sym); ok {
			decl = d
		} else if d, _, ok := DeclKind("places", e.L.Sym); ok {
			decl = d
		}
	}
	switch {
	case e.L.Fn == "count" && e.L.Sub != nil:
		return "count-subquery"
	case e.Op == "between" && decl == "any":
		return "map-between"
	case e.Op == "contains" && e.ICase && decl == "any":
		return "map-icontains"
	case e.Op == "contains" && e.ICase:
		return "icontains"
	case e.Op == "cmp" && e.L.Fn == "anyOf" && e.Cmp == "!=" && e.C[0].K == "s":
		return "anyof-neq-string"
	case e.Op == "cmp" && decl == "b" && e.L.Fn == "":
		return "bool-compare"
	}
	return ""
}

func scalarsFor(kind string, o *GenOpts) []symSpec {
	if kind == "places" {
		return placesScalars
	}
	out := append([]symSpec{}, peopleScalars...)
	out = append(out, peopleScalars[1:8]...) // weight direct fields
	if !o.NoDotted {
		out = append(out, peopleDottedScalars...)
	}
	if !o.NoMaps {
		out = append(out, peopleMapScalars...)
		out = append(out, peopleMapScalars...)
		if !o.NoDotted {
			out = append(out, peopleDottedMaps...)
		}
	}
	return out
}

func setsFor(kind string, o *GenOpts) []symSpec {
	if kind == "places" {
		out := append([]symSpec{}, placesSetsDirect...)
		if !o.NoDotted {
			out = append(out, placesSetsDotted...)
		}
		return out
	}
	out := append([]symSpec{}, peopleSetsDirect...)
	out = append(out, peopleSetsDirect...)
	if !o.NoDotted {
		out = append(out, peopleSetsDotted...)
	}
	return out
}

// preferred returns o.PreferSets in 40 % of the draws (when set), otherwise all.
func preferred(t *rapid.T, l string, all []symSpec, o *GenOpts) []symSpec {
	if len(o.PreferSets) > 0 && chance(t, l, 40) {
		return o.PreferSets
	}
	return all
}

func linkSetsFor(kind string) []symSpec {
	if kind == "places" {
		return []symSpec{{"people", "people"}}
	}
	return []symSpec{{"places", "places"}, {"peers", "people"}}
}

// GenAtom draws one atom of the filter language for rows of the given kind.
func GenAtom(t *rapid.T, l string, kind string, depth int, o *GenOpts) *Expr {
	type choice struct {
		name string
		w    int
	}
	choices := []choice{{"scalar", 40}, {"null", 8}, {"boolsym", 4}, {"const", 2}}
	if !o.NoSets {
		choices = append(choices, choice{"setfn", 28}, choice{"count", 8}, choice{"isempty", 5})
		if !o.NoSubQuery && depth > 0 {
			choices = append(choices, choice{"subcount", 4}, choice{"subempty", 4})
		}
	}
	total := 0
	for i := range choices {
		if m, ok := o.Boost[choices[i].name]; ok {
			choices[i].w *= m
		}
		total += choices[i].w
	}
	x := rapid.IntRange(0, total-1).Draw(t, l+"_atomkind")
	var which string
	for _, c := range choices {
		if x < c.w {
			which = c.name
			break
		}
		x -= c.w
	}
	switch which {
	case "scalar":
		s := pick(t, l+"_sym", scalarsFor(kind, o))
		cls := "sym:direct"
		if s.decl == "any" {
			cls = "sym:map"
		} else if len(s.name) > 4 && containsDot(s.name) {
			cls = "sym:dotted"
		}
		o.label(cls)
		return genAtomOn(t, l, &LHS{Sym: s.name}, s.decl, o)
	case "null":
		s := pick(t, l+"_nsym", scalarsFor(kind, o))
		o.label("null-test")
		return &Expr{Op: "isnull", L: &LHS{Sym: s.name}, Neg: rapid.Bool().Draw(t, l+"_nneg")}
	case "boolsym":
		o.label("bool-symbol")
		syms := []string{"ba"}
		if kind == "people" && !o.NoDotted {
			syms = append(syms, "boss.ba")
		}
		if kind == "people" && !o.NoMaps {
			syms = append(syms, "tags.k") // a map element used as a condition by itself (true when it holds the bool true)
		}
		if kind == "places" {
			return &Expr{Op: pick(t, l+"_const", []string{"true", "false"})}
		}
		return &Expr{Op: "boolsym", L: &LHS{Sym: pick(t, l+"_bsym", syms)}}
	case "const":
		o.label("bool-const")
		return &Expr{Op: pick(t, l+"_const", []string{"true", "false"})}
	case "setfn":
		s := pick(t, l+"_set", preferred(t, l+"_setpref", setsFor(kind, o), o))
		fn := pick(t, l+"_fn", []string{"anyOf", "allOf"})
		if containsDot(s.name) {
			o.label("set:dotted")
		} else {
			o.label("set:direct")
		}
		return genAtomOn(t, l, &LHS{Fn: fn, Sym: s.name}, s.decl, o)
	case "count":
		s := pick(t, l+"_cset", preferred(t, l+"_csetpref", setsFor(kind, o), o))
		o.label("count")
		return genCountAtom(t, l, &LHS{Fn: "count", Sym: s.name}, o)
	case "isempty":
		s := pick(t, l+"_eset", preferred(t, l+"_esetpref", setsFor(kind, o), o))
		o.label("isEmpty")
		return &Expr{Op: "isempty", L: &LHS{Sym: s.name}}
	case "subcount", "subempty":
		links := linkSetsFor(kind)
		if o.SelfLinks {
			links = []symSpec{{"peers", "people"}}
		}
		ls := pick(t, l+"_link", links)
		inner := &GenOpts{NoSubQuery: true, NoMaps: o.NoMaps, NoDotted: o.NoDotted, Exclude: o.Exclude, Classes: o.Classes, ExcludedHit: o.ExcludedHit, Boost: o.Boost}
		if ls.name == "peers" && kind == "people" {
			// the sub-query iterates a link set that points back into the same store: its predicate often uses that very
			// symbol again (a second cursor over the same set symbol, on another row, while the first is still open)
			inner.PreferSets = []symSpec{{"peers", "s"}, {"peers", "s"}, {"roles", "s"}}
			if !o.NoDotted {
				inner.PreferSets = append(inner.PreferSets, symSpec{"peers.roles", "s"}, symSpec{"peers.sa", "s"})
			}
		}
		// a sub-query may itself contain a sub-query (two levels), and its filter may be the constant true
		if depth-1 > 0 && !o.Exclude["nested-subquery"] && chance(t, l+"_nestedSub", 30) {
			inner.NoSubQuery = false
			inner.SelfLinks = o.SelfLinks
			inner.SubSort = o.SubSort
		}
		sub := GenExpr(t, l+"_sub", ls.decl, depth-1, inner)
		if chance(t, l+"_constSub", 8) {
			sub = &Expr{Op: "true"}
		}
		var subSort []SortKey
		if len(o.SubSort) > 0 && chance(t, l+"_subsort", 40) {
			n := rapid.IntRange(1, 2).Draw(t, l+"_nsubsort")
			for i := 0; i < n; i++ {
				k := SortKey{Sym: pick(t, fmt.Sprintf("%s_subsort%d", l, i), o.SubSort)}
				if chance(t, fmt.Sprintf("%s_subsortdesc%d", l, i), 40) {
					k.Dir, k.Desc = "desc", true
				}
				subSort = append(subSort, k)
			}
		}
		if which == "subcount" {
			if o.Exclude["count-subquery"] {
				if o.ExcludedHit != nil {
					*o.ExcludedHit++
				}
				o.label("sub-query:isEmpty")
				return &Expr{Op: "isempty", L: &LHS{Sym: ls.name, Sub: sub}}
			}
			o.label("sub-query:count")
			return genCountAtom(t, l, &LHS{Fn: "count", Sym: ls.name, Sub: sub, SubSort: subSort}, o)
		}
		o.label("sub-query:isEmpty")
		return &Expr{Op: "isempty", L: &LHS{Sym: ls.name, Sub: sub, SubSort: subSort}}
	}
	panic("no atom kind")
}

func containsDot(s string) bool {
	for _, r := range s {
		if r == '.' {
			return true
		}
	}
	return false
}

func genCountAtom(t *rapid.T, l string, lhs *LHS, o *GenOpts) *Expr {
	e := &Expr{L: lhs}
	small := []int64{0, 1, 2, 3}
	switch rapid.IntRange(0, 5).Draw(t, l+"_countshape") {
	case 0, 1, 2:
		e.Op, e.Cmp = "cmp", pick(t, l+"_cop", cmpOps)
		if chance(t, l+"_cfl", 20) {
			e.C, e.Txt = []Val{FV(pick(t, l+"_cf", []float64{0.5, 1, 1.5, 2}))}, []string{""}
		} else {
			e.C, e.Txt = []Val{IV(pick(t, l+"_cn", small))}, []string{""}
		}
	case 3, 4:
		e.Op = "in"
		e.Neg = chance(t, l+"_cneg", 30)
		n := rapid.IntRange(1, 3).Draw(t, l+"_cin")
		for i := 0; i < n; i++ {
			e.C = append(e.C, IV(pick(t, fmt.Sprintf("%s_cin%d", l, i), small)))
			e.Txt = append(e.Txt, "")
		}
	default:
		e.Op = "between"
		e.Neg = chance(t, l+"_cneg", 30)
		e.C = []Val{IV(pick(t, l+"_clo", small)), IV(pick(t, l+"_chi", small))}
		e.Txt = []string{"", ""}
	}
	return e
}

// GenExpr draws a boolean expression of bounded depth.
func GenExpr(t *rapid.T, l string, kind string, depth int, o *GenOpts) *Expr {
	if depth <= 0 || chance(t, l+"_leaf", 35) {
		return GenAtom(t, l, kind, depth, o)
	}
	switch rapid.IntRange(0, 4).Draw(t, l+"_conn") {
	case 0, 1:
		n := rapid.IntRange(2, 3).Draw(t, l+"_n")
		e := &Expr{Op: "and"}
		for i := 0; i < n; i++ {
			e.Kids = append(e.Kids, GenExpr(t, fmt.Sprintf("%s_a%d", l, i), kind, depth-1, o))
		}
		return e
	case 2, 3:
		n := rapid.IntRange(2, 3).Draw(t, l+"_n")
		e := &Expr{Op: "or"}
		for i := 0; i < n; i++ {
			e.Kids = append(e.Kids, GenExpr(t, fmt.Sprintf("%s_o%d", l, i), kind, depth-1, o))
		}
		return e
	}
	return &Expr{Op: "not", Kids: []*Expr{GenExpr(t, l+"_n", kind, depth-1, o)}}
}
