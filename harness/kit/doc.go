// Package kit holds the shared building blocks of the /verif property checks.
package kit
