module verif

go 1.23.0

require (
	github.com/openziti/foundation/v2 v2.0.59
	github.com/openziti/storage v0.0.0
	go.etcd.io/bbolt v1.4.0
	pgregory.net/rapid v1.3.0
)

require (
	github.com/antlr4-go/antlr/v4 v4.13.1 // indirect
	github.com/biogo/store v0.0.0-20190426020002-884f370e325d // indirect
	github.com/davecgh/go-spew v1.1.1 // indirect
	github.com/google/uuid v1.6.0 // indirect
	github.com/mattn/go-colorable v0.1.12 // indirect
	github.com/mattn/go-isatty v0.0.14 // indirect
	github.com/mgutz/ansi v0.0.0-20200706080929-d51e80ef957d // indirect
	github.com/michaelquigley/pfxlog v0.6.10 // indirect
	github.com/pkg/errors v0.9.1 // indirect
	github.com/pmezard/go-difflib v1.0.0 // indirect
	github.com/sirupsen/logrus v1.8.1 // indirect
	github.com/stretchr/testify v1.10.0 // indirect
	golang.org/x/crypto v0.1.0 // indirect
	golang.org/x/exp v0.0.0-20240506185415-9bf2ced13842 // indirect
	golang.org/x/sys v0.31.0 // indirect
	golang.org/x/term v0.30.0 // indirect
	gopkg.in/yaml.v3 v3.0.1 // indirect
)

replace github.com/openziti/storage => /repo
