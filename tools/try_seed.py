#!/usr/bin/env python3
"""Confirm a seeded change and run the /verif checks against it.

  tools/try_seed.py <seed-dir> <property> [patch-number ...] [--props C01,C02] [--tier quick] [--keep]

For every patchN.diff in <seed-dir> (written by an independent sub-agent that saw only the property text):
  1. a scratch worktree of /repo HEAD is created under /dev/shm, the patch applied;
  2. the repository's own suite must pass with the patch (else the change is not "realistic");
  3. the demonstration test must fail with the patch and pass without it;
  4. the property's quick check (or --props) runs with VERIF_REPO pointing at the scratch tree;
  5. the verdict is printed and, with --keep, the change is stored as /verif/seeded/<property>-<n>/.
The scratch worktree and its build output are removed afterwards. /repo itself is never touched.
"""
import json, os, re, shutil, subprocess, sys, time

ROOT = os.path.dirname(os.path.dirname(os.path.abspath(__file__)))
ENV = dict(os.environ, GOFLAGS="-mod=readonly", GOPROXY="off", GOSUMDB="off", GOTOOLCHAIN="local")

def sh(cmd, cwd=None, env=None, timeout=1800):
    p = subprocess.run(cmd, cwd=cwd, env=env or ENV, shell=isinstance(cmd, str), stdout=subprocess.PIPE, stderr=subprocess.STDOUT, text=True, errors="replace", timeout=timeout)
    return p.returncode, p.stdout

def demo_info(path):
    """package dir and -run pattern from the demo header / content"""
    src = open(path).read()
    pkg = "boltz"
    m = re.search(r"^package (\w+)", src, re.M)
    pkgname = m.group(1) if m else "boltz"
    for cand in ("objectz", "ast", "zitiql", "boltz"):
        if pkgname == cand or pkgname == cand + "_test":
            pkg = cand
            break
    tests = re.findall(r"^func (Test\w+)\(", src, re.M)
    return pkg, "^(%s)$" % "|".join(tests)

def main():
    args = [a for a in sys.argv[1:] if not a.startswith("--")]
    opts = [a for a in sys.argv[1:] if a.startswith("--")]
    seed_dir, prop = args[0], args[1]
    nums = args[2:]
    props = [prop]
    tier = "quick"
    keep = "--keep" in opts
    fallback_all = "--fallback-all" in opts
    label = ""
    seeds = [None]
    for o in opts:
        if o.startswith("--seeds="):
            # robustness: run the check once per VERIF_SEED value; verdict CAUGHT only if caught every time
            seeds = o.split("=", 1)[1].split(",")
        if o.startswith("--label="):
            label = o.split("=", 1)[1] + "-"
        if o.startswith("--props="):
            props = o.split("=", 1)[1].split(",")
        if o.startswith("--tier="):
            tier = o.split("=", 1)[1]
    patches = sorted(f for f in os.listdir(seed_dir) if re.match(r"patch\d+\.diff$", f))
    if nums:
        patches = [p for p in patches if re.match(r"patch(\d+)", p).group(1) in nums]
    results = []
    for pf in patches:
        n = re.match(r"patch(\d+)", pf).group(1)
        demo = os.path.join(seed_dir, "demo%s_test.go" % n)
        wt = "/dev/shm/vp-seed-%s-%s-%d" % (prop, n, os.getpid())
        rec = {"property": prop, "patch": pf, "n": n}
        try:
            sh(["git", "-C", "/repo", "worktree", "add", "-q", "--detach", wt, "HEAD"])
            # demo on the pristine tree
            pkg, run = demo_info(demo)
            dst = os.path.join(wt, pkg, "zz_seed_demo_test.go")
            shutil.copy(demo, dst)
            rc0, out0 = sh(["go", "test", "-vet=off", "-count=1", "-run", run, "./" + pkg], cwd=wt)
            rec["demo_passes_without_patch"] = rc0 == 0
            os.remove(dst)
            rc, out = sh(["git", "apply", os.path.join(seed_dir, pf)], cwd=wt)
            if rc != 0:
                rec["error"] = "patch does not apply: " + out[-300:]
                results.append(rec)
                continue
            rc1, out1 = sh(["go", "test", "-vet=off", "-count=1", "./..."], cwd=wt)
            rec["suite_passes_with_patch"] = rc1 == 0
            shutil.copy(demo, dst)
            rc2, out2 = sh(["go", "test", "-vet=off", "-count=1", "-run", run, "./" + pkg], cwd=wt)
            rec["demo_fails_with_patch"] = rc2 != 0
            os.remove(dst)
            rec["confirmed"] = rec["demo_passes_without_patch"] and rec["suite_passes_with_patch"] and rec["demo_fails_with_patch"]
            rec["checks"] = {}
            if rec["confirmed"]:
                todo = list(props)
                done_fallback = False
                while todo:
                    p = todo.pop(0)
                    t0 = time.time()
                    per_seed = []
                    for sd in seeds:
                        e = dict(os.environ, VERIF_REPO=wt)
                        e.pop("VERIF_SEED", None)
                        if sd is not None:
                            e["VERIF_SEED"] = sd
                        rcc, outc = sh([os.path.join(ROOT, "check"), p, tier], cwd=ROOT, env=e, timeout=7200)
                        per_seed.append({0: "MISSED", 1: "CAUGHT", 2: "INCONCLUSIVE"}.get(rcc, "rc=%d" % rcc))
                        if rcc != 1:
                            break
                    verdict = per_seed[-1] if len(set(per_seed)) == 1 else "/".join(per_seed)
                    expl = ""
                    if rcc == 1:
                        m = re.search(r"property \w+ violated:\n(.*?)(\n\s+case:|\n\s+history:|$)", outc, re.S)
                        if m:
                            expl = " ".join(m.group(1).split())[:4000]
                        elif "DATA RACE" in outc:
                            expl = "race detector report"
                        else:
                            m = re.search(r"(exhaustive case fails|corpus case .* fails):\n(.*?)\n\s+case:", outc, re.S)
                            expl = " ".join(m.group(2).split())[:400] if m else outc[-400:]
                    elif rcc == 2:
                        expl = outc[-600:]
                    expl = re.sub(r"(.)\1{19,}", lambda mm: mm.group(1) * 3 + "...(%d)" % len(mm.group(0)), expl)
                    rec["checks"][p] = {"verdict": verdict, "seconds": round(time.time() - t0), "explanation": expl[:600], **({"per_seed": dict(zip([str(x) for x in seeds], per_seed))} if seeds != [None] else {})}
                    if not todo and fallback_all and not done_fallback and not any(c["verdict"] == "CAUGHT" for c in rec["checks"].values()):
                        # the property's own check missed it: does any other property's check notice?
                        done_fallback = True
                        todo = [q for q in ["C%02d" % i for i in range(1, 21)] if q not in rec["checks"]]
                    if fallback_all and done_fallback and verdict == "CAUGHT":
                        todo = []
        finally:
            sh(["git", "-C", "/repo", "worktree", "remove", "--force", wt])
            shutil.rmtree(wt, ignore_errors=True)
        results.append(rec)
        print(json.dumps(rec, indent=1))
        if keep and rec.get("confirmed"):
            d = os.path.join(ROOT, "seeded", "%s-%s%s" % (prop, label, n))
            os.makedirs(d, exist_ok=True)
            shutil.copy(os.path.join(seed_dir, pf), os.path.join(d, "patch.diff"))
            shutil.copy(demo, os.path.join(d, "demo_test.go"))
            notes = os.path.join(seed_dir, "notes.md")
            meta = {"breaks_property": prop, "source": "independent sub-agent given only the property text and a scratch worktree",
                    "confirmed": {k: rec[k] for k in ("demo_passes_without_patch", "suite_passes_with_patch", "demo_fails_with_patch")},
                    "ran": "tools/try_seed.py %s %s %s" % (seed_dir, prop, n), "checks": rec["checks"]}
            if os.path.exists(notes):
                shutil.copy(notes, os.path.join(d, "agent_notes.md"))
            # what the change needs in order to manifest: the section of the agent's notes about this patch
            needs = ""
            if os.path.exists(notes):
                txt = open(notes).read()
                m = re.search(r"(?is)(^#+[^\n]*patch\s*%s\b.*?)(?=^#+[^\n]*patch\s*\d|\Z)" % n, txt, re.M)
                if m:
                    needs = " ".join(m.group(1).split())[:1500]
            meta["needs_to_manifest"] = needs
            json.dump(meta, open(os.path.join(d, "meta.json"), "w"), indent=1)
    summary = [(r["patch"], r.get("confirmed"), {p: c["verdict"] for p, c in r.get("checks", {}).items()}) for r in results]
    print("SUMMARY", prop, summary)

if __name__ == "__main__":
    main()
