#!/usr/bin/env python3
"""Writes /verif/seeded/README.md: which check catches which seeded change (from the meta.json files)."""
import json, os, glob, re
ROOT = os.path.dirname(os.path.dirname(os.path.abspath(__file__)))
rows = []
for d in sorted(glob.glob(os.path.join(ROOT, "seeded", "*", "meta.json"))):
    m = json.load(open(d))
    name = os.path.basename(os.path.dirname(d))
    patch = open(os.path.join(os.path.dirname(d), "patch.diff")).read()
    files = sorted({l[6:] for l in patch.splitlines() if l.startswith("+++ b/")})
    own = m["breaks_property"]
    shown = [(p, c) for p, c in sorted(m["checks"].items()) if p == own or c["verdict"] != "MISSED"]
    verdicts = ", ".join("%s: %s (%ss)" % (p, c["verdict"], c["seconds"]) for p, c in shown)
    others_missed = sum(1 for p, c in m["checks"].items() if p != own and c["verdict"] == "MISSED")
    if others_missed:
        verdicts += "; %d other checks: MISSED" % others_missed
    expl = next((c["explanation"] for c in m["checks"].values() if c["verdict"] == "CAUGHT"), "")
    expl = re.sub(r"(.)\1{19,}", lambda mm: mm.group(1) * 3 + "…(%d)" % len(mm.group(0)), expl)
    rows.append((name, m["breaks_property"], ", ".join(files), verdicts, expl.replace("|", "\\|")[:220]))
out = ["# Seeded changes", "",
       "Each directory holds `patch.diff` (applies to /repo HEAD with `git apply`), `demo_test.go` (fails with the patch, passes without),",
       "`meta.json` (what was confirmed, which checks ran, verdicts) and the seeding agent's notes. Produced by independent sub-agents that saw only the",
       "property text; re-confirmed and evaluated by `tools/try_seed.py` (quick tier, default seed).", "",
       "| seed | property | files changed | verdict of the quick check(s) | how it was reported |", "|---|---|---|---|---|"]
for r in rows:
    out.append("| %s | %s | %s | %s | %s |" % r)
caught = sum(1 for r in rows if "CAUGHT" in r[3])
out += ["", "%d of %d confirmed seeds are caught by at least one quick check." % (caught, len(rows)), ""]
extra = os.path.join(ROOT, "seeded", "NOTES.md")
if os.path.exists(extra):
    out.append(open(extra).read())
open(os.path.join(ROOT, "seeded", "README.md"), "w").write("\n".join(out) + "\n")
print("wrote seeded/README.md: %d seeds, %d caught" % (len(rows), caught))
