#!/usr/bin/env python3
"""Regenerates /verif/MANIFEST.json from the table below (run after adding a check)."""
import json, os

ROOT = os.path.dirname(os.path.dirname(os.path.abspath(__file__)))

ENV = "GOFLAGS=-mod=mod GOPROXY=off GOSUMDB=off GOTOOLCHAIN=local"

# id -> (built?, category, technique, level text, level note, design ref)
CHECKS = {
 "C01": (True, "exploration",
         "property-based testing (rapid): generated datasets x grammar- and type-directed filters against an independent three-valued reference evaluator; metamorphic route equivalence (QueryIds / QueryIdsC / IterateIds / ast-only evaluation) and seek-shortcut rewrites",
         "Every generated (dataset, filter) pair is answered by the engine through four routes and compared, in both directions (nothing omitted, nothing extra, count exact), with a reference evaluator written from the property statement; atoms that can take the index-seek shortcut are re-run in an equivalent non-seekable spelling. Covers every comparison operator x operand type x coercion class of the generator's table, set functions over direct/dotted/fk sets, map elements up to four segments deep, sub-queries (with sort / skip / limit, and over a self-link re-using the link symbol), keyword letter case, schema variants. Sampling with small universes: a defect needing a constant or nesting depth outside the generator is out of reach.",
         "Trusts the reference evaluator (kit/ref.go), the dataset writer (TypedBucket setters, as in boltz/query_test.go) and bbolt. Rows whose answer the property does not pin down (listed in DESIGN.md §9) evaluate to Unknown in the reference and are not asserted.",
         "DESIGN.md §3 C01"),
 "C02": (True, "exploration",
         "property-based testing (rapid): generated datasets x queries (predicate, 0-5 sort keys, skip, limit) against a reference sort/page; strategy equivalence across index scan, sorting scan, explicit cursor providers, re-execution and cursor iteration, also through plain and extended child stores; metamorphic constant-sort-key relation",
         "The ordered id list and the total count returned through seven routes (incl. tree-set and union-of-tree-sets cursor providers in both directions and a second execution of the compiled query) are compared for equality with the list the property prescribes (sort keys each asc/desc, nulls first ascending, id tie-break, max(skip,0) dropped, limit absent/negative/none = unbounded). Boundary classes of skip and limit are generated explicitly and their frequencies reported; a third of the datasets mix plain people with people that have child data and route queries through a child store (population = entities with child data) or an extended one (population = everyone). Sampling over datasets of <= 8 rows.",
         "Trusts kit/refsort.go and the reference predicate evaluator; predicates with rows of unspecified answer are skipped; <= 5 sort keys.",
         "DESIGN.md §3 C02"),
 "C17": (True, "exploration",
         "property-based testing (rapid) of snapshot/restore histories with a whole-file dump-equality oracle, plus generated concurrent reader/writer/restore workloads under the race detector with a single-generation invariant",
         "Sequential cases split a generated history at a drawn point, snapshot (three ways), continue, restore (two ways) and require: dump after restore == dump at snapshot time modulo the two markers, stores show the model of that time, GetSnapshotId equals the returned id, every restore listener fires once (independently of a slow one), the first timeline request gets a fresh id exactly once (also when two requests overlap, and when it only comes after a second snapshot / restore cycle), a snapshot taken from a read transaction shows what that transaction sees although a write committed meanwhile, readers that deliver data together with EOF restore completely, a snapshot streamed to a slow receiver while a writer commits is one committed generation, a restore listener still busy with the previous restore is notified again, and the post-snapshot transactions replayed on the restored database have the same outcomes. Concurrent cases run readers that verify one generation across entities, indexes and queries inside each read transaction while a writer bumps generations and restores happen; built with -race.",
         "Interleavings are sampled by the Go scheduler. Snapshots are never taken concurrently with a restore (possible recursive-read-lock deadlock is a liveness matter outside this check).",
         "DESIGN.md §3 C17"),
 "C18": (True, "exploration",
         "generated concurrent workloads (rapid) under the Go race detector; oracle = version-tagged snapshot invariant + reference query answers per version + any race report is a violation",
         "Each workload runs 2-8 readers, 0-4 helper-hammering goroutines and one writer whose every transaction moves the whole database to the next version; inside each read transaction entities, unique index, set index, both link sides and drawn queries (parsed concurrently) must all show the same version and equal the serial answer for it; helper results (error classification, parse, symbol resolution, public-symbol validation, failing read transactions, failing batched transactions that must leave nothing visible) are checked; query results held after their read transaction must not change; paging set on a query parsed from the empty filter stays private to the request; no read transaction may be left open at the end; the binary is built with -race.",
         "Interleavings are sampled, not enumerated; a race needing a specific preemption point can be missed.",
         "DESIGN.md §3 C18"),
 "C19": (True, "exploration",
         "property-based differential testing (rapid): the same generated query is answered by objectz.ObjectStore and by a bolt store holding the same values",
         "Literal differential the property states: ids, order and count (or error/no error) must agree for every generated collection x predicate over non-set symbols x sort x skip/limit, including = null / != null, negative skip, skip without limit, limit none, negative limits, limit 0, skip past the end, the zero time, up to 7 sort keys, negative zero, pairs of queries on one store instance that differ only in the letter case of a string literal, and (an eighth of the cases) the same queries issued from four goroutines at once. The object store is iterated in reverse insertion order.",
         "Trusts the bolt store as the reference (its own exactness is C01/C02).",
         "DESIGN.md §3 C19"),
 "C20": (True, "exploration",
         "property-based testing (rapid): typed queries over every AST node kind x public/non-public assignments; oracle = reference symbol set computed from the generated AST",
         "For each generated query the exact set of referenced symbols is known by construction; ValidateSymbolsArePublic must accept iff all are public and otherwise name a referenced non-public symbol. The single non-public symbol is drawn uniformly over syntactic occurrences, so deep positions (inside set functions, sub-queries, in/between/contains/null tests, sort fields up to the eighth) are hit as often as shallow ones; the histogram of positions is reported.",
         "Dotted linked symbols (boss.sa, home.name, peers.sa) are symbols with a publicity of their own; the comparison with a child store that was granted the parent's symbols leaves them out. Sub-queries range over a self-link so the store is unambiguous.",
         "DESIGN.md §3 C20"),
 "C03": (True, "exploration",
         "stateful property-based testing (rapid, histories generated as data with a model-guided generator): in-memory model of unique/set indexes; invariant = index buckets equal model-derived state after every transaction; failed transactions leave the dump unchanged",
         "Generated create/update/patch/delete histories (accepted and rejected operations, several per transaction, caller aborts, Db.Batch, system contexts, the last operation issued from a pre-commit action, hostile values; base paths 1-4 segments deep, keyed symbols, half of the stores with a unique index over an int64 field, a third with an extended and an indexed child store) are executed against the real store and a model; after every transaction the unique indexes (nullable and not) and the set index are compared bucket by bucket and through ReadIndex/SetReadIndex with the model, every entity is re-read, and each rejection must be of the predicted kind and leave the database dump identical.",
         "Trusts the model (kit/world.go) and bbolt's rollback. 'Changes nothing' is asserted per transaction.",
         "DESIGN.md §3 C03"),
 "C04": (True, "exploration",
         "stateful property-based testing (rapid): model of references over five fk wirings, a self reference and references to a child store, hostile id universe; invariants = exact back-reference sets and exact survivor sets after delete",
         "Histories over a target store (with a child store), and nine referrer stores (nullable / non-null fk index, fk constraint with cascade none / cascade delete, cascade-delete fk index, self-referencing fk index, and three wirings whose target is the child store), each history concentrating on 2-4 of them, with explicit re-parenting, stale-target, swap-referrer and cascade-burst transactions, a child store over one referrer store, a self-referencing cascade store with three-level hierarchies, an extended variant of the child-store target, ordinary and system contexts, with ids containing quotes, backslashes, filter keywords, blanks, brackets, newlines, tabs and a control byte. The model predicts missing-target and null rejections, reference-exists refusals and the exact set of entities removed by a cascade; entities, back-references and (on failure) the whole dump are compared after every transaction.",
         "Self-reference-only deletes and cascade cycles are skipped as unspecified. Error classes via exported Is* helpers only.",
         "DESIGN.md §3 C04"),
 "C05": (True, "exploration",
         "stateful property-based testing (rapid) with an adjacency/count model read from both sides, plus bounded-exhaustive enumeration of (current set, requested list) pairs for SetLinks",
         "Histories over three stores and a child store (five collections: plain and ref-counted, one declared on the child store, two whose remote symbols share a name, one store with ref-counted collections only; ids that are prefixes of other ids, a 64-byte id, an id shared by several stores; the child store extended in a third of the cases) of all link operations issued from either side, link sets persisted together with the entity (PersistContext.SetLinkedIds on create / update / patch through the store or the child store), grow-then-shrink transactions, entity creates/deletes and links to missing entities; after every transaction GetLinks, IterateLinks, IsLinked, GetLinkCount(s) and the raw buckets of both sides must equal the model and each other. SetLinks is additionally enumerated over every current set x every requested list (with duplicates, any order) of a small universe.",
         "Negative counts not generated. Trusts the model.",
         "DESIGN.md §3 C05"),
 "C06": (True, "exploration",
         "stateful property-based testing (rapid) over a kitchen-sink schema; oracle = whole-file traversal for any occurrence of the deleted id (independent walker + boltz.ValidateDeleted) and model equality after re-creation",
         "Histories over stores combining unique, nullable-unique, set and fk indexes, fk constraints with cascade, plain and ref-counted links (one declared on the child store) two child stores (the later one with its own unique index and link collection), ids that are prefixes of other ids, end with the delete of a chosen entity and the re-creation of the same id. After the delete commits the id must not occur anywhere in the file in any encoding; after re-creation all model invariants must hold for the fresh entity. The histogram reports which attachment kinds the victim had.",
         "Ids are disjoint from field values (otherwise an occurrence would be ambiguous). Trusts the model.",
         "DESIGN.md §3 C06"),
 "C13": (True, "exploration",
         "property-based testing (rapid) with a write-transaction / read-transaction round-trip oracle, a field-checker frame oracle (incl. overwrites of lists, maps and string lists, mapped and nil checkers) and codec round-trip + injectivity; native go fuzzing of the codec in the thorough tier",
         "Generated values of every supported type (boundary and random, arbitrary byte strings, float bit patterns incl. NaN payloads, times in any zone, nulls written three ways, string lists with duplicates, maps/lists nested up to 4 deep) are written in one transaction and read back in a later one through the typed getters; field-checker cases write a baseline and then different values under a drawn checker subset through TypedBucket and PersistContext setters and require exactly the selected fields to change; values are also looked at before they are written and read back inside the writing transaction through the same bucket object; compound keys are round-tripped and checked for injectivity against random and near-miss lists; unsupported or unstorable values, at the top level or below lists and maps, must return an error without panicking.",
         "Map keys are non-empty and differ from the reserved list-size marker. Sampling; no exhaustive sub-space.",
         "DESIGN.md §3 C13"),
 "C14": (True, "exploration",
         "property-based testing (rapid): 20 cursor kinds x byte-string sets x Next/Seek walks against a sorted-slice position model",
         "For every cursor the library hands out (raw, typed, reverse, related-entities, link and ref-counted link iteration, set-index value and key cursors, set-symbol runtime cursor, id iteration incl. extended stores, empty, filtered, tree-backed, union, matching-all/any providers) the full enumeration must equal the underlying set once each in key order and every Next / Seek step must leave IsValid and Current (untagged) equal to the model, including sets containing the empty string, shared prefixes, 0xff bytes, elements longer than 64 bytes and the empty set; a second cursor of the same set symbol opened on another row in mid-walk must not disturb the first.",
         "The set-symbol runtime cursor is sought with SeekToString only. Sets of at most 8 elements over an 11-element universe.",
         "DESIGN.md §3 C14"),
 "C15": (True, "exploration",
         "stateful property-based testing (rapid): model of (parent part, optional child part) per id, operations routed through either store, plain and extended child stores",
         "After every transaction of a generated history (create / update / patch / delete / delete-where through either store; half of the child stores have a unique index of their own, a third of the configurations a second child store, shared fields occasionally hold values the parent's setters refuse) the populations returned by FindById / LoadById / QueryIds (plain, sorted, with counts) / IterateIds (plain and paged) / IterateValidIds (enumerated and positioned with Seek) / IsEntityPresent through both stores, the shared and child-only fields, and the parent's unique and set indexes are compared with the model; parent constraints must reject child creates; a committed delete through either store must leave no occurrence of the id in the file.",
         "Uses a mapper that routes by IsEntityPresent and copies the written shared fields. Three unspecified operation shapes are skipped (listed in the evidence assumptions).",
         "DESIGN.md §3 C15"),
 "C16": (True, "exploration",
         "stateful property-based testing (rapid): model with the system flag fixed at creation, transactions in ordinary or system contexts",
         "Every generated operation's acceptance is predicted from (entity flag at creation, context kind); refusals must leave the dump unchanged, all other operations must succeed, and the stored flag of every entity must equal its creation flag after every transaction, including after updates that try to flip it from either context. System contexts are derived inside the transaction or handed to Db.Update / Db.Batch from outside; bulk deletes by a non-unique field mix system and ordinary entities.",
         "Trusts the model; single store with the enforcement constraint plus a unique index.",
         "DESIGN.md §3 C16"),
 "C07": (True, "fault_enumeration",
         "property-based generation of transaction bodies (rapid) with exhaustive enumeration of failure kind x failure position x entry point per body; oracle = error reaches the caller, dump before == dump after, no callback after a barrier",
         "For each generated (database, body) the runner enumerates 28 failure kinds (vetoes on a bulk delete by filter, also of the not-found type, a cascaded-delete veto through an entity with child data, pre-commit action queued before the transaction is opened, unstorable value nested below a list in a SetMap document or in the tags of a patch, missing link target in a link set persisted with the entity through either store, reference to a missing target that equals the referrer's own id, caller error, duplicate, empty value, missing fk target, two storage refusals, oversized set element inside a field-restricted update, vetoes on create/update/patch/delete incl. parent-store veto for a child op, child-store veto for a routed update and veto on a cascaded delete, pre-commit action errors: first of two, on a derived system context, on an early-derived context) at every position and through Db.Update, a nested Db.Update and Db.Batch; the rejected call and the transaction must return non-nil, the full dump must equal the baseline and no listener of any style, commit action or tx-complete listener may run; the unmodified body must then commit and match the model.",
         "Failure kinds are the ones reachable without a hook below bbolt (no I/O fault injection). Bodies are sampled, kind x position per body is exhaustive.",
         "DESIGN.md §3 C07"),
 "C08": (True, "exploration",
         "stateful property-based testing (rapid): expected event multiset derived from the model per transaction, compared for equality with the callbacks recorded from every listener registration style (one call per change type, one call naming all types, asynchronous ones per type) on the parent store and one or two child stores",
         "Every transaction of a generated history (committed, aborted, rejected; Update or Batch; operations routed through either store) is followed by a barrier; the multiset of (store, style, change type, id, delivered state) must equal the model-derived one, nothing may fire before the commit handler, commit actions (registered before the transaction, inside it, and through a context derived with UpdateContext) run exactly once iff committed and tx-complete listeners exactly once per committed Db.Update.",
         "Asynchronous callbacks are awaited with bounded polls (5-10 s ceilings); extended-store events for plain parents are not asserted.",
         "DESIGN.md §3 C08"),
 "C09": (True, "exploration",
         "property-based testing (rapid): consistent databases built through the API, subsets of raw bbolt corruptions from 19 classes on parent and child-store indexes; oracle = completeness/soundness by token attribution, dump equality in check mode, model equality after one fix run",
         "A generated API history (through the parent stores and a plain or extended child store that has a unique index of its own; empty alias / reference values included) yields a consistent database on which both modes, run over every store and child store, must report nothing and change nothing, also when the check runs inside the transaction that wrote the last changes; 1-5 raw corruptions (missing / extra / wrong-target unique entries, missing / extra / empty set-index entries and keys, missing / extra / dangling fk back-references and references, one-sided and dangling links, plus the unfixable duplicate-unique and null-in-non-nullable conflicts) are then written behind the API. The check-only run must report each, report nothing else, and leave the dump identical; one fix run followed by a re-check must report only the unfixable conflicts and the indexes, back-references and links must equal the model again; an id that dangled before the fix is then created and linked through the API on the same store objects and the next check must report nothing.",
         "Reports are matched by the ids/values they mention. Empty link/back-reference container buckets inside an entity (created lazily even by reads) are ignored when comparing dumps; empty index keys are not.",
         "DESIGN.md §3 C09"),
 "C10": (True, "exploration",
         "property-based testing and fuzzing: grammar sentences with free operand types, token-level mutants, bounded-exhaustive token strings, random runes, foreign-character injections (rapid); native coverage-guided go fuzzing in the thorough tier; oracle = recover-guarded totality + independent rejection rule",
         "Every generated input is pushed through ast.Parse (bolt and in-memory symbol tables), and every query that parses is evaluated through QueryIds, IterateIds, in-memory EvalBool, ValidateSymbolsArePublic and ObjectStore.QueryEntities over an empty store, all-null rows and a rich dataset, all under recover: a panic, or a result that is neither exactly a query nor exactly an error, is a violation. Independently of the parser, a well-typed sentence with one character that occurs in no lexer rule inserted at a token boundary must be rejected. All token strings of length <= 3 (quick) / <= 4 (thorough) over a 41-token alphabet and a paging matrix (7 predicates x 9 sorts of up to 8 fields x 6 skips x 6 limits) are enumerated; sub-query predicates are drawn over the sub-query's own symbol table; filters with 33-70 distinct symbols; parsed queries are also served from a caller-supplied tree-set cursor; a fixed set of texts is parsed from twelve goroutines at once and compared with the serial outcome.",
         "Termination is only observed through the test deadline. The fuzz target caps input length and the number of and/or tokens because ANTLR prediction is exponential on long mixed chains (a performance matter, not claimed).",
         "DESIGN.md §3 C10"),
 "C12": (True, "exploration",
         "bounded-exhaustive enumeration of boolean skeletons plus property-based re-spelling (rapid); oracle = truth table of the skeleton under standard precedence, and metamorphic invariance of QueryIds under re-spelling",
         "All and/or/not skeletons with up to 4 atoms (5 in the thorough tier) are enumerated in three parenthesisation styles, plus mirror pairs (two groupings of the same three atoms under one connective); skeletons of up to three atoms are also evaluated with constant atoms for every assignment and with the parser's debug switch on, and compared on all 2^n assignments with the skeleton's own value (and over or, chains flat, not (P) = negation). Random skeletons up to 8 atoms are re-spelled with arbitrary whitespace runs in every WS slot, per-letter keyword case and redundant parentheses; a quarter are instantiated with real comparisons over a stored dataset where the re-spelling, the canonical spelling and the skeleton applied to the atoms' own answers must agree.",
         "How a bare 'not' binds against and/or is not stated and not asserted (not is always written not (P) and parenthesised as an operand).",
         "DESIGN.md §3 C12"),
 "C11": (True, "exploration",
         "property-based testing (rapid) with a round-trip oracle and an end-to-end query oracle; native go fuzzing of the codec in the thorough tier",
         "Generated strings over the property's alphabet (biased to adjacent backslash/letter/quote patterns) are quoted, parsed back and used in =, !=, in, not in, contains, not contains queries on a string field and anyOf = / anyOf in / allOf != / anyOf contains queries on a string set, over rows holding the string, near-misses (incl. strings it is a prefix of) and null, and in lists of 10-11 literals where it is the smallest or the greatest element, with the parser's debug switch off and on, through the in-memory symbol route and a bolt store; every answer is compared with the set computed directly from the intended string. Sampling, not proof: a defect needing a string outside the alphabet/length bound can be missed.",
         "Trusts the harness's quote() (written from the property statement), the in-memory ast.Symbols implementation and bbolt. Control characters other than LF TAB CR FF are outside the domain.",
         "DESIGN.md §3 C11"),
}

NOT_BUILT_REASON = "check not built yet in this round (planned, see DESIGN.md §8); no claim is made until its quick command exists"

# what the fifth seeding round added to each check (appended to the level text)
R5 = {
 "C01": "Also: the filter text is first put to a twin store whose like-named symbols have other types, and the parsed filter is narrowed to an id set by a condition composed from AST nodes and typed by PostProcess (either operand order).",
 "C02": "Also: sorting and paging by function-backed symbols whose application state is replaced between two read transactions while the database is not written, and the returned id lists are read again after the transaction ended and the file was rewritten.",
 "C03": "Also: index look-ups (held values and values nobody holds) made inside a writing transaction, after which every invariant is checked again.",
 "C04": "Also: two sibling child stores with a like-named reference to one target store (cascade or restrict), target ids of arbitrary bytes (not necessarily UTF-8), a twenty-level cascade chain.",
 "C05": "Also: ids of 128 and 300 bytes, single AddLink calls to two ids that differ only in letter case.",
 "C06": "Also: every symbol persisted under another key in a third of the cases, records that share the id of the entity they refer to, a uniquely indexed name of exactly bbolt.MaxKeySize bytes.",
 "C07": "Also: the body run as a step of MigrationManager.Migrate (both conventions for the version a failed step returns) and a duplicate create of an entity that persists nothing but its id.",
 "C08": "Also: two registrations sharing the slice of their additional change type, and an update that stores an entity without time stamps unchanged (still one update event).",
 "C09": "Also: a cascading fk-index store, null and dangling references in non-nullable fk fields (reported, not repairable), a dangling child-store link naming a plain parent entity.",
 "C10": "Also: function-backed symbols (one answering with nothing for some rows), every sortable symbol on its own in both directions, a second object store iterating the row with null fields first, limits and skips next to MaxInt64.",
 "C11": "Also: operator keywords inside the string, two comparisons on the same set in one filter, icontains, and an object store whose string accessors hand out live pointers, queried case-insensitively first.",
 "C12": "Also: atoms that are sub-query set functions over one and the same link set, whitespace inside the datetime( ) token, an earlier diagnostic parse (zitiql.ParseWithDebug) of the same text.",
 "C13": "Also: the base values of an extended entity (creation / update stamps with and without Migrate, tags, system flag), zone offsets of a minute or two, a copy of the bucket taken inside the writing transaction.",
 "C14": "Also: cursors opened inside a writing transaction, look-ups of values nobody holds (the index keys stay what they were), a link set established through AddLinks + SetLinks, two stores handed the same base-path slice.",
 "C15": "Also: an entity constraint registered on the parent store only (a rule about the final state) is probed for every entity through every route; it must always be handed the final state.",
 "C16": "Also: transactions run as migration steps, operations issued from a pre-commit action registered by a pre-commit action, and histories in which the data moves into a freshly started instance by snapshot restore.",
 "C17": "Also: overlapping Snapshot requests beside a writer (each must hold the generation committed before it was requested) and a write transaction in flight when a restore arrives.",
 "C18": "Also: a batched transaction with a pre-commit action beside a failing batch member (bbolt re-runs it alone: all of its work is committed), and one parsed restriction (40-element id list) AND-ed onto every reader's filter.",
 "C19": "Also: a second object store holding the people as struct values in a map iterated with objectz.IterateMap.",
 "C20": "Also: symbols wrapped with MapSymbol keep their publicity, dotted .id symbols, sort fields adopted by a query parsed from the empty filter (and the next empty-filter query references nothing).",
}

# what the sixth seeding round added
R6 = {
 "C01": "Round 6: integers next to each other above 2^53, instants outside the int64-nanosecond range, references stored as the empty string, bare map elements as conditions, a tag map registered under another bucket key.",
 "C02": "Round 6: the related-entities cursor of a place as cursor provider, a bulk delete by a sorted and limited query removes exactly the selected page, a query parsed from the empty filter is changed through its setters and the next empty filter is everything again.",
 "C03": "Round 6: the set index's change listener is told a consistent chain of role-set changes, FindMatching with unsorted value lists, a successor takes over a role before its only holder is deleted, role values differing only in letter case.",
 "C04": "Round 6: a reference into a child store whose back-reference set is kept by the parent store, a restricting self-reference store with a root that has children, a missing target through the parent store for an entity with child data, a reference kept in a nested bucket.",
 "C05": "Round 6: a ref-counted collection declared on the child store, two databases of one process written at the same time, backwards seeks on link cursors, IsEntityRelated through the declaring store.",
 "C06": "Round 6: a referrer store whose back-references live on the parent of a child-store target, role values differing only in letter case, delete / re-create / bulk delete of one id in one transaction.",
 "C07": "Round 6: parent rules (duplicate, empty value, missing reference target) on creates through the child store, the delete of a self-referencing root that has children.",
 "C08": "Round 6: migration-step transactions, one context used for two transactions, an up-front commit action of a batch member beside a failing one, a commit action registered through a derived system context.",
 "C09": "Round 6: a missing back-reference of a non-nullable reference (alone and behind an unrepairable reference of the same store), a symmetric link collection that is its own inverse.",
 "C10": "Round 6: a digit glued to an identifier must be rejected (the grammar's identifiers have no digits), literals mixing escapes and multi-byte characters, the empty filter evaluated after another empty-filter query was given a predicate.",
 "C11": "Round 6: the literal compared with a value reached through a reference (boss.sa) and with a tag-map element, half of the cases on a schema whose symbols live under other bucket keys.",
 "C12": "Round 6: the shortest filters (true, false, true limit none) in several spellings through the child store, bare map elements as atoms.",
 "C13": "Round 6: get-and-set setters report the old value and whether it changed, getters with defaults, nil tags on update, compound keys as link entries (AddCompoundLink / RemoveCompoundLink), field overrides at two context levels over like-named fields.",
 "C14": "Round 6: the list forms of the matching look-ups (FindMatching / FindMatchingAnyOf), single links added and removed inside one transaction.",
 "C15": "Round 6: the child keeps its own field under the bucket key of a parent field with overrides declared at both levels, entities without child data read no child field, a link collection owned by the child store.",
 "C16": "Round 6: every entity is also loaded into one re-used entity value (a stale system flag must not be carried over).",
 "C17": "Round 6: snapshot path templates, a reader positioned behind a header, restore from an opened file that must still be the snapshot afterwards, a read request served while a snapshot streams in.",
 "C18": "Round 6: a snapshot streaming back in while a reader asks for the version, the version of a component after a rolled back migration, four timeline requests at once on a database without a timeline id.",
 "C19": "Round 6: (universe) instants outside the int64-nanosecond range and big neighbouring integers.",
 "C20": "Round 6: GetPublicSymbols equals the set made public, child stores that publish a symbol between two grants or register the standard entity symbols themselves, validation of one parsed query by four requests at once.",
}

def main():
    checks = []
    na = []
    for pid in ["C%02d" % i for i in range(1, 21)]:
        entry = CHECKS.get(pid)
        if not entry or not entry[0]:
            na.append({"property_id": pid, "reason": NOT_BUILT_REASON})
            continue
        _, cat, tech, text, note, ref = entry
        if pid in R5:
            text = text.rstrip() + " " + R5[pid]
        if pid in R6:
            text = text.rstrip() + " " + R6[pid]
        checks.append({
            "property_id": pid,
            "quick_cmd": "./check %s quick" % pid,
            "thorough_cmd": "./check %s thorough" % pid,
            "evidence_file": "/verif/evidence/%s.json" % pid,
            "replay_cmd_template": "./check %s --replay {path}" % pid,
            "engine": "rapid-harness",
            "level_claimed": {"category": cat, "text": text, "design_ref": ref},
            "level_note": note,
            "technique": tech,
        })
    manifest = {
        "version": 1,
        "setup_cmd": "cd /verif/harness && %s go build ./... && %s go vet ./kit/ && %s go test -c -vet=off -tags verif -o .bin/props-plain.test ./props && %s go test -c -race -vet=off -tags verif -o .bin/props-race.test ./props" % (ENV, ENV, ENV, ENV),
        "hooks": {
            "guard": "verif",
            "enable": "go build tag: -tags verif (the driver always passes it; no hook files exist at present, every check uses exported API only)",
            "baseline_off_cmd": "cd /repo && GOFLAGS=-mod=readonly GOPROXY=off GOSUMDB=off GOTOOLCHAIN=local go test -vet=off -count=1 ./...",
            "source_commits": [],
            "add_only": True,
        },
        "engines": [{
            "name": "rapid-harness",
            "path": "/verif/harness",
            "serves_properties": [c["property_id"] for c in checks],
            "kind_free_text": "Go module: pgregory.net/rapid v1.3.0 generators producing JSON cases, plain-Go runners with explicit oracles, native go fuzz targets; driver /verif/check",
        }],
        "checks": checks,
        "not_applicable": na,
        "notes": "Driver: /verif/check <id> quick|thorough|--replay <file>. exit 0 held, 1 violation (VIOLATION line), 2 inconclusive. VERIF_SEED selects the rapid seed; VERIF_REPO=<dir> re-points the storage module for sensitivity runs. Known findings / fixes: /verif/known_findings.json.",
    }
    json.dump(manifest, open(os.path.join(ROOT, "MANIFEST.json"), "w"), indent=1)
    print("wrote MANIFEST.json: %d checks, %d not_applicable" % (len(checks), len(na)))

if __name__ == "__main__":
    main()
