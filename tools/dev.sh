#!/bin/bash
# dev loop: tools/dev.sh C01 [seed] [checks]  -> prints only the violation explanation
export GOFLAGS=-mod=mod GOPROXY=off GOSUMDB=off GOTOOLCHAIN=local VERIF_ROOT=/verif
P=$1; SEED=${2:-7}; CH=${3:-}
cd /verif/harness
[ -n "$CH" ] && export VERIF_CHECKS=$CH
VERIF_EVIDENCE_OUT=/dev/shm/ev-$P.json go test -vet=off ./props -run "^Test$P\$" -count=1 -timeout 600s -rapid.seed=$SEED -rapid.nofailfile -rapid.shrinktime=15s 2>&1 | grep -v 'rapid\] draw' | awk '/^ +case: /{print substr($0,1,300); next} {print}' | cut -c1-400 | head -${LINES_MAX:-60}
