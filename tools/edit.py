"""Atomic text replacement helper for editing harness files while background runs are building them.
usage in python: from edit import sub; sub(path, old, new[, count])"""
import os, tempfile
def sub(path, old, new, count=1):
    s = open(path).read()
    assert old in s, "pattern not found in %s: %r" % (path, old[:80])
    s = s.replace(old, new, count)
    d = os.path.dirname(path)
    fd, tmp = tempfile.mkstemp(dir=d, prefix=".edit-")
    os.write(fd, s.encode()); os.close(fd)
    os.chmod(tmp, os.stat(path).st_mode & 0o777)
    os.rename(tmp, path)
